"""Static per-property texts for MANIFEST.json."""

SOURCE_COMMITS = []
NOT_BUILT_REASON = {}

META = {
    "C03": {
        "technique": "rapid PBT: round trip + differential against a slice-based reference decoder over generated fragmentations and faults (all truncation offsets per stream); native differential fuzzing in thorough",
        "text": "Generated record sequences are encoded by the harness's own encoder, delivered through a reader with a generated fragmentation plan and decoded by dockerlog.ParseLog; the outcome (records, clean end vs error) must equal that of an obviously-correct slice-based reference decoder, and un-faulted streams must round-trip exactly. Faults: every truncation offset of the stream, bad timestamp, missing separator, daemon error frame, transport error at a byte offset. Exploration within the stated bounds; the thorough tier adds a coverage-guided byte-level differential fuzz target.",
        "note": "Trusted base: time.Parse for RFC3339Nano, the harness encoder/reference decoder (60 lines). Frame types other than 0-3 only appear in the fuzz tier.",
    },
    "C04": {
        "technique": "rapid PBT with harness-owned schedules: all n! completion orders (n<=4) of the concurrent ContainerLogs calls; invariants over the merged history",
        "text": "Per-container logs are served by a fake daemon that gates every ContainerLogs call and releases them in a chosen order; dockerlog.Querier.SelectLogs output is checked for conservation (multiset), per-container order, global time order (when inputs are ordered) and identity of the whole output sequence across all completion orders (exhaustive for n<=4, 24 generated permutations for n=5,6).",
        "note": "The harness owns the completion order of the opens, not finer goroutine interleavings. Trusted base: fake daemon, encoder.",
    },
    "C15": {
        "technique": "rapid PBT in package main (go build -overlay): generated results x 8 option combinations, exact-bytes validity parser as oracle",
        "text": "renderResult is called in-package on generated stream results (up to 40 containers, ties, hostile message bytes); the output bytes must parse as exactly one expected line per entry in timestamp order, with palette-consistent colours and no ESC when colour is off; a panic is a violation. Exploration of the input space, all 8 option combinations drawn uniformly.",
        "note": "Assumes nothing about timestamp colouring or time zone beyond denoting the same instant. Trusted base: time.Parse, the 100-line matcher.",
    },
    "C16": {
        "technique": "rapid PBT in package main against a reference resolution function; end-to-end cobra command runs against a fake daemon with a bracketed wall clock",
        "text": "parseTimeRange/parseStep are called with a generated clock on all 16 flag combinations, instants in four spellings, Prometheus durations, and malformed/non-positive values, and compared with a reference written from the statement; a second generator drives the real cobra command through the engine to the fake daemon and checks the requested since/until.",
        "note": "Float tolerance: 1ns for fractional plain-second steps; default step may be either neighbour within 1us of a 250s multiple. The e2e default --end case brackets the wall clock between two reads.",
    },
    "C20": {
        "technique": "exhaustive enumeration to length 5 + rapid PBT against a reference mapping; selector/json round trip through a fake Docker daemon; native fuzzing in thorough",
        "text": "KeyToLabel is compared with a reference mapping written from the statement on every string of length <=5 over a 13-symbol alphabet (exhaustive) and on random longer keys (validity, identity on valid names, idempotence, equality with the reference); selectability is checked end to end through dockerlog.Querier and Engine.Eval over a fake daemon, and '| json' extraction through the same path. Exploration, not proof: longer keys are sampled.",
        "note": "Trusted base: Go regexp/unicode handling in the reference mapping; fake daemon implements only ContainerList/ContainerLogs.",
    },
}
