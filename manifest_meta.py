"""Static per-property texts for MANIFEST.json."""

SOURCE_COMMITS = []
NOT_BUILT_REASON = {}

META = {
    "C02": {
        "technique": "rapid PBT through dockerlog.Querier + Engine.Eval over a fake Docker daemon: reference selection model, origin-label check, requested-window check",
        "text": "Generated inventories and selectors are evaluated end to end; the set of containers that received a ContainerLogs call must equal the reference selection (absent label = empty string, anchored regexes), every returned line must carry exactly the label map of the container that wrote it, and every ContainerLogs call must ask for the query window truncated to seconds with stdout+stderr+timestamps.",
        "note": "The built-in label names (container, container_id, ...) are taken from the code as the documented API. Trusted base: Go regexp; fake daemon.",
    },
    "C05": {
        "technique": "rapid PBT: grammar-derived query models printed under generated layouts, parsed tree compared with a tree built directly from the model; catalogue of forbidden texts; structured coverage-guided fuzzing (rapid.MakeFuzz) in thorough",
        "text": "The harness's own query model is the ground truth: it is printed by the harness's printer under a generated layout and converted, without parsing, into the repository's AST; logql.Parse of the text must produce the same tree (parenthesis wrappers erased, regexes by source) for every layout, with literal values computed from the harness's own unit tables. 75 rule-violating texts built around generated parts must be rejected.",
        "note": "The canonical dump prints every field of every AST node; the converter and printer are the trusted base. Quirks of Go's token scanner (0b, P/E units) are excluded as outside the grammar.",
    },
    "C06": {
        "technique": "rapid PBT with by-construction ground truth: lines rendered from generated structure, labels/line compared with the reference extraction through Engine.Eval",
        "text": "For each parser stage the expected label set is known from the structure the line was rendered from (not by re-parsing); the engine's entry must keep the line, expose exactly the requested fields with exactly their values (nested values JSON-equivalent) overriding existing labels, add no other label, and flag malformed lines with __error__ without dropping or changing them.",
        "note": "Trusted base: encoding/json for JSON-equivalence of nested values, Go regexp for the regexp stage, the harness's JSON/logfmt renderers.",
    },
    "C07": {
        "technique": "rapid PBT against the harness's own template expansion / rename / drop / keep model; decolorize by construction",
        "text": "Rewriting stages are evaluated through Engine.Eval and compared with a reference that expands templates of a mini-grammar itself, applies renames and drop/keep lists from the statement, and knows the plain chunks a coloured line was assembled from.",
        "note": "Templates are restricted to a mini-grammar whose expansion the harness can compute independently of text/template.",
    },
    "C14": {
        "technique": "rapid PBT with fault injection and harness-owned completion orders; history invariants at the fake daemon (error surfaced, opened == closed, no read after return)",
        "text": "One fault (list, open, transport error at a byte, cut frame body, corrupt timestamp/separator, daemon error frame) is injected at a generated place into one of several containers while the fake daemon owns the order in which concurrent opens complete; a fault inside the data the query must read must surface as an error, fault-free runs must succeed without loss, and in every run every reader handed out must have been closed and never read after Eval returned - for log, range, vector, binary and failing-at-build query shapes.",
        "note": "Faults behind a limit are only checked for close accounting. Header cuts are clean ends by C03.",
    },
    "C17": {
        "technique": "rapid PBT over grammar-derived, token-mutated and random queries x hostile log content with recover() + watchdog; coverage-guided native fuzzing in thorough",
        "text": "Engine.Eval must return (error or well-typed result) for every generated query/content/parameter combination; panics are caught by recover and shrunk, hangs by a 20s watchdog per case.",
        "note": "Termination is decided as 'returns within 20s' (normal cases take microseconds). Resource exhaustion of the test process is inconclusive.",
    },
    "C18": {
        "technique": "schedule enumeration (all n! completion orders, n<=5) x repetition for map order, canonical-result equality; byte-identical rendering via the real cobra command; Go race detector on a reduced run",
        "text": "The same query over the same fake container logs is evaluated under every completion order of the concurrent opens and repeated with fresh engines; all canonical results must be identical; rendered output (colour off, distinct timestamps) must be byte-identical; a -race build of the same test must stay silent.",
        "note": "Weakest claim of the set: only completion orders are owned by the harness; the race detector judges only interleavings that occurred.",
    },
    "C01": {
        "technique": "rapid PBT: generated data x grammar-derived log queries x storage capability subsets, compared with a reference LogQL pipeline model and differentially between capability configurations",
        "text": "Engine.Eval over a mock storage is compared with an independent reference evaluator (selector, line filters incl. ip(), typed label predicates, json/logfmt/regexp/pattern by construction, distinct, rewriting stages) on the multiset of (timestamp, line, labels); each query runs under a drawn subset of the 2^4 x 2^4 offloadable operators and under none, and both runs must agree. Exploration of a large structured input space with measured class distribution.",
        "note": "Trusted base: Go regexp, net/netip, strconv, time; the harness's SI/IEC byte table; the mock storage applying offloaded matchers with the model's semantics. Ambiguous LogQL corners are excluded by construction (see assumptions in the evidence).",
    },
    "C08": {
        "technique": "rapid PBT: invariants over the stream partition + reference model for membership/limit (time-prefix predicate)",
        "text": "Generated queries with label-rewriting stages and quoting-sensitive label values are evaluated with limits around the number of matches; the result must have unique stream label sets, entries in the stream of exactly their labels, per-stream time order, min(L,N) entries forming a time-prefix of the model's matches.",
        "note": "Records are handed to the engine in time order (storage contract). Same trusted base as C01.",
    },
    "C09": {
        "technique": "rapid PBT against a naive window model; three-way metamorphic cross-check (grid, instant at every grid point, second grid)",
        "text": "For every range function the engine implements, every reported point must equal f over exactly the samples in [T-o-r, T-o], stamped T, computed by a two-pass reference model; the same data is evaluated on a drawn grid, as instant queries at each grid point and on a second grid sharing points, which makes step- and history-independence explicit.",
        "note": "Float tolerance 1e-9 relative. Unwrap values convertible by construction. Storage returns the exact interval or a superset.",
    },
    "C10": {
        "technique": "rapid PBT with planted structural hash collisions and repetition for map-order; invariants (unique label sets, conservation) + reference model",
        "text": "Label names/values are drawn from mutual prefixes/concatenations and half of such cases plant two label sets with identical concatenations; each case is evaluated 5 times with fresh engines so that Go's randomised map iteration is sampled. No duplicate series, series set and values equal to the model, per-step totals conserved.",
        "note": "Random 64-bit hash collisions are out of reach; only structural collisions (order, separators) are searched for.",
    },
    "C11": {
        "technique": "rapid PBT: reference model for the seven value aggregations, validity predicates for topk/bottomk/sort, nesting to depth 3",
        "text": "Vector aggregations over generated range-aggregation inputs with by/without/no clause, empty and non-existent labels and nested clauses are compared with a reference model; topk/bottomk/sort are checked with validity predicates because ties admit several answers.",
        "note": "topk/bottomk/sort only outermost; no NaN inputs.",
    },
    "C12": {
        "technique": "rapid PBT against a per-step reference model of binary operations (label-set join, literal side, set operators)",
        "text": "Vector-vector and vector-scalar operations over generated overlapping/disjoint/empty sides with all 15 operators, literal on either side, instant and range queries, compared point by point with a reference model.",
        "note": "bool and on/ignoring/group_* not generated. Float tolerance 1e-9, NaN equals NaN.",
    },
    "C13": {
        "technique": "rapid PBT: harness-side precedence-climbing parser + evaluator as reference; differential check against the explicitly parenthesised reading; defect model to pin the known finding",
        "text": "Operator chains over vector(v) operands are evaluated by the engine and by the harness's own conventional parser/evaluator; the bare chain must equal its conventional reading and the explicitly parenthesised text. The known finding (equal precedence associates right) is recognised only when the result equals the right-associative defect model; any other deviation is a violation.",
        "note": "Known finding C13-equal-precedence-right-assoc is pinned by parser_test.go and therefore reported, not repaired.",
    },
    "C19": {
        "technique": "rapid PBT with metamorphic relations (sub-multiset, negation partition, commutation, idempotence, and/or as intersection/union, neutral filter)",
        "text": "Eleven related queries per case are evaluated on the same data and compared as multisets of (timestamp, line); no reference model is involved, so the check is independent of the harness's LogQL model.",
        "note": "Unique timestamps identify records. Filters are stateless and do not mention __error__.",
    },
    "C03": {
        "technique": "rapid PBT: round trip + differential against a slice-based reference decoder over generated fragmentations and faults (all truncation offsets per stream); native differential fuzzing in thorough",
        "text": "Generated record sequences are encoded by the harness's own encoder, delivered through a reader with a generated fragmentation plan and decoded by dockerlog.ParseLog; the outcome (records, clean end vs error) must equal that of an obviously-correct slice-based reference decoder, and un-faulted streams must round-trip exactly. Faults: every truncation offset of the stream, bad timestamp, missing separator, daemon error frame, transport error at a byte offset. Exploration within the stated bounds; the thorough tier adds a coverage-guided byte-level differential fuzz target.",
        "note": "Trusted base: time.Parse for RFC3339Nano, the harness encoder/reference decoder (60 lines). Frame types other than 0-3 only appear in the fuzz tier.",
    },
    "C04": {
        "technique": "rapid PBT with harness-owned schedules: all n! completion orders (n<=4) of the concurrent ContainerLogs calls; invariants over the merged history",
        "text": "Per-container logs are served by a fake daemon that gates every ContainerLogs call and releases them in a chosen order; dockerlog.Querier.SelectLogs output is checked for conservation (multiset), per-container order, global time order (when inputs are ordered) and identity of the whole output sequence across all completion orders (exhaustive for n<=4, 24 generated permutations for n=5,6).",
        "note": "The harness owns the completion order of the opens, not finer goroutine interleavings. Trusted base: fake daemon, encoder.",
    },
    "C15": {
        "technique": "rapid PBT in package main (go build -overlay): generated results x 8 option combinations, exact-bytes validity parser as oracle",
        "text": "renderResult is called in-package on generated stream results (up to 40 containers, ties, hostile message bytes); the output bytes must parse as exactly one expected line per entry in timestamp order, with palette-consistent colours and no ESC when colour is off; a panic is a violation. Exploration of the input space, all 8 option combinations drawn uniformly.",
        "note": "Assumes nothing about timestamp colouring or time zone beyond denoting the same instant. Trusted base: time.Parse, the 100-line matcher.",
    },
    "C16": {
        "technique": "rapid PBT in package main against a reference resolution function; end-to-end cobra command runs against a fake daemon with a bracketed wall clock",
        "text": "parseTimeRange/parseStep are called with a generated clock on all 16 flag combinations, instants in four spellings, Prometheus durations, and malformed/non-positive values, and compared with a reference written from the statement; a second generator drives the real cobra command through the engine to the fake daemon and checks the requested since/until.",
        "note": "Float tolerance: 1ns for fractional plain-second steps; default step may be either neighbour within 1us of a 250s multiple. The e2e default --end case brackets the wall clock between two reads.",
    },
    "C20": {
        "technique": "exhaustive enumeration to length 5 + rapid PBT against a reference mapping; selector/json round trip through a fake Docker daemon; native fuzzing in thorough",
        "text": "KeyToLabel is compared with a reference mapping written from the statement on every string of length <=5 over a 13-symbol alphabet (exhaustive) and on random longer keys (validity, identity on valid names, idempotence, equality with the reference); selectability is checked end to end through dockerlog.Querier and Engine.Eval over a fake daemon, and '| json' extraction through the same path. Exploration, not proof: longer keys are sampled.",
        "note": "Trusted base: Go regexp/unicode handling in the reference mapping; fake daemon implements only ContainerList/ContainerLogs.",
    },
}
