"""Static per-property texts for MANIFEST.json."""

SOURCE_COMMITS = []
NOT_BUILT_REASON = {}

META = {
    "C20": {
        "technique": "exhaustive enumeration to length 5 + rapid PBT against a reference mapping; selector/json round trip through a fake Docker daemon; native fuzzing in thorough",
        "text": "KeyToLabel is compared with a reference mapping written from the statement on every string of length <=5 over a 13-symbol alphabet (exhaustive) and on random longer keys (validity, identity on valid names, idempotence, equality with the reference); selectability is checked end to end through dockerlog.Querier and Engine.Eval over a fake daemon, and '| json' extraction through the same path. Exploration, not proof: longer keys are sampled.",
        "note": "Trusted base: Go regexp/unicode handling in the reference mapping; fake daemon implements only ContainerList/ContainerLogs.",
    },
}
