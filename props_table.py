"""Per-property configuration of the driver: which test decides it, case counts per tier,
the non-triviality rule and the assumptions recorded in the evidence."""


def rapid(test, checks, shards=1, timeout=420, **kw):
    d = {"test": test, "checks": checks, "shards": shards, "timeout": timeout}
    d.update(kw)
    return d


def fuzz(target, seconds, **kw):
    d = {"fuzz": target, "seconds": seconds}
    d.update(kw)
    return d


PROPS = {
    "C05": {
        "rule": "cases (80%): grammar-derived query models covering every construct the parser supports (selector matchers; all 14 "
                "stage kinds with their argument forms; label predicates of five types combined with and/or/,/juxtaposition/"
                "parentheses; all 15 range functions with parameter/grouping/unwrap(+conversion,+filters)/offset and range before or "
                "after the pipeline; all 11 vector aggregations with by/without before or after and k; vector(); label_replace; "
                "signed literals; binary operations with bool/on/ignoring/group_left/group_right/include lists; redundant "
                "parentheses around selectors, predicates, whole log queries and metric expressions), literals generated with the "
                "value they denote (byte strings, durations ns..y incl. compound and decimal, SI/IEC byte sizes, ints/decimals/"
                "exponents), printed under a generated layout (blanks, tabs, CR/LF, # comments, raw strings) and under the plain "
                "layout; oracle: logql.Parse must succeed on both texts and its tree must equal the tree constructed directly "
                "from the model (Paren wrappers erased, regexes by source) - evaluations counts each Parse; cases (20%): one of 75 "
                "grammar-forbidden texts built around generated selectors/pipelines, Parse must fail; non-trivial = >=3 constructs "
                "with a non-default layout, or a negative case; distinct by case hash",
        "assumptions": [
            "chains of >=3 operands without parentheses are not generated (operator grouping is C13's subject)",
            "juxtaposition only in front of an identifier; a parenthesised selector only inside range expressions; '==' never with a string literal",
            "quirks of the Go token scanner the lexer is built on are outside the grammar: 0B/0b (binary prefix), units starting with P/E (exponent), // and /* (comments)",
            "reserved words are never label names; function words are (followed by an operator, comma or closing token)",
        ],
        "quick": [rapid("TestC05", 4000)],
        "thorough": [rapid("TestC05", 150000, shards=16, timeout=3000), fuzz("FuzzC05", 180)],
    },
    "C07": {
        "rule": "cases: 1-6 records with generated label sets (missing labels, mixed-case and padded values) and lines, x one "
                "rewriting stage: label_format with 1-3 renames dst=src (src/dst present or absent, src==dst) and templates from a "
                "mini-grammar the harness expands itself (literals, .label, __line__, __timestamp__ | unixEpochNanos, "
                "__timestamp__.Unix, upper/lower/ToUpper/ToLower/trim, printf, default) incl. deliberately failing ones; "
                "line_format with the same grammar; drop/keep with name lists and =,!=,=~,!~ matchers; decolorize over lines "
                "assembled from plain chunks (that look like SGR parameters) and SGR sequences; oracle through "
                "Engine.Eval('{} | stage'): one entry per record, line and label set equal to the reference expansion (decolorize: "
                "exactly the concatenated plain chunks), failing template => target unchanged and __error__ present; non-trivial "
                "= a rename with src present and src != dst, a template referencing a label or the line, a drop/keep removing some "
                "but not all labels, or a line with a colour sequence; distinct by case hash",
        "assumptions": [
            "templates of one stage never reference a label set or renamed by the same stage; rename chains are not generated",
            "plain chunks contain no ESC, U+009B or BEL; a label is never in both the name list and the matcher list of one drop/keep",
        ],
        "quick": [rapid("TestC07", 2000)],
        "thorough": [rapid("TestC07", 100000, shards=16, timeout=3000)],
    },
    "C06": {
        "rule": "cases: 1-6 records whose lines are rendered from generated structure - JSON objects (strings with escapes/Unicode, "
                "int64-range ints, floats in several spellings, bools, null, nested objects/arrays to depth 3, keys needing "
                "sanitisation), logfmt pairs (quoted, empty, bare keys), promtail-packed entries, delimiter-separated lines - with "
                "pre-existing record labels that collide with field names, x one parser stage (json/logfmt with no arguments, a "
                "field list, or path/rename expressions to existing and missing leaves and subtrees; regexp; pattern; unpack), x "
                "malformed variants (truncated at a random byte, syntactically broken, not JSON at all, unterminated logfmt quote, "
                "non-object JSON); oracle through Engine.Eval('{} | stage'): one entry per record, line byte-identical (unpack: "
                "the _entry value), label set equal to record labels overridden/extended by exactly the requested fields with "
                "exactly their values (nested values JSON-equivalent), malformed lines kept unchanged and flagged; non-trivial = "
                "a malformed line, or a field that needed escaping/sanitising or overrode an existing label; distinct by case hash",
        "assumptions": [
            "a valid JSON object followed by trailing garbage is not treated as malformed (neither jx nor Loki's own parser reject it; first version of the check did - a false alarm, removed)",
            "duplicate keys, two keys with the same sanitised form, and nulls inside nested values are not generated",
            "a non-matching regexp/pattern line is only required to be kept unchanged; pattern lines are generated to match",
            "JSON path expressions never select a null",
        ],
        "quick": [rapid("TestC06", 2000)],
        "thorough": [rapid("TestC06", 100000, shards=16, timeout=3000)],
    },
    "C18": {
        "rule": "cases: 1-5 fake containers with generated logs and Docker labels x a log / metric / binary-operation query; every "
                "case is evaluated under ALL n! completion orders of the concurrent per-container ContainerLogs calls (n<=5, up "
                "to 120 schedules, two waves for binary operations) x 5 repetitions with a fresh engine (map iteration order) - "
                "evaluations counts each run; oracle: the order-free canonical text of every result (all streams/series with "
                "labels, values, timestamps) equals the first one; TestC18Render runs the real cobra command with colour off over "
                "logs with distinct timestamps under all completion orders x 3 repetitions and requires byte-identical output; a "
                "reduced run of the same test built with -race fails on any race report; non-trivial = >=3 containers and a "
                "result with >=2 streams/series of >=2 labels each (render: >=3 containers and >=4 lines); distinct by case hash",
        "assumptions": [
            "the harness owns the completion order of the opens, not finer goroutine interleavings; the race detector only judges interleavings that occurred - the weakest claim of the set",
        ],
        "replay_test": "TestC18",
        "quick": [rapid("TestC18", 120),
                  rapid("TestC18Render", 40, binary="cmdmain", shard_base=200),
                  rapid("TestC18", 10, race=True, shard_base=100, env={"VERIF_C18_MAXCTRS": "4", "VERIF_C18_REPS": "2"}, allow_short=True),
                  rapid("TestC18OpenFaults", 80, race=True, shard_base=300, allow_short=True),
                  rapid("TestC18Scale", 8, shard_base=400)],
        "thorough": [rapid("TestC18", 200, shards=16, env={"VERIF_C18_REPS": "20"}, timeout=3000),
                     rapid("TestC18Render", 300, shards=4, binary="cmdmain", shard_base=200, timeout=3000),
                     rapid("TestC18", 200, race=True, shard_base=100, env={"VERIF_C18_MAXCTRS": "4", "VERIF_C18_REPS": "3"}, timeout=3000),
                     rapid("TestC18OpenFaults", 3000, race=True, shards=4, shard_base=300, timeout=3000),
                     rapid("TestC18Scale", 200, shards=8, shard_base=400, timeout=3000)],
    },
    "C14": {
        "rule": "cases: 1-5 fake containers with generated logs x a query shape (log query, log query with limit, range "
                "aggregation, vector aggregation, binary operation over two selections, with a literal, and six shapes that fail "
                "after or before opening: unsupported function / invalid template on the right of a binary operation, under an "
                "aggregation, label_replace, invalid template, invalid JSON path) x a selector picking 0..n containers x one fault "
                "(list error, open error, transport error at a byte offset, frame body cut, bad timestamp, missing separator, "
                "daemon error frame - in any container at any position) or none x completion orders of the concurrent opens x a "
                "fragmentation plan; history invariants at the fake daemon: a fault inside the data the query must read => error; "
                "fault-free or fault in an unselected container => success and nothing lost; always opened == closed and no read "
                "after Eval returned; non-trivial = a fault in a stream of a >=2-container selection, or a metric/binary query "
                "that opened >=2 readers; distinct by case hash",
        "assumptions": [
            "a stream cut inside a frame header is a clean end (C03) and is not injected as a fault here",
            "with a limit a fault behind the limit may legitimately stay unreached: only the close accounting is checked there",
        ],
        "quick": [rapid("TestC14", 1000)],
        "thorough": [rapid("TestC14", 40000, shards=16, timeout=3000)],
    },
    "C02": {
        "rule": "cases: inventories of 0-7 fake containers (names with/without leading slash, empty Names, aliases, images, states, "
                "statuses, created times, 0-4 Docker labels with dots/dashes/slashes/blanks/leading digits/multi-byte keys) x a "
                "selector of 0-3 matchers over built-in labels, sanitised Docker labels and absent labels with all four operators "
                "(values from the inventory, near misses, empty, regexes incl. ones matching only a proper substring and .*/.+) x "
                "a nanosecond-granular time range between 2001 and 2200, as a log query or inside count_over_time with range/"
                "offset (range and instant); oracle: reference selection (absent label = empty string, anchored regex) must equal "
                "the set of containers that received a ContainerLogs call, every returned line must carry exactly its "
                "container's label map, the daemon must be asked with stdout+stderr+timestamps, no follow, since/until = "
                "floor(start)/floor(end) (metric queries: a window covering [start-o-r, end-o] to the second, at most the 30s "
                "instant lookback wider); non-trivial = >=2 containers with a proper non-empty selection, or a matcher on an "
                "absent label; distinct by case hash",
        "assumptions": [
            "Docker label keys whose sanitised form collides with another key of the container or with a built-in name are not generated",
            "reserved words are not used as label names",
        ],
        "quick": [rapid("TestC02", 1200)],
        "thorough": [rapid("TestC02", 60000, shards=16, timeout=3000)],
    },
    "C12": {
        "rule": "cases: two vectors over the same generated records (same expression, same grouping over another function, "
                "independent sides, optionally restricted by a selector so that the overlap is proper; plain range aggregations or "
                "sum/max/count/avg by(...)), or a vector and a scalar literal written on the left or on the right (0, negatives, "
                "fractions, signed and exponent spellings), all twelve arithmetic/comparison operators and and/or/unless, instant "
                "and range queries of up to 20 steps; oracle: reference model per step (label-set join, op(left,right) with the "
                "literal on its written side, x/0 and x%0 = NaN, comparison = 1/0, set operators by label set with left values); "
                "non-trivial = both sides non-empty with a proper non-empty overlap at some step, or a non-commutative operator "
                "with the literal on the left; distinct by case hash",
        "assumptions": ["the bool modifier and on/ignoring/group_* are not generated (outside the statement)",
                        "comparison operators, % and ^ are only generated over integer-valued sides (counts, byte counts, their sum/max/count): they turn a last-bit floating-point difference of an order-dependent sum into 0/1"],
        "quick": [rapid("TestC12", 1500), rapid("TestC12Docker", 1200)],
        "thorough": [rapid("TestC12", 60000, shards=16, timeout=3000), rapid("TestC12Docker", 40000, shards=8, timeout=1500)],
    },
    "C13": {
        "rule": "cases: chains of 2-5 vector(v) operands (operands may be parenthesised sub-chains, depth <=2) joined by any of the "
                "15 binary operators, evaluated as instant queries; oracle: the harness parses the chain by precedence climbing "
                "with the conventional table (^ right-assoc and tightest, * / %, + -, comparisons, and/unless, or; equal "
                "precedence left to right) and evaluates it over optional-scalar values, and the same reading written with "
                "explicit parentheses must evaluate to the same result (evaluations counts both engine runs); a second "
                "'defect model' (every level right-associative) classifies the known finding: a chain whose two trees differ and "
                "whose result equals the defect model's is the listed finding, any other wrong value is a violation; 3 of 4 "
                "chains are generated outside the finding's domain; non-trivial = >=3 operands over >=2 precedence levels, or a "
                "^ chain, or parentheses; distinct by case hash",
        "assumptions": ["operands are vector(v) with non-negative v (the grammar has no signed argument there); literal-literal operations are unsupported by the engine and not generated"],
        "quick": [rapid("TestC13", 3000)],
        "thorough": [rapid("TestC13", 200000, shards=16, timeout=3000)],
    },
    "C11": {
        "rule": "cases: 2-8 series templates with varied values (counts, byte sums, unwrapped sums incl. negatives and fractions), "
                "a range aggregation wrapped in 0-2 inner simple aggregations and one top-level operator out of all eleven, "
                "by/without lists incl. empty and non-existent labels or no clause, k in {1,2,3,5,100}, range and instant "
                "queries; oracle: reference model for sum/avg/min/max/count/stddev/stdvar (one series per retained label "
                "combination; no clause = one group with the empty label set; nested clauses compose); validity predicate for "
                "topk/bottomk (output series are input series with their values, per group min(k,n) of them, kept values are "
                "the k extremes) and sort/sort_desc (permutation, monotone, instant only); non-trivial = >=2 groups with >=2 "
                "members each at some step, or k below a group's size, or nesting depth >=2; distinct by case hash",
        "assumptions": [
            "topk/bottomk/sort only appear as the outermost operator (with ties several answers are valid)",
            "no NaN inputs to aggregations; population variance; float tolerance 1e-9 relative",
        ],
        "quick": [rapid("TestC11", 2500)],
        "thorough": [rapid("TestC11", 60000, shards=16, timeout=3000)],
    },
    "C09": {
        "rule": "cases: up to 40 records on a 250ms lattice built from 1-4 series templates (ties, points exactly on window "
                "edges), one range aggregation out of all 13 implemented functions (count/rate/bytes/bytes_rate and sum/avg/min/"
                "max/stddev/stdvar/quantile/first/last/rate over unwrap with none/bytes()/duration()/duration_seconds()), grouping "
                "where the grammar allows, range 250ms-1m, offset absent/0/positive, a grid with step <,=,> range (<=40 steps), "
                "storage returning the exact interval or everything, a capability subset; every case is evaluated on the drawn "
                "grid, as an instant query at every grid point, and on a second grid sharing a point (evaluations counts each "
                "engine run); oracle: reference model f(samples in [T-o-r, T-o]) stamped T; non-trivial = some series has >=2 "
                "points in a window and (a point lies exactly on a window edge or step < range); distinct by case hash",
        "assumptions": [
            "unwrap values are always convertible; timestamps are made distinct for first/last_over_time",
            "the unwrapped label stays part of the series identity like every other label (nothing in the statements removes it)",
            "float tolerance 1e-9 relative (streaming vs two-pass formulas)",
            "no distinct stage inside metric queries (its state would depend on how much the storage returns)",
        ],
        "quick": [rapid("TestC09", 700), rapid("TestC09Docker", 1500)],
        "thorough": [rapid("TestC09", 25000, shards=16, timeout=3000), rapid("TestC09Docker", 60000, shards=8, timeout=1500)],
    },
    "C10": {
        "rule": "cases: records whose label names/values come from a pool of mutual prefixes/concatenations ({a,b,ab,ba} x "
                "{a,b,ab,bab,...}; half of the ambiguous cases plant two label sets whose name/value strings concatenate "
                "identically), count_over_time bare or under sum/count by|without, range and instant; every case is evaluated 5 "
                "times with a fresh engine (map iteration order) - evaluations counts each; invariants: no two series with equal "
                "label maps, series set and every value equal to the model, per-step totals equal the number of samples in the "
                "window; non-trivial = a series of >=2 labels aggregating >=2 samples at a step, or two result label sets with "
                "equal concatenations; distinct by case hash",
        "assumptions": ["64-bit hash collisions between unrelated label sets are not reachable by search; only structural collisions are"],
        "quick": [rapid("TestC10", 1500)],
        "thorough": [rapid("TestC10", 40000, shards=16, timeout=3000)],
    },
    "C17": {
        "rule": "cases: queries from three sources - grammar-derived over the whole grammar (40%), their token-level mutations "
                "(delete/duplicate/swap/replace by a token of the token table/splice with another query, 40%), arbitrary bytes (10%) - "
                "crossed with 0-8 records whose lines are hostile (5000-deep JSON, huge/odd numbers, lone surrogates, truncated "
                "JSON, unterminated logfmt, 70KB lines, invalid UTF-8, broken escape sequences and addresses), arbitrary bytes, "
                "structured or plain, with label values such as NaN, Inf, 1e400; instant or range parameters with a positive step "
                "(<=1000 steps) and any limit; oracle: Engine.Eval inside recover() and under a 20s watchdog must return, with "
                "an error or with a result whose type matches the expression kind; an unparsable query must not produce a "
                "result; non-trivial = the query parsed and evaluation reached the storage over a non-empty record set, or a "
                "mutated query that still parsed; distinct by case hash; thorough adds a coverage-guided native fuzz target "
                "seeded with every query string of the repository's parser/lexer/engine tests",
        "assumptions": [
            "'terminates' is decided as 'returns within 20s' for cases that normally take microseconds",
            "step 0 with start != end is outside the statement (well-formed parameters) and belongs to C16",
            "template arguments are small (sprig's repeat/indent allocate what they are asked to; a line used as a regular expression over itself costs pattern x text and is kept below 256 bytes)",
        ],
        "quick": [rapid("TestC17", 4000)],
        "thorough": [rapid("TestC17", 100000, shards=16, timeout=3000), fuzz("FuzzC17", 300)],
    },
    "C19": {
        "rule": "cases: generated records with unique timestamps (some lines and label values are arbitrary bytes) x a prefix "
                "query q (0-4 arbitrary stages incl. parsers, rewriting stages and distinct) x filters f, g (line filters with "
                "needles cut from real lines or arbitrary bytes and regexes, string label matchers) x label predicates a, b x a "
                "storage capability subset; each case evaluates 11 related queries (evaluations counts them); metamorphic oracle on "
                "multisets of (timestamp, line): q|f is a sub-multiset of q, q|f + q|not f = q, q|f|g = q|g|f, q|f|f = q|f, q|=\"\" = q, "
                "q|(a and b) = (q|a) intersect (q|b), q|(a or b) = (q|a) union (q|b); non-trivial = 0 < |q|f| < |q|; distinct by case hash",
        "assumptions": [
            "f, g, a, b are stateless and do not mention __error__ labels; distinct only appears inside q",
            "q never ends with a bare drop/keep (the following '!= x' would read as a matcher)",
            "ip() filters are not part of the negation pairs of the statement",
        ],
        "quick": [rapid("TestC19", 1500)],
        "thorough": [rapid("TestC19", 40000, shards=16, timeout=3000)],
    },
    "C01": {
        "rule": "cases: 0-25 generated records (plain / JSON / logfmt / delimiter-separated lines built from known structure, typed "
                "label and field pools, ties) x a generated log query (0-3 selector matchers with all four operators, up to 6 stages: "
                "line filters incl. ip(), label predicates of all five types combined with and/or/,/juxtaposition/parentheses, json/"
                "logfmt/regexp/pattern parser stages, distinct, and occasionally rewriting stages) printed with generated layout, x "
                "one of the 256 storage capability subsets; each case is evaluated under the drawn capabilities and under none "
                "(evaluations counts both); oracle: reference model => multiset of (timestamp, line, labels), both runs must equal "
                "it and each other; non-trivial = 0 < |result| < |records|, or >=2 stages with at least one condition actually "
                "offloaded; distinct by case hash",
        "assumptions": [
            "mixed and/or predicates are always parenthesised; juxtaposition is only generated in front of an identifier",
            "!= ip() line filters only over lines with exactly one address; addresses are delimited by characters outside [0-9a-fA-F:.]; an ip() filter after line_format is skipped (a template can glue an address to hex-looking text)",
            "the texts of __error__ / __error_details__ are not specified, only their presence",
            "a line filter starting with != or !~ is not generated directly after 'drop a' / 'keep a' (grammar ambiguity)",
            "JSON documents have unique keys, int64-range integers and finite floats; noise lines are not JSON from their first byte",
            "the mock storage applies offloaded matchers with the reference semantics (storage contract)",
        ],
        "quick": [rapid("TestC01", 5000), rapid("TestC01Backend", 800)],
        "thorough": [rapid("TestC01", 100000, shards=16, timeout=3000), rapid("TestC01Backend", 20000, shards=8, timeout=1200)],
    },
    "C08": {
        "rule": "cases: C01's generator with rewriting stages enabled, label values that differ only in quoting-sensitive characters "
                "(quote, backslash, comma, equals, newline), frequent '| drop msg' / '| keep x' endings so that records share final "
                "label sets, and a limit from {-5,-1,0,1,N/2,N-1,N,N+1,2N} where N is the model's number of matches; invariants + "
                "model: unique stream label sets, entries in the stream of exactly their labels, per-stream time order, count = "
                "min(L,N) (all N for L<=0), returned set is a time-prefix of the matches; non-trivial = >=2 streams and 0<L<N, or "
                ">=2 streams with a quoting-sensitive label value; distinct by case hash",
        "assumptions": ["records are handed to the engine in time order (storage contract)", "see C01 for the query generator's preconditions"],
        "quick": [rapid("TestC08", 1500), rapid("TestC08Docker", 1500)],
        "thorough": [rapid("TestC08", 100000, shards=16, timeout=3000), rapid("TestC08Docker", 40000, shards=8, timeout=1200)],
    },
    "C16": {
        "rule": "cases: a generated clock and all 16 present/absent combinations of --start --end --since --step; instants "
                "2001-2200 at s/ms/ns granularity spelled as unix seconds, unix nanoseconds, fractional seconds (1-3 decimals) or "
                "RFC3339 (Z and numeric zones); Prometheus durations (1-3 descending units) and plain/fractional seconds; malformed "
                "spellings and non-positive/NaN/Inf/sub-nanosecond steps; oracle: reference resolution written from the statement "
                "(parseTimeRange/parseStep called directly), plus end-to-end runs of the cobra command against the fake daemon "
                "where the requested since/until must equal floor(start)/floor(end) (wall clock bracketed by two reads); "
                "non-trivial = 1-3 of the four flags given (defaults and explicit values mix) or a malformed value; distinct by case hash",
        "assumptions": [
            "--since given as a plain number is not generated (the statement names plain seconds only for --step)",
            "a step written as fractional plain seconds may differ by 1ns (binary floating point)",
            "a sub-nanosecond positive step may be rejected or rounded up, but must not resolve to a non-positive step silently",
            "an explicitly empty flag value is not generated",
        ],
        "replay_test": "TestC16",
        "quick": [rapid("TestC16", 5000, binary="cmdmain"), rapid("TestC16E2E", 300, binary="cmdmain", shard_base=100)],
        "thorough": [rapid("TestC16", 200000, shards=16, binary="cmdmain", timeout=3000),
                     rapid("TestC16E2E", 4000, shards=4, binary="cmdmain", shard_base=100, timeout=3000)],
    },
    "C15": {
        "rule": "cases: generated stream results (0-40 containers - well past the palette of 8 -, 0-52 entries, several streams per "
                "container, streams without a container label, ms/ns/wide timestamps with deliberate ties (<=4 per instant), "
                "messages with embedded/trailing CR/LF, ANSI sequences and arbitrary bytes) rendered by renderResult under all 8 "
                "option combinations; oracle: the exact output bytes must be parseable as one expected line per entry in "
                "non-decreasing timestamp order (ties may permute), colours consistent per container and from the palette, no "
                "ESC without colour; non-trivial = >=9 distinct containers with colour on, or a timestamp tie, or an embedded "
                "line break; distinct by case hash",
        "assumptions": [
            "whether the timestamp itself is coloured is not stated: one SGR sequence around it is accepted when colour is on",
            "the time zone of the rendered timestamp is not stated: any RFC3339 text denoting exactly the entry's instant is accepted",
        ],
        "quick": [rapid("TestC15", 2500, binary="cmdmain")],
        "thorough": [rapid("TestC15", 60000, shards=16, binary="cmdmain", timeout=3000)],
    },
    "C04": {
        "rule": "cases: 0-6 fake containers with generated logs (empty, singletons, long, ties inside and across containers, "
                "mostly time-ordered, 10% deliberately not) read through dockerlog.Querier.SelectLogs while the fake daemon "
                "enforces a completion order of the concurrent ContainerLogs calls: all n! orders for n<=4, 24 generated "
                "permutations otherwise; evaluations counts (data set, order) runs; invariants: conservation, per-container "
                "order, time order, identical output for every order; non-trivial = >=2 non-empty containers whose time "
                "ranges interleave or that share a timestamp; distinct by case hash",
        "assumptions": [
            "the harness owns the order in which ContainerLogs calls return, not finer goroutine interleavings",
            "time order is only required when every container's own log is time-ordered",
        ],
        "quick": [rapid("TestC04", 700)],
        "thorough": [rapid("TestC04", 12000, shards=16, timeout=3000)],
    },
    "C03": {
        "rule": "cases: generated record sequences (0-40 records, arbitrary message bytes, ns timestamps 2001-2200 in three "
                "spellings, stdout/stderr/stdin frames, occasional >64KiB frames) encoded by the harness's encoder and served "
                "through a reader with a generated fragmentation plan; faults: every truncation offset (exhaustive per case for "
                "streams <=1500 bytes), one truncation, bad timestamp, missing separator, daemon error frame, transport error at "
                "a byte offset; oracle: slice-based reference decoder + round trip; evaluations counts every decode (each "
                "truncation offset is one); non-trivial = >=2 records with a fragmentation plan, or any fault case, or a raw "
                "fuzz case; distinct by case hash",
        "assumptions": [
            "frame types other than 0,1,2,3 are not generated by rapid (the statement covers stdout/stderr frames)",
            "Next is not called again after it returned false",
            "a transport (non-EOF) read error is expected to surface as an error wherever it occurs",
        ],
        "quick": [rapid("TestC03", 2500)],
        "thorough": [rapid("TestC03", 25000, shards=16, timeout=3000), fuzz("FuzzC03", 180)],
    },
    "C20": {
        "rule": "cases: every string of length 1..5 over {a,z,A,Z,0,9,_,.,-,/,space,é,世,0xFF,0xC3,U+0663 ARABIC-INDIC DIGIT THREE} (exhaustive) plus "
                "rapid-generated keys up to 64 symbols, selector queries through the fake daemon and '| json' "
                "extractions; non-trivial = the key contains at least one offending character or starts with a digit; "
                "distinct = enumerated strings are distinct by construction, generated cases are de-duplicated by hash",
        "assumptions": [
            "the empty key is outside the domain (its image \"\" cannot be a label name)",
            "keys whose image is a LogQL keyword or shadows a built-in container label are not used for the selector part",
            "two keys of one container with the same image are not generated (which one wins is unspecified)",
        ],
        "quick": [rapid("TestC20", 3000)],
        "thorough": [rapid("TestC20", 100000, shards=8, env={"VERIF_C20_MAXLEN": "6"}, timeout=3000),
                     fuzz("FuzzC20", 120)],
    },
}

# Later extensions of the generators and oracles (sections 13 and 14 of DESIGN.md), appended to the rules.
_ADDENDA = {
    "C01": "later extensions: regexp stages built from pieces (named groups in optional parts and alternation branches), twin and repeated records, records with equal labels share one attribute map in the mock storage (a write into it is reported), IPv6 addresses with every hexadecimal letter; rounds 7-8: typed comparisons over composite JSON fields; a second stage (TestC01Backend) evaluates the same selector over the same fake containers once by the Docker backend itself and once by the engine (capabilities hidden) and compares the answers; round 9: one JSON document in ten is cut inside the value of its first member; round 10: plain lines that end in a carriage return and needles that end there; byte sizes in unusual spellings (.5, 1,000) are left undecided by the model; round 11: distinct over 1-3 labels",
    "C02": "later extensions: regexes with the user's own anchors around an alternation, the same label named twice; a logfmt / regexp / label_format stage after the selector that, on every third line, writes labels named like the container's own (every line is checked against its container's labels overlaid with its own pairs); metric queries that add a second aggregation over another selection (reads compared as a multiset); the fake daemon honours list filters and All; the daemon window must cover the needed interval to the second and be at most a minute wider; rounds 7-8: Docker label values that are paths, regex-like texts, differ in case or carry surrounding blanks; round 9: the since / until options are read by Docker's own rules (seconds with a fraction scaled by its digits) and compared at nanosecond precision; 'match anything' patterns meet values with line breaks and blanks; round 10: Docker label keys named like record-derived labels (msg, level, trace_id, span_id); round 12: raw-string selector values, carriage returns and quote characters in label values",
    "C03": "later extensions: messages of exactly / one less / one more than 4, 16, 32 and 64 KiB with and without a final line break; half of the streams are sequential logs whose neighbours share a second, in the daemon's fixed-width spelling; a fault that replaces one character of a well-formed timestamp (a sign in a numeric field, a wrong separator, another digit); empty and timestamp-only frames; round 8: every stream is also served by the fake daemon as one container's log (alone or next to 1-3 others) and read by {} through Querier and engine - reported streams make the query fail, others contribute exactly their records; faults often hit the first frame; round 9: a quarter of the cases end their streams with io.ErrUnexpectedEOF instead of io.EOF; round 11: Next is called again after the end, nothing more may come and Err must not change; round 12: records of 1 MiB and more",
    "C04": "later extensions: a third of the cases first run 1-3 SelectLogs calls over container subsets on the same Querier (each merged stream must be its own selection); a quarter give containers several names; rounds 7-8: the same few texts everywhere; in one case of eight one container's log cannot be decoded from its first byte and the merge must not end without an error; round 9: a fifth of the cases query from a start inside the data while the fake daemon honours since / until like the real one - every record from the start on must be there; round 10: 16 KiB records (chunks of a long line), often last in a log; round 11: containers that stamp their lines in another time zone",
    "C05": "later extensions: operands that are bare operations binding strictly tighter than their parent (drawn deliberately one level up), templates over the whole function table, CR in raw strings, k with leading zeros; round 12: names that are function words in another letter case",
    "C06": "later extensions: a line of another shape under a pattern stage must stay unchanged; nested keys that are empty or look like indexes, JSON paths with a selector of the wrong type; round 9: non-ASCII delimiters in lines and pattern literals; round 10: the mock storage hands out copies of the lines in memory of their own (writes through an alias show); round 11: JSON numbers are compared exactly, not through float64; round 12: a pair of lines whose fields differ only in where a quote sits",
    "C07": "later extensions: alignLeft/alignRight, replace, trimPrefix/trimSuffix, b64enc, contains, regexReplaceAll(Literal), count, unixEpochMillis in the template grammar; record-dependently failing templates; a quarter of the cases put a json parser stage in front (labels from JSON numbers and booleans); C1 CSI colour sequences; round 8: templates that fail inside the template engine itself (field of a string, wrong argument type or count, index into a string); round 11: an error label dropped again between a failing parser and a failing template; round 12: two line_format stages in a row",
    "C08": "later extensions: twin records (an empty value against a missing label), repeated records (same timestamp, line and labels), packed lines; round 8: a second stage (TestC08Docker) over 1-8 fake containers merged by the Docker backend - the timestamps returned under a limit L are the L smallest; round 9: the Docker stage sometimes holds more than 100 matching records; round 11: the Docker stage filters behind rewriting stages; round 12: drop / keep value matchers over JSON numbers and booleans (shared with C01)",
    "C09": "later extensions: ranges reaching before 1970, infinite samples, quantile parameters above 1; round 8: steps that are not binary fractions of a second; round 9: a second stage (TestC09Docker) cuts the windows out of the merged logs of 1-6 fake containers and compares with a brute-force count; round 11: the Docker stage's daemon cuts at since like the real one; round 12: the Docker stage moves grids and lines off the millisecond",
    "C10": "later extensions: planted label-set pairs (swapped values, an empty value against a missing label), up to three grouping levels incl. clauses that keep no label; round 7: identical-records mode (n records with one line give one series counting n); round 9: names that differ only in letter case; round 10: near-values mode (integers beyond 2^53, blanks, case, leading zeros, composed and decomposed accents: one series per value); round 12: by over by on overlapping windows",
    "C11": "later extensions: chains of 2-4 grouping levels that all name one label in every by/without order; validity predicates allow the model's error bound",
    "C12": "later extensions: scalars that are exactly the value of some series, sides that are vector(c) or filled with 'or vector(c)', operands that are parenthesised divisions/modulos by a literal (NaN meets the outer operator); every point is compared within the model's propagated error bound, points the bound cannot decide are compared for presence only; round 9: a third of the cases use the ambiguous label pool with permuted pairs; round 10: a second stage (TestC12Docker) compares a binary operation between two selections over the Docker backend with the pointwise combination of its sides evaluated alone; round 11: sides made NaN (/ 0, % 0) under and / or / unless, also in the Docker stage",
    "C13": "later extensions: bare scalar literal operands where the engine supports the expression, and ((x op a) op b) op c with explicit parentheses; round 8: series mode - vector operands computed from records with two series, the second missing from some operands; the conventional reading is evaluated series by series; round 9: half of the cases evaluate over a grid of instants, all of which must give the same value; round 10: sparse series mode - operands that change from instant to instant",
    "C14": "later extensions: metric shapes evaluated over a grid or at one instant; malformed JSON paths from a pool; constructs the engine does not implement (absent_over_time, label_replace) may fail or succeed; round 8: injected errors are of a drawn class (plain, not-found / conflict / unavailable / forbidden, context cancelled / deadline, unexpected EOF for open and list, closed pipe); round 11: a limited log query must report a fault in front of the first record of a selected container",
    "C15": "later extensions: any foreground colour code counts as a palette colour; round 8: container names are any text (percent signs, printf verbs, quotes, tabs); round 9: messages as long as a writer's buffer; round 11: 255-300 distinct container names",
    "C16": "later extensions: an explicit zero --since; ranges that are a multiple of 250s give or take a fraction of a second; when --start is written as fractional seconds every millisecond of its second is tried; the end-to-end window may be a few seconds wider; round 7: malformed values, often a flag without a value, also go through the cobra command, which has to fail; round 10: the end-to-end stage compares since with the resolved start at nanosecond precision",
    "C17": "later extensions: queries written for their data and evaluated on grids with a step far above or below the range; templates over the whole function table; regexps with optional named groups; ip() filters over address-like garbage; huge k; rounds 7-8: template functions with patterns of their own given broken ones over several records; keys of the lengths at which fixed-size buffers end; round 9: origin 'known-mistake' with a must-fail oracle; round 10: quantile parameters at and beyond the ends of [0, 1]; round 11: extraction expressions that are nearly nothing",
    "C18": "later extensions: generated nestings of integer-valued aggregations over the same labels, NaN inputs of aggregations, limits cutting through cross-container ties; a wave of opens that does not fill up switches the completion-order gating off (class completion-order-not-owned) instead of failing; rounds 7-8: rare but legal Docker label keys; a race-detector stage (TestC18OpenFaults) in which 0..n of the concurrent opens fail; round 11: a scale stage (TestC18Scale) with thousands of distinct values through distinct; round 12: label_format renames that depend on each other",
    "C19": "later extensions: typed comparisons (number, duration, bytes, ip) as f, g, a, b, often over values that do not convert (negation partition only for filters that have a negation); (?i) literals paired with lines of special case folding; composite JSON labels; rounds 7-8: a and b as the bounds of one label over values on the bounds; a fifth of the cases over the Docker backend with filters on msg and extracted fields; round 11: bursts of equal records at one instant; round 12: and over a parenthesised or-group",
    "C20": "later extensions: the letter range ends a, z, A, Z in the exhaustive alphabet and their ASCII neighbours in the random pool; keys spelled like container attributes; the fake daemon honours list filters; '| json' after the stage has seen hundreds of other keys; rounds 7-8: varied label values (paths, blanks, regex-like); keys of buffer-boundary lengths; round 11: the selector followed by a label-rewriting stage and a filter on the new name; round 12: quote characters at the ends of label values",
}
for _k, _v in _ADDENDA.items():
    PROPS[_k]["rule"] = PROPS[_k]["rule"] + "; " + _v
