"""Per-property configuration of the driver: which test decides it, case counts per tier,
the non-triviality rule and the assumptions recorded in the evidence."""


def rapid(test, checks, shards=1, timeout=900, **kw):
    d = {"test": test, "checks": checks, "shards": shards, "timeout": timeout}
    d.update(kw)
    return d


def fuzz(target, seconds, **kw):
    d = {"fuzz": target, "seconds": seconds}
    d.update(kw)
    return d


PROPS = {
    "C20": {
        "rule": "cases: every string of length 1..5 over {a,Z,0,9,_,.,-,/,space,é,世,0xFF,0xC3} (exhaustive) plus "
                "rapid-generated keys up to 64 symbols, selector queries through the fake daemon and '| json' "
                "extractions; non-trivial = the key contains at least one offending character or starts with a digit; "
                "distinct = enumerated strings are distinct by construction, generated cases are de-duplicated by hash",
        "assumptions": [
            "the empty key is outside the domain (its image \"\" cannot be a label name)",
            "keys whose image is a LogQL keyword or shadows a built-in container label are not used for the selector part",
            "two keys of one container with the same image are not generated (which one wins is unspecified)",
        ],
        "quick": [rapid("TestC20", 3000)],
        "thorough": [rapid("TestC20", 20000, shards=8, env={"VERIF_C20_MAXLEN": "6"}, timeout=1800),
                     fuzz("FuzzC20", 60)],
    },
}
