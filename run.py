#!/usr/bin/env python3
"""Driver for the property checks of /verif (see DESIGN.md §2.3).

usage:
  run.py setup                      build everything once (warms the Go build cache)
  run.py <ID> quick|thorough        decide property <ID> on /repo's current working tree
  run.py replay <ID> <case.json>    re-run one saved case without the generator

exit status: 0 property held on everything explored (known findings are reported with
KNOWN-FINDING lines), 1 violation (a line "VIOLATION property=<id> replay=<path>" is
printed), 2 inconclusive (build failure, time budget, worker death) - never a violation.
"""
import fcntl
import json
import os
import re
import shutil
import subprocess
import sys
import tempfile
import time

VERIF = os.path.dirname(os.path.abspath(__file__))
# The checks rebuild from /repo's working tree. VERIF_REPO (used only by background exploration
# runs started with "vp run --with-repo", never by the registered commands) points the build at a
# snapshot of the repository instead, so that such a run is not disturbed by edits to /repo.
REPO = os.environ.get("VERIF_REPO") or os.environ.get("VP_RUN_REPO") or "/repo"
HARNESS = os.path.join(VERIF, "harness")
BUILD = os.path.join(VERIF, "build")
EVIDENCE = os.path.join(VERIF, "evidence")
REPLAYS = os.path.join(VERIF, "replays")
KNOWN = os.path.join(VERIF, "known_findings.json")
REGRESS = os.path.join(VERIF, "regress")  # <TestName>/*.json: saved cases checked before generation
DEFAULT_SEED = 20260927
NCPU = os.cpu_count() or 4

GOENV = {
    "GOFLAGS": "-mod=mod",
    "GOPROXY": "off",
    "GOSUMDB": "off",
    "GOTOOLCHAIN": "local",
    "CGO_ENABLED": os.environ.get("CGO_ENABLED", "1"),
}

sys.path.insert(0, VERIF)
from props_table import PROPS  # noqa: E402


def log(*a):
    print(*a, file=sys.stderr, flush=True)


def goenv(extra=None):
    env = dict(os.environ)
    env.update(GOENV)
    if extra:
        env.update(extra)
    return env


class Inconclusive(Exception):
    pass


def build_lock():
    os.makedirs(BUILD, exist_ok=True)
    f = open(os.path.join(BUILD, ".lock"), "w")
    if not os.environ.get("VERIF_NO_BUILD_LOCK"):
        fcntl.flock(f, fcntl.LOCK_EX)
    return f


def build_props(race=False, fuzz=False):
    """Builds the harness test binary against /repo's working tree. Returns its path."""
    os.makedirs(os.path.join(BUILD, "bin"), exist_ok=True)
    out = os.path.join(BUILD, "bin", "props%s%s.%d.test" % ("-race" if race else "", "-fuzz" if fuzz else "", os.getpid()))
    cmd = ["go", "test", "-c", "-vet=off", "-o", out]
    if race:
        cmd.append("-race")
    if fuzz:
        cmd.append("-fuzz=.")  # coverage instrumentation for native fuzzing
    tmpmod = None
    if REPO != "/repo":
        # the harness go.mod replaces the module with /repo: build with a copy that names REPO
        tmpmod = os.path.join(BUILD, "props.%d.mod" % os.getpid())
        with open(os.path.join(HARNESS, "go.mod")) as f:
            modtxt = f.read().replace("=> /repo", "=> " + REPO)
        with open(tmpmod, "w") as f:
            f.write(modtxt)
        shutil.copy(os.path.join(HARNESS, "go.sum"), tmpmod[:-4] + ".sum")
        cmd.insert(3, "-modfile=" + tmpmod)
    cmd.append("./props")
    lock = build_lock()
    try:
        p = subprocess.run(cmd, cwd=HARNESS, env=goenv(), stdout=subprocess.PIPE, stderr=subprocess.STDOUT, text=True, errors="replace")
    finally:
        lock.close()
        if tmpmod:
            for fn in (tmpmod, tmpmod[:-4] + ".sum"):
                try:
                    os.remove(fn)
                except OSError:
                    pass
    if p.returncode != 0:
        raise Inconclusive("build of harness failed:\n" + p.stdout[-4000:])
    return out


def build_cmdmain(race=False, fuzz=False):
    """Builds cmd/docker-logql's package main together with the overlaid harness tests."""
    os.makedirs(os.path.join(BUILD, "bin"), exist_ok=True)
    tag = "%d" % os.getpid()
    out = os.path.join(BUILD, "bin", "cmdmain%s.%s.test" % ("-race" if race else "", tag))
    overlay = {"Replace": {}}
    srcdir = os.path.join(HARNESS, "cmdmain")
    for name in sorted(os.listdir(srcdir)):
        if name.endswith("_test.go"):
            overlay["Replace"][os.path.join(REPO, "cmd", "docker-logql", "zz_verif_" + name)] = os.path.join(srcdir, name)
    ov = os.path.join(BUILD, "overlay.%s.json" % tag)
    with open(ov, "w") as f:
        json.dump(overlay, f)
    # modfile: /repo/go.mod + rapid + the harness module (for shared helper packages).
    mod = os.path.join(BUILD, "cmd.%s.mod" % tag)
    sumf = os.path.join(BUILD, "cmd.%s.sum" % tag)
    with open(os.path.join(REPO, "go.mod")) as f:
        modtxt = f.read()
    modtxt += "\nrequire pgregory.net/rapid v1.3.0\n"
    modtxt += "\nrequire github.com/tdakkota/docker-logql/verifharness v0.0.0\n"
    modtxt += "\nreplace github.com/tdakkota/docker-logql/verifharness => %s\n" % HARNESS
    with open(mod, "w") as f:
        f.write(modtxt)
    with open(os.path.join(REPO, "go.sum")) as f:
        sumtxt = f.read()
    with open(os.path.join(HARNESS, "go.sum")) as f:
        for line in f:
            if line.startswith("pgregory.net/rapid "):
                sumtxt += line
    with open(sumf, "w") as f:
        f.write(sumtxt)
    cmd = ["go", "test", "-c", "-vet=off", "-modfile=" + mod, "-overlay=" + ov, "-o", out]
    if race:
        cmd.append("-race")
    cmd.append("./cmd/docker-logql")
    lock = build_lock()
    try:
        p = subprocess.run(cmd, cwd=REPO, env=goenv(), stdout=subprocess.PIPE, stderr=subprocess.STDOUT, text=True, errors="replace")
    finally:
        lock.close()
        for fn in (ov, mod, sumf):
            try:
                os.remove(fn)
            except OSError:
                pass
    if p.returncode != 0:
        raise Inconclusive("build of cmd/docker-logql with overlay failed:\n" + p.stdout[-4000:])
    return out


BUILDERS = {"props": build_props, "cmdmain": build_cmdmain}


def rapid_seed(seed, shard):
    s = seed if seed != 0 else DEFAULT_SEED
    return (s * 1000 + shard + 1) & 0x7FFFFFFFFFFFFFFF or 1


def start_run(binary, test, checks, seed, shard, workdir, extra_env, timeout_s, extra_args=(), first=False):
    stats = os.path.join(workdir, "stats.%d.json" % shard)
    rundir = os.path.join(workdir, "cwd.%d" % shard)
    os.makedirs(rundir, exist_ok=True)
    current = os.path.join(workdir, "current.%d.json" % shard)
    env = goenv({
        "VERIF_CURRENT": current,
        "VERIF_STATS": stats,
        "VERIF_REPLAYS": REPLAYS,
        "VERIF_KNOWN": KNOWN,
    })
    if first and not os.environ.get("VERIF_NO_REGRESS"):
        env["VERIF_REGRESS"] = REGRESS  # one shard replays the saved regression cases
    env.update(extra_env or {})
    cmd = [binary, "-test.run", "^%s$" % test, "-test.timeout", "%ds" % timeout_s,
           "-rapid.checks", str(checks), "-rapid.seed", str(rapid_seed(seed, shard)),
           "-rapid.nofailfile", "-test.count", "1"] + list(extra_args)
    logf = open(os.path.join(workdir, "out.%d.log" % shard), "w")
    p = subprocess.Popen(cmd, cwd=rundir, env=env, stdout=logf, stderr=subprocess.STDOUT)
    return {"proc": p, "stats": stats, "log": logf.name, "logf": logf, "checks": checks, "shard": shard, "cmd": cmd, "current": current}


def finish_run(r, timeout_s):
    try:
        rc = r["proc"].wait(timeout=timeout_s + 30)
    except subprocess.TimeoutExpired:
        r["proc"].kill()
        r["proc"].wait()
        rc = -9
    r["logf"].close()
    with open(r["log"], errors="replace") as f:
        out = f.read()
    st = None
    if os.path.exists(r["stats"]):
        try:
            with open(r["stats"]) as f:
                st = json.load(f)
        except Exception:
            st = None
    return rc, out, st


def merge_stats(stats_list):
    agg = {"evaluations": 0, "cases": 0, "regress": 0, "classes": {}, "hashes": set(), "bulk_nt": 0, "samples": [],
           "violations": [], "known_hits": {}, "known_samples": {}, "extra": {}}
    for st in stats_list:
        agg["evaluations"] += st.get("evaluations", 0)
        agg["cases"] += st.get("cases", 0)
        agg["regress"] += st.get("regress", 0)
        for k, v in (st.get("classes") or {}).items():
            agg["classes"][k] = agg["classes"].get(k, 0) + v
        agg["hashes"].update(st.get("nontrivial_hashes") or [])
        agg["bulk_nt"] = max(agg["bulk_nt"], st.get("bulk_nontrivial", 0))
        for s in st.get("samples") or []:
            if len(agg["samples"]) < 6:
                agg["samples"].append(s)
        agg["violations"].extend(st.get("violations") or [])
        for k, v in (st.get("known_hits") or {}).items():
            agg["known_hits"][k] = agg["known_hits"].get(k, 0) + v
        for k, v in (st.get("known_samples") or {}).items():
            agg["known_samples"].setdefault(k, v)
        for k, v in (st.get("extra") or {}).items():
            if isinstance(v, (int, float)) and not isinstance(v, bool) and k.startswith("sum_"):
                agg["extra"][k] = agg["extra"].get(k, 0) + v
            else:
                agg["extra"].setdefault(k, v)
    return agg


def load_known(prop):
    if not os.path.exists(KNOWN):
        return []
    with open(KNOWN) as f:
        data = json.load(f)
    return [k for k in data.get("findings", []) if k.get("property") == prop and k.get("status") == "known"]


def write_evidence(prop, tier, seed, cfg, agg, wall, nviol, notes, extra_cov=None):
    os.makedirs(EVIDENCE, exist_ok=True)
    cov = {
        "evaluations": int(agg["evaluations"]),
        "distinct_nontrivial": int(len(agg["hashes"]) + agg["bulk_nt"]),
        "rule": cfg["rule"],
        "samples": agg["samples"] or [{"note": "no sample captured"}],
        "cases_generated": int(agg["cases"]) - int(agg.get("regress", 0)),
        "regression_cases_replayed": int(agg.get("regress", 0)),
        "class_histogram": dict(sorted(agg["classes"].items())),
        "known_findings_hit": agg["known_hits"],
        "known_finding_samples": agg["known_samples"],
        "notes": notes,
    }
    cov.update(agg["extra"])
    if extra_cov:
        cov.update(extra_cov)
    ev = {
        "property_id": prop,
        "tier": tier,
        "seed": int(seed),
        "level": "exploration",
        "coverage": cov,
        "assumptions": cfg.get("assumptions", []),
        "wall_s": round(wall, 2),
        "violations": int(nviol),
    }
    path = os.path.join(EVIDENCE, prop + ".json")
    tmp = path + ".tmp.%d" % os.getpid()
    with open(tmp, "w") as f:
        json.dump(ev, f, indent=1, ensure_ascii=False)
        f.write("\n")
    os.replace(tmp, path)
    return path


def run_fuzz(binary, target, seconds, workdir, prop, extra_env):
    """Runs a bounded native fuzz campaign; returns (execs, crasher paths, inconclusive_reason)."""
    cache = os.path.join(workdir, "fuzzcache")
    rundir = os.path.join(HARNESS, "props")  # seed corpus lives in testdata/fuzz/<target>
    env = goenv({"VERIF_KNOWN": KNOWN, "VERIF_REPLAYS": REPLAYS})
    env.update(extra_env or {})
    before = set()
    crashdir = os.path.join(rundir, "testdata", "fuzz", target)
    if os.path.isdir(crashdir):
        before = set(os.listdir(crashdir))
    cmd = [binary, "-test.run", "^$", "-test.fuzz", "^%s$" % target, "-test.fuzztime", "%ds" % seconds,
           "-test.fuzzcachedir", cache, "-test.timeout", "%ds" % (seconds + 300), "-test.parallel", str(NCPU)]
    p = subprocess.run(cmd, cwd=rundir, env=env, stdout=subprocess.PIPE, stderr=subprocess.STDOUT, text=True, errors="replace")
    execs = 0
    for m in re.finditer(r"execs: (\d+)", p.stdout):
        execs = max(execs, int(m.group(1)))
    crashers = []
    for m in re.finditer(r"VERIF-REPLAY (\S+)", p.stdout):
        if m.group(1) not in crashers:
            crashers.append(m.group(1))
    if os.path.isdir(crashdir) and crashers:
        # the fuzzer's own copy of the input is redundant with the JSON replay file
        for name in sorted(set(os.listdir(crashdir)) - before):
            os.remove(os.path.join(crashdir, name))
    elif os.path.isdir(crashdir):
        new = sorted(set(os.listdir(crashdir)) - before)
        confirmed = True
        if new:
            # The fuzzer saved an input although the oracle did not speak: either the code under
            # test crashed on it, or a worker died / stalled (the fuzzer gives an input ten seconds,
            # which a loaded machine can exceed). Run the saved inputs once more, outside the
            # fuzzing engine: only a failure that repeats is a finding.
            again = subprocess.run([binary, "-test.run", "^%s$" % target, "-test.timeout", "600s"], cwd=rundir, env=env,
                                   stdout=subprocess.PIPE, stderr=subprocess.STDOUT, text=True, errors="replace")
            confirmed = again.returncode != 0
        for name in new:
            src = os.path.join(crashdir, name)
            dstdir = os.path.join(REPLAYS, prop)
            os.makedirs(dstdir, exist_ok=True)
            dst = os.path.join(dstdir, "fuzz-%s-%s" % (target, name))
            shutil.move(src, dst)
            if confirmed:
                crashers.append(dst)
        if new and not confirmed:
            # the campaign itself is valid up to that point; the stall is noted, not reported
            log("fuzz %s: a worker failed on an input that passes when run again (%s) - ignored" % (target, ", ".join(new)))
            return execs, [], None, p.stdout
    reason = None
    if p.returncode != 0 and not crashers:
        reason = "fuzz run exited %d without a crasher:\n%s" % (p.returncode, p.stdout[-2000:])
    return execs, crashers, reason, p.stdout


def check(prop, tier):
    cfg = PROPS[prop]
    seed = int(os.environ.get("VERIF_SEED", "0") or 0)
    t0 = time.time()
    os.makedirs(os.path.join(BUILD, "run"), exist_ok=True)
    workdir = tempfile.mkdtemp(prefix="%s-%s-" % (prop, tier), dir=os.path.join(BUILD, "run"))
    binaries = []
    notes = []
    try:
        runs = []
        stages = cfg[tier]
        # Build all binaries needed.
        bins = {}
        for st in stages:
            key = (st.get("binary", "props"), bool(st.get("race")), bool(st.get("fuzz")))
            if key not in bins:
                bins[key] = BUILDERS[key[0]](race=key[1], fuzz=key[2])
                binaries.append(bins[key])
        stats_all = []
        violations = []
        inconclusive = []
        fuzz_execs = 0
        for st in stages:
            binary = bins[(st.get("binary", "props"), bool(st.get("race")), bool(st.get("fuzz")))]
            if st.get("fuzz"):
                execs, crashers, reason, out = run_fuzz(binary, st["fuzz"], st["seconds"], workdir, prop, st.get("env"))
                fuzz_execs += execs
                notes.append("native fuzz %s: %d execs in %ds" % (st["fuzz"], execs, st["seconds"]))
                for c in crashers:
                    violations.append({"sig": prop + "/fuzz-crasher", "msg": "native fuzz target %s failed" % st["fuzz"], "replay": c})
                if reason:
                    inconclusive.append(reason)
                continue
            shards = st.get("shards", 1)
            timeout_s = st.get("timeout", 900)
            procs = []
            for sh in range(shards):
                procs.append(start_run(binary, st["test"], st["checks"], seed, sh + st.get("shard_base", 0), workdir,
                                       st.get("env"), timeout_s, st.get("args", ()), first=(sh == 0 and not st.get("race"))))
            for r in procs:
                rc, out, stt = finish_run(r, timeout_s)
                if stt is not None:
                    stats_all.append(stt)
                    for v in stt.get("violations") or []:
                        violations.append(v)
                if st.get("race") and "WARNING: DATA RACE" in out:
                    racefile = os.path.join(REPLAYS, prop)
                    os.makedirs(racefile, exist_ok=True)
                    racefile = os.path.join(racefile, "race-%d.log" % int(time.time()))
                    with open(racefile, "w") as f:
                        f.write(out[-20000:])
                    violations.append({"sig": prop + "/data-race", "msg": "race detector report", "replay": racefile})
                crashed = rc != 0 and not (stt and stt.get("violations")) and "panic: test timed out" not in out and (
                    "fatal error:" in out or "\npanic:" in out or "unexpected signal" in out or "SIGSEGV" in out)
                if crashed and os.path.exists(r["current"]):
                    # The test process was killed while evaluating a case (e.g. a fatal runtime
                    # error such as out of memory that recover() cannot catch).
                    dstdir = os.path.join(REPLAYS, prop)
                    os.makedirs(dstdir, exist_ok=True)
                    dst = os.path.join(dstdir, "crash-%d-%d.json" % (int(time.time()), r["shard"]))
                    shutil.copy(r["current"], dst)
                    first = [l for l in out.splitlines() if l.startswith(("fatal error:", "panic:"))][:1]
                    violations.append({"sig": prop + "/process-crash", "msg": "the test process died while evaluating the case: %s" % (first[0] if first else "abnormal exit %d" % rc), "replay": dst})
                elif rc != 0 and not (stt and stt.get("violations")) and not (st.get("race") and "WARNING: DATA RACE" in out):
                    if "panic: test timed out" in out or rc == -9:
                        inconclusive.append("%s shard %d: time budget hit" % (st["test"], r["shard"]))
                    else:
                        inconclusive.append("%s shard %d exited %d without a recorded violation:\n%s" % (st["test"], r["shard"], rc, out[-3000:]))
                elif rc == 0:
                    m = re.search(r"OK, passed (\d+) tests", out)
                    if m and int(m.group(1)) < st["checks"] and not st.get("allow_short"):
                        inconclusive.append("%s shard %d: rapid ran %s of %d cases" % (st["test"], r["shard"], m.group(1), st["checks"]))
        agg = merge_stats(stats_all)
        agg["evaluations"] += fuzz_execs
        known = load_known(prop)
        wall = time.time() - t0
        extra_cov = {"tier_stages": [{k: v for k, v in st.items() if k != "env"} for st in stages]}
        if inconclusive:
            extra_cov["inconclusive"] = [x[:500] for x in inconclusive]
        write_evidence(prop, tier, seed, cfg, agg, wall, len(violations), notes, extra_cov)
        for k in known:
            hits = agg["known_hits"].get(k["signature"], 0)
            if hits:
                print("KNOWN-FINDING: property=%s %s (signature %s, reproduced %d times in this run)" % (prop, k["what"], k["signature"], hits))
            else:
                notes.append("known finding %s not reproduced in this run" % k["signature"])
        if violations:
            seen = set()
            for v in violations:
                if v["replay"] in seen:
                    continue
                seen.add(v["replay"])
                log("violation [%s]: %s" % (v["sig"], v["msg"][:2000]))
                print("VIOLATION property=%s replay=%s" % (prop, v["replay"]))
            return 1
        if inconclusive:
            for x in inconclusive:
                log("INCONCLUSIVE: " + x)
            return 2
        log("%s %s: held on %d evaluations (%d distinct non-trivial) in %.1fs" % (
            prop, tier, agg["evaluations"], len(agg["hashes"]) + agg["bulk_nt"], wall))
        return 0
    finally:
        for b in binaries:
            try:
                os.remove(b)
            except OSError:
                pass
        shutil.rmtree(workdir, ignore_errors=True)


def replay(prop, path):
    cfg = PROPS[prop]
    st = cfg["quick"][0]
    binary = BUILDERS[st.get("binary", "props")]()
    try:
        env = goenv({"VERIF_REPLAY": os.path.abspath(path), "VERIF_KNOWN": KNOWN, "VERIF_REPLAYS": REPLAYS})
        env.update(st.get("env") or {})
        rundir = tempfile.mkdtemp(prefix="replay-", dir=os.path.join(BUILD, "run"))
        test = cfg.get("replay_test", st["test"])
        try:
            with open(path) as f:
                test = json.load(f).get("_test") or test
        except Exception:
            pass
        for stage in cfg["quick"] + cfg["thorough"]:
            if stage.get("test") == test and stage.get("binary", "props") != st.get("binary", "props"):
                os.remove(binary)
                binary = BUILDERS[stage.get("binary", "props")]()
                break
        p = subprocess.run([binary, "-test.run", "^%s$" % test, "-test.v", "-test.timeout", "300s"], cwd=rundir, env=env,
                           stdout=subprocess.PIPE, stderr=subprocess.STDOUT, text=True, errors="replace")
        shutil.rmtree(rundir, ignore_errors=True)
        sys.stderr.write(p.stdout[-6000:])
        if p.returncode != 0:
            print("VIOLATION property=%s replay=%s" % (prop, path))
            return 1
        return 0
    finally:
        try:
            os.remove(binary)
        except OSError:
            pass


def setup():
    os.makedirs(os.path.join(BUILD, "run"), exist_ok=True)
    for name, b in BUILDERS.items():
        if name == "cmdmain" and not os.path.isdir(os.path.join(HARNESS, "cmdmain")):
            continue
        if name == "cmdmain" and not any(n.endswith("_test.go") for n in os.listdir(os.path.join(HARNESS, "cmdmain"))):
            continue
        out = b()
        os.remove(out)
        log("built", name)
    return 0


def main(argv):
    if len(argv) >= 2 and argv[1] == "setup":
        return setup()
    if len(argv) == 4 and argv[1] == "replay":
        return replay(argv[2], argv[3])
    if len(argv) == 3 and argv[1] in PROPS and argv[2] in ("quick", "thorough"):
        try:
            return check(argv[1], argv[2])
        except Inconclusive as e:
            log("INCONCLUSIVE: %s" % e)
            return 2
    log(__doc__)
    return 2


if __name__ == "__main__":
    sys.exit(main(sys.argv))
