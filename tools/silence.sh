#!/bin/bash
# silence.sh <tier> <parallel> <seed>... : runs every check at the given seeds, prints anything that is not a clean pass
tier=$1; par=$2; shift 2
for seed in "$@"; do for p in C01 C02 C03 C04 C05 C06 C07 C08 C09 C10 C11 C12 C13 C14 C15 C16 C17 C18 C19 C20; do echo "$seed $p"; done; done | \
 xargs -P $par -L 1 bash -c 'out=$(VERIF_SEED=$0 python3 /verif/run.py $1 '$tier' 2>&1); rc=$?; if [ $rc -ne 0 ] || echo "$out" | grep -q VIOLATION; then echo "== seed $0 $1 rc=$rc"; echo "$out" | tail -4 | cut -c1-1500; fi'
echo "silence run done ($tier seeds $*)"
