#!/usr/bin/env python3
"""mutreport.py: writes mutants/README.md from sweep.jsonl, recheck.jsonl, recheck2.jsonl and the triage below."""
import json, os, collections
ROOT = os.path.dirname(os.path.dirname(os.path.abspath(__file__)))
M = os.path.join(ROOT, "mutants")
EQ = "equivalent for every listed property"
TRIAGE = {
    # (file suffix, line): reason
    ("dockerlog/merge_iter.go", 17): EQ + ": only the order between containers at equal timestamps changes, which no property fixes",
    ("dockerlog/merge_iter.go", 79): EQ + ": the error is still reported by Err() after the remaining records",
    ("dockerlog/dockerlog.go", 202): "dead code: the default branch of match() is not reachable, the parser only builds the four operators",
    ("lexerql/duration.go", 19): "dead code: ScanDuration has no caller",
    ("logql/lexer/lexer.go", 83): EQ + ": the error was already set by setError, tokenising goes on but Tokenize fails",
    ("logql/lexer/lexer.go", 101): EQ + ": the error was already set by setError",
    ("cmd/docker-logql/params.go", 156): EQ + " on this platform: NaN and Inf convert to a non-positive duration and are rejected by the next test",
    ("cmd/docker-logql/query.go", 102): "outside the properties: default value of a flag (C15 quantifies over all eight combinations, not over the default)",
    ("cmd/docker-logql/query.go", 103): "outside the properties: default value of a flag",
    ("cmd/docker-logql/query.go", 104): "outside the properties: NO_COLOR / TERM / tty detection decides whether colour is on, C15 starts from the decision",
    ("cmd/docker-logql/query.go", 105): "outside the properties: NO_COLOR / TERM / tty detection",
    ("cmd/docker-logql/query.go", 106): "outside the properties: NO_COLOR / TERM / tty detection",
    ("logqlengine/drop.go", 18): EQ + ": an empty list builds an empty set",
    ("logqlengine/drop.go", 24): EQ, ("logqlengine/keep.go", 18): EQ, ("logqlengine/keep.go", 24): EQ,
    ("logqlengine/engine.go", 48): EQ + ": option default", ("logqlengine/engine.go", 96): EQ + ": tracing only",
    ("logqlengine/json.go", 43): EQ,
    ("logqlengine/label_set.go", 66): EQ + ": the stream key loses its commas but values stay quoted, keys stay distinct",
    ("logqlengine/label_set.go", 72): EQ, ("logqlengine/label_set.go", 160): EQ + ": callers test the error first",
    ("logqlengine/jsonexpr/jsonexpr.go", 28): EQ + ": enum value",
    ("logqlengine/line_filter.go", 78): EQ + ": no IPv4 address is shorter than seven bytes",
    ("logqlengine/line_filter.go", 107): EQ, ("logqlengine/line_filter.go", 110): EQ,
    ("logqlengine/line_filter.go", 99): "not reached: the bare unspecified address \"::\" as a whole candidate; left as is",
    ("logqlengine/line_filter.go", 132): "one of four range ends still survives: an upper-case A inside an address that is also the filter's target",
    ("logqlmetric/bin_op.go", 15): "outside the properties: on/ignoring/group modifiers are rejected today; accepting them is not covered by C12",
    ("logqlmetric/bin_op.go", 74): EQ + ": the sample operation never reports !ok for the generated operators",
    ("logqlmetric/bin_op.go", 131): EQ + ": fast path", ("logqlmetric/bin_op.go", 165): EQ + ": fast path",
    ("logqlmetric/metric.go", 23): EQ + ": ties", ("logqlmetric/metric.go", 28): EQ + ": ties",
    ("logqlmetric/prom_math.go", 19): "not reachable: a NaN parameter cannot be written, an empty window yields no sample",
    ("logqlmetric/stream_aggregator.go", 108): EQ, ("logqlmetric/stream_aggregator.go", 163): EQ, ("logqlmetric/stream_aggregator.go", 188): EQ,
    ("logqlmetric/vector_agg.go", 174): "not reachable: the parser rejects k <= 0",
    ("logqlengine/precondition.go", 45): EQ + ": fewer conditions are offloaded, the engine evaluates all of them anyway",
    ("logqlengine/precondition.go", 48): EQ,
    ("logql/op.go", 10): EQ + ": enum value", ("logql/op.go", 34): EQ, ("logql/op.go", 131): EQ, ("logql/op.go", 190): EQ,
    ("logql/op.go", 111): "dead code: IsRegex has no caller", ("logql/op.go", 113): "dead code: IsRegex has no caller",
    ("logql/parser.go", 92): EQ, ("logql/parser.go", 98): EQ,
    ("logql/parser_expr.go", 65): EQ + ": the next token fails the parse anyway",
    ("logql/parser_log_expr.go", 17): EQ + ": a leftover unwrap token fails the parse anyway",
    ("logql/parser_metric_expr.go", 160): EQ,
    ("logql/parser_range_expr.go", 44): EQ + ": a broken unwrap clause leaves tokens that fail the parse anyway",
    ("logql/parser_range_expr.go", 56): EQ, ("logql/parser_range_expr.go", 63): EQ,
    ("otelstorage/attrs.go", 27): EQ + ": letters take the slow path, which maps them the same way",
    ("otelstorage/attrs.go", 57): "dead code: IsZero has no caller",
    ("logqlengine/template.go", 85): "not modelled: toDateInZone (time zones) is outside the template functions C07 expands; C17 only requires no panic",
    ("logqlengine/logqlpattern/logqlpattern.go", 164): "not decided: error paths of malformed patterns", ("logqlengine/logqlpattern/logqlpattern.go", 185): "not decided: error paths of malformed patterns",
    ("logqlengine/logqlpattern/match.go", 13): "not decided: what a pattern extracts from a line of another shape is not modelled (the line itself must stay)",
    ("logqlengine/jsonexpr/jsonexpr.go", 82): "error path of a malformed JSON path: another branch rejects it as well", ("logqlengine/jsonexpr/jsonexpr.go", 91): "error path of a malformed JSON path",
    ("logqlengine/jsonexpr/jsonexpr.go", 156): EQ,
}
EXTRA = {
    ("cmd/docker-logql/color.go", 25): "outside the properties: the bold variants of the palette are not used for container names",
    ("cmd/docker-logql/params.go", 112): EQ + ": strconv treats an unknown bit size as 64",
    ("cmd/docker-logql/params.go", 154): EQ + ": strconv treats an unknown bit size as 64",
    ("cmd/docker-logql/params.go", 122): "not reachable in the quantified domain: an 11-digit count of seconds is the year 5138",
    ("cmd/docker-logql/query.go", 90): "outside the properties: the --limit flag (C16 covers --start --end --since --step)",
    ("cmd/docker-logql/query.go", 102): "outside the properties: registration / default of a flag",
    ("cmd/docker-logql/query.go", 103): "outside the properties: registration / default of a flag",
    ("cmd/docker-logql/query.go", 165): "outside the properties: the colour of the timestamp column (C15 speaks of the container name)",
    ("cmd/docker-logql/query.go", 169): "outside the properties: the colour of the timestamp column",
    ("lexerql/duration.go", 15): "dead code: ScanDuration has no caller", ("lexerql/duration.go", 22): "dead code: ScanDuration has no caller", ("lexerql/duration.go", 23): "dead code: ScanDuration has no caller",
    ("logqlengine/aggregated_labels.go", 93): EQ + ": a longer scratch buffer",
    ("logqlengine/engine.go", 49): "outside the properties: the look-back of an instant log query",
    ("logqlengine/engine.go", 97): EQ + ": tracing only", ("logqlengine/engine.go", 108): EQ + ": tracing only",
    ("logqlengine/eval_streams.go", 80): "outside the properties: the look-back of an instant log query",
    ("logqlengine/jsonexpr/eval.go", 19): EQ + ": capacity hint", ("logqlengine/jsonexpr/jsonexpr.go", 154): EQ,
    ("logqlengine/label_set.go", 67): EQ + ": the stream key loses a separator, quoted values keep keys distinct",
    ("logqlengine/label_set.go", 70): EQ + ": the stream key loses a separator, quoted values keep keys distinct",
    ("logqlengine/label_set.go", 83): "outside this product: trace / span / severity fields are never set by dockerlog",
    ("logqlengine/label_set.go", 86): "outside this product: trace / span / severity fields are never set by dockerlog",
    ("logqlengine/label_set.go", 89): "outside this product: trace / span / severity fields are never set by dockerlog",
    ("logqlengine/label_set.go", 105): EQ + " in this product: dockerlog sanitises Docker label keys before they become attributes",
    ("logqlengine/label_set.go", 152): EQ + ": strconv treats an unknown bit size as 64",
    ("logqlengine/line_filter.go", 78): EQ, ("logqlengine/line_filter.go", 99): "the bare unspecified address \"::\" as a whole candidate; left as is",
    ("logqlmetric/bin_op.go", 243): EQ + ": no sample is ever filtered out by the generated operators",
    ("logqlmetric/range_agg.go", 47): EQ + ": instant queries do not use the step",
    ("logqlengine/sampler.go", 62): EQ + ": the range aggregation applies the same grouping again",
    ("logqlengine/sampler.go", 65): EQ + ": the range aggregation applies the same grouping again",
    ("logqlengine/sampler.go", 33): EQ + ": error path of a constructor that does not fail for built queries",
    ("logqlengine/template.go", 86): "not modelled: toDateInZone",
    ("logqlengine/template.go", 99): "caught since C07 models every unixToTime digit length (5, 10, 13, 16, 19)", ("logqlengine/template.go", 100): "caught since C07 models every unixToTime digit length",
    ("logqlengine/template.go", 103): "caught since C07 models every unixToTime digit length", ("logqlengine/template.go", 105): "caught since C07 models every unixToTime digit length", ("logqlengine/template.go", 107): "caught since C07 models every unixToTime digit length",
    ("logql/metric_expr.go", 15): EQ + ": marker method", ("logql/pipeline.go", 10): EQ + ": marker method", ("logql/pipeline.go", 90): EQ + ": marker method",
    ("logql/op.go", 34): EQ, ("logql/op.go", 59): EQ + ": ^ stays the tightest level",
    ("logql/parser.go", 127): EQ + ": strconv treats an unknown bit size as 64",
    ("logql/parser_metric_expr.go", 324): EQ + ": the sign is initialised to 1",
    ("otelstorage/attrs.go", 62): "dead code: CopyTo has no caller",
}
for ln in range(60, 240):
    EXTRA.setdefault(("logqlmetric/stream_aggregator.go", ln), EQ + ": Reset is never observed, an aggregator is built per group and step")
for ln in (123, 125, 146, 149, 166, 167):
    EXTRA[("logqlengine/aggregated_labels.go", ln)] = "dead code: label_replace is never evaluated"
for ln in range(112, 171):
    TRIAGE.setdefault(("logqlengine/aggregated_labels.go", ln), "dead code: label_replace is parsed but the builder rejects it, Replace is never called")
for ln in (126, 132, 137, 143, 153, 172, 190, 193):
    TRIAGE[("logqlengine/json.go", ln)] = EQ + ": callers test the error first"

def load(name):
    p = os.path.join(M, name)
    return [json.loads(l) for l in open(p)] if os.path.exists(p) else []

sweep = load("sweep.jsonl")
extra = load("sweep-extra.jsonl")
re1 = {r["id"]: r for r in load("recheck.jsonl")}
re2 = {r["id"]: r for r in load("recheck2.jsonl")}
c = collections.Counter(r["status"] for r in sweep)
caught1 = c["caught"]
caught2 = sum(1 for r in re1.values() if r["status2"] == "caught")
caught3 = sum(1 for r in re2.values() if r["status2"] == "caught")
left = [r for r in sweep if r["status"] in ("survived", "inconclusive") and not (re1.get(r["id"], {}).get("status2") == "caught" or re2.get(r["id"], {}).get("status2") == "caught")]
out = ["# Mutation sweep", "",
       "`tools/mutsweep.py` applies single-token edits (relational and logical operators, boolean constants, +1/-1, a dropped",
       "negation, continue/break, slice bounds) to every file a property is anchored in, in scratch worktrees of `/repo`. A mutant",
       "that builds and passes the repository's own suite is given to the quick checks of the properties anchored in its file",
       "(`sweep.jsonl`), the survivors to the checks of the neighbouring properties (`recheck.jsonl`) and, after the harness was",
       "strengthened, once more to all of them (`recheck2.jsonl`).", "",
       f"* mutants generated: {len(sweep)} ({c['no-build']} do not build, {c['killed-by-suite']} are killed by the repository's own tests)",
       f"* mutants that pass the repository's suite: {len(sweep) - c['no-build'] - c['killed-by-suite']}",
       f"* caught by the checks anchored in the file: {caught1}; by a neighbouring check: {caught2}; after strengthening: {caught3}",
       f"* left: {len(left)} (triaged below; {sum(1 for r in left if r['status']=='inconclusive')} of them make the evaluation loop forever and end as 'inconclusive' by time-out)", "",
       "What the survivors taught (section 13 of DESIGN.md): the fake daemon now honours `All`, a reader / iterator used after",
       "Close fails, IPv6 addresses with every hexadecimal letter in both cases, the ends of the letter ranges in C20's alphabet,",
       "`vector()` against aggregated empty label sets (C12 is the check that sees `aggregated_labels.go`), regexReplaceAllLiteral and",
       "count in C07's template grammar, malformed JSON paths in C14, lines of another shape under a pattern stage in C06.", "",
       "| Mutant | Edit | Why it is left |", "|---|---|---|"]
unk = 0
for r in sorted(left, key=lambda r: (r["file"], r["line"])):
    why = None
    for (suf, ln), reason in TRIAGE.items():
        if r["file"].endswith(suf) and r["line"] == ln:
            why = reason
    if r["status"] == "inconclusive":
        why = "the mutant loops forever: the check ends by time-out (exit 2, inconclusive), never as a violation"
    if why is None:
        why = "NOT TRIAGED"; unk += 1
    out.append(f"| `{r['file']}:{r['line']}` | {r['op']}: `{r['old'][:70].replace('|', chr(92)+'|')}` | {why} |")
ce = collections.Counter(r["status"] for r in extra)
out += ["", "## Second family: deleted statements and integer constants", "",
        f"* mutants generated: {len(extra)} ({ce['no-build']} do not build, {ce['killed-by-suite']} are killed by the repository's own tests)",
        f"* caught by the quick checks of the anchored properties: {ce['caught']}; left: {ce['survived'] + ce['inconclusive']}", "",
        "| Mutant | Edit | Why it is left |", "|---|---|---|"]
for r in sorted(extra, key=lambda r: (r["file"], r["line"])):
    if r["status"] not in ("survived", "inconclusive"):
        continue
    why = None
    for (suf, ln), reason in EXTRA.items():
        if r["file"].endswith(suf) and r["line"] == ln:
            why = reason
    if r["status"] == "inconclusive":
        why = "the mutant loops forever or exhausts the time budget: inconclusive by time-out, never a violation"
    if why is None:
        why = "NOT TRIAGED"; unk += 1
    out.append(f"| `{r['file']}:{r['line']}` | {r['op']}: `{r['old'][:70].replace('|', chr(92)+'|')}` | {why} |")
open(os.path.join(M, "README.md"), "w").write("\n".join(out) + "\n")
print(len(left), "left,", unk, "not triaged")
