#!/bin/bash
# dev helper: dev.sh <TestName> <checks> [seed]  -- builds props.test and runs one test with short timeouts
export GOFLAGS=-mod=mod GOPROXY=off GOSUMDB=off GOTOOLCHAIN=local
cd /verif/harness && go vet ./props && go test -c -o /verif/build/bin/props.test ./props || exit 1
cd /verif/build && VERIF_KNOWN=/verif/known_findings.json VERIF_STATS=/verif/build/dev.stats.json VERIF_REPLAYS=/verif/replays timeout 300 ./bin/props.test -test.run "^$1\$" -rapid.checks ${2:-500} -rapid.seed ${3:-7} -rapid.nofailfile -test.timeout 280s 2>&1 | grep -v "rapid\] draw" | tail -${TAIL:-12}
python3 -c "
import json; s=json.load(open('/verif/build/dev.stats.json')); s['nontrivial_hashes']=len(s['nontrivial_hashes']); s['samples']=len(s['samples'] or []); print(json.dumps(s)[:2500])"
