#!/usr/bin/env python3
"""mutsweep.py [--workers N] [--limit K] [--files glob ...] [--out FILE]

A mutation sweep over the files the properties are anchored in: small single-token edits
(relational and logical operators, boolean constants, +1/-1, dropped negations, early returns),
each applied to a scratch worktree of /repo (never /repo itself). A mutant that still builds and
still passes the repository's own test suite is given to the quick checks of the properties
anchored in its file (VERIF_REPO points the driver at the worktree); the result is "caught" or
"survived". Survivors are the reading list: equivalent mutants, or shapes the generators miss.

Results are appended to --out (JSON lines); a mutant already listed there is skipped, so the sweep
can be interrupted and resumed.
"""
import argparse, collections, fnmatch, hashlib, json, os, queue, re, subprocess, sys, threading

ROOT = os.path.dirname(os.path.dirname(os.path.abspath(__file__)))
REPO = "/repo"
GOENV = dict(os.environ, GOFLAGS="-mod=mod", GOPROXY="off", GOSUMDB="off", GOTOOLCHAIN="local")


def anchors():
    m = collections.defaultdict(list)
    for l in open(os.path.join(ROOT, "properties.jsonl")):
        d = json.loads(l)
        for f in d["anchors"]["files"]:
            m[f].append(d["id"])
    return m


# (regex, replacement, name). Applied per occurrence on code lines (not comments, not strings).
OPS = [
    (r"==", "!=", "eq->ne"), (r"!=", "==", "ne->eq"),
    (r"<=", "<", "le->lt"), (r">=", ">", "ge->gt"),
    (r"(?<![<\-=!>])<(?![<=\-])", "<=", "lt->le"), (r"(?<![>\-=!<])>(?![>=])", ">=", "gt->ge"),
    (r"&&", "||", "and->or"), (r"\|\|", "&&", "or->and"),
    (r"\btrue\b", "false", "true->false"), (r"\bfalse\b", "true", "false->true"),
    (r"\+ 1\b", "- 1", "+1->-1"), (r"- 1\b", "+ 1", "-1->+1"),
    (r"\+\+", "--", "inc->dec"),
    (r"if !", "if ", "drop-not"),
    (r"\bcontinue\b", "break", "continue->break"),
    (r"\[1:\]", "[0:]", "slice1->0"), (r"\[:0\]", "[:1]", "reset0->1"),
]


def code_part(line):
    """Returns the part of a line that is code (before a // comment, outside string literals is not
    tracked precisely: occurrences inside quotes are skipped by a crude quote-parity test)."""
    i = line.find("//")
    return line if i < 0 else line[:i]


def in_string(line, pos):
    return line[:pos].count('"') % 2 == 1 or line[:pos].count("`") % 2 == 1


STMT = re.compile(r"^\t+(?:[A-Za-z_][\w.\[\]]*(?:\([^{}]*\))?\s*(?:=|\+=|-=|\+\+|--)[^=].*|[A-Za-z_][\w.]*\([^{}]*\))$")
NUM = re.compile(r"(?<![\w.\"'])([2-9]|[1-9][0-9]+)(?![\w.\"'xX])")


def extra_mutants(path, lines, ln, line, code):
    """Second family: a deleted simple statement, an integer constant off by one."""
    out = []
    if STMT.match(code.rstrip()) and not code.strip().startswith(("return", "defer", "go ", "case", "default")):
        mid = hashlib.sha1(f"{path}:{ln}:del".encode()).hexdigest()[:12]
        out.append({"id": mid, "file": path, "line": ln + 1, "op": "delete-statement", "old": line.strip(), "new": "",
                    "_ln": ln, "_newline": ""})
    for m in NUM.finditer(code):
        if in_string(code, m.start()):
            continue
        new = line[:m.start()] + str(int(m.group(1)) + 1) + line[m.end():]
        mid = hashlib.sha1(f"{path}:{ln}:{m.start()}:num".encode()).hexdigest()[:12]
        out.append({"id": mid, "file": path, "line": ln + 1, "op": "const+1", "old": line.strip(), "new": new.strip(),
                    "_ln": ln, "_newline": new})
    return out


def mutants_of(path, src, family="tokens"):
    out = []
    lines = src.split("\n")
    in_block = False
    for ln, line in enumerate(lines):
        s = line.strip()
        if s.startswith("/*"):
            in_block = True
        if in_block:
            if "*/" in s:
                in_block = False
            continue
        if s.startswith("//") or s.startswith("import") or s.startswith("package"):
            continue
        code = code_part(line)
        if family == "extra":
            out.extend(extra_mutants(path, lines, ln, line, code))
            continue
        for rx, rep, name in OPS:
            for m in re.finditer(rx, code):
                if in_string(code, m.start()):
                    continue
                new = line[:m.start()] + rep + line[m.end():]
                mid = hashlib.sha1(f"{path}:{ln}:{m.start()}:{name}".encode()).hexdigest()[:12]
                out.append({"id": mid, "file": path, "line": ln + 1, "op": name, "old": line.strip(), "new": new.strip(),
                            "_ln": ln, "_newline": new})
    return out


def sh(cmd, cwd=None, env=None, timeout=None):
    try:
        p = subprocess.run(cmd, cwd=cwd, env=env or GOENV, capture_output=True, text=True, timeout=timeout)
        return p.returncode, p.stdout + p.stderr
    except subprocess.TimeoutExpired:
        return 124, "timeout"


def worker(k, q, results, lock, outpath, amap):
    wt = f"/tmp/mutsweep-{k}"
    sh(["git", "-C", REPO, "worktree", "remove", "--force", wt])
    sh(["git", "-C", REPO, "worktree", "add", "--detach", wt, "HEAD"])
    env = dict(GOENV, VERIF_REPO=wt, VERIF_SEED="1", VERIF_NO_BUILD_LOCK="1")
    while True:
        try:
            mu = q.get_nowait()
        except queue.Empty:
            break
        full = os.path.join(wt, mu["file"])
        orig = open(full).read()
        lines = orig.split("\n")
        lines[mu["_ln"]] = mu["_newline"]
        open(full, "w").write("\n".join(lines))
        rec = {k2: v for k2, v in mu.items() if not k2.startswith("_")}
        try:
            pkg = "./" + os.path.dirname(mu["file"]) + "/..."
            rc, out = sh(["go", "build", "./..."], cwd=wt, timeout=600)
            if rc != 0:
                rec["status"] = "no-build"
            else:
                rc, out = sh(["go", "test", "-vet=off", "-count=1", "-timeout", "300s", "./..."], cwd=wt, timeout=900)
                if rc != 0:
                    rec["status"] = "killed-by-suite"
                else:
                    checks = amap.get(mu["file"]) or default_checks(mu["file"])
                    rec["checks"] = {}
                    caught = False
                    for c in checks:
                        rc, out = sh(["python3", os.path.join(ROOT, "run.py"), c, "quick"], env=env, timeout=1500)
                        rec["checks"][c] = rc
                        if rc == 1:
                            caught = True
                            break
                    inconclusive = any(v not in (0, 1) for v in rec["checks"].values())
                    rec["status"] = "caught" if caught else ("inconclusive" if inconclusive else "survived")
        finally:
            open(full, "w").write(orig)
        with lock:
            results.append(rec)
            with open(outpath, "a") as f:
                f.write(json.dumps(rec) + "\n")
            print(f"[{len(results)}] {rec['status']:16} {mu['file']}:{mu['line']} {mu['op']}  {mu['old'][:70]}", flush=True)
    sh(["git", "-C", REPO, "worktree", "remove", "--force", wt])


def default_checks(path):
    if "logqlmetric" in path:
        return ["C09", "C11", "C12"]
    if "logqlengine" in path:
        return ["C01", "C06", "C07", "C19"]
    if "dockerlog" in path:
        return ["C02", "C03", "C04", "C14"]
    if "lexer" in path or "/logql/" in path:
        return ["C05", "C13"]
    if path.startswith("cmd/"):
        return ["C15", "C16"]
    return ["C17"]


def main():
    ap = argparse.ArgumentParser()
    ap.add_argument("--workers", type=int, default=6)
    ap.add_argument("--limit", type=int, default=0)
    ap.add_argument("--files", nargs="*", default=[])
    ap.add_argument("--out", default=os.path.join(ROOT, "mutants", "sweep.jsonl"))
    ap.add_argument("--sample", type=int, default=0, help="take every n-th mutant of each file")
    ap.add_argument("--family", default="tokens", help="tokens (operators, constants true/false) or extra (deleted statements, integer constants)")
    a = ap.parse_args()
    os.makedirs(os.path.dirname(a.out), exist_ok=True)
    amap = anchors()
    files = sorted(amap)
    if a.files:
        files = [f for f in files if any(fnmatch.fnmatch(f, g) for g in a.files)]
    done = set()
    if os.path.exists(a.out):
        for l in open(a.out):
            try:
                done.add(json.loads(l)["id"])
            except Exception:
                pass
    allm = []
    for f in files:
        full = os.path.join(REPO, f)
        if not os.path.exists(full):
            continue
        ms = mutants_of(f, open(full).read(), a.family)
        if a.sample > 1:
            ms = ms[::a.sample]
        allm.extend(ms)
    todo = [m for m in allm if m["id"] not in done]
    if a.limit:
        todo = todo[:a.limit]
    print(f"{len(allm)} mutants in {len(files)} files, {len(todo)} to run", flush=True)
    q = queue.Queue()
    for m in todo:
        q.put(m)
    results, lock = [], threading.Lock()
    ths = [threading.Thread(target=worker, args=(k, q, results, lock, a.out, amap)) for k in range(a.workers)]
    for t in ths:
        t.start()
    for t in ths:
        t.join()
    c = collections.Counter(r["status"] for r in results)
    print(dict(c))


if __name__ == "__main__":
    main()
