#!/bin/bash
# thorough_all.sh <seed> [check...]: runs the thorough tier of the given checks (all by default) one after another
# from the directory this script lives in, printing one summary per check.
here=$(cd "$(dirname "$0")/.." && pwd)
seed=$1; shift
checks=${@:-C01 C02 C03 C04 C05 C06 C07 C08 C09 C10 C11 C12 C13 C14 C15 C16 C17 C18 C19 C20}
for p in $checks; do
  s=$(date +%s)
  out=$(VERIF_SEED=$seed python3 "$here/run.py" $p thorough 2>&1 | grep -v '^\s*$' | tail -4 | cut -c1-700)
  echo "$p $(( $(date +%s)-s ))s rc :: $out"
done
echo "thorough pass done (seed $seed)"
