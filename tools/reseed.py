#!/usr/bin/env python3
"""reseed.py [seed-id ...]: re-run the quick check of the property each stored seeded change breaks
with the change applied to /repo (and reverted right after). Prints one line per seed; exits 1 if a
seed is no longer caught. Evidence files are restored afterwards."""
import json, os, subprocess, sys, glob, re
ROOT = os.path.dirname(os.path.dirname(os.path.abspath(__file__)))
REPO = "/repo"
def sh(*a, **k):
    return subprocess.run(a, capture_output=True, text=True, errors="replace", **k)
def key(d):
    m = re.match(r"C(\d+)-(\d+)", d); return (int(m.group(2)), int(m.group(1)))
SAVE = "--save" in sys.argv
if SAVE:
    sys.argv.remove("--save")
WITH_REGRESS = "--with-regress" in sys.argv
if WITH_REGRESS:
    sys.argv.remove("--with-regress")
saved = []
ids = sys.argv[1:] or sorted((os.path.basename(p) for p in glob.glob(ROOT + "/seeded/C*-*")), key=key)
if sh("git", "-C", REPO, "status", "--porcelain").stdout.strip():
    sys.exit("/repo is not clean")
bad = 0
for sid in ids:
    d = f"{ROOT}/seeded/{sid}"
    meta = json.load(open(d + "/meta.json"))
    prop = meta["breaks_property"]
    r = sh("git", "-C", REPO, "apply", d + "/patch.diff")
    if r.returncode != 0:
        r = sh("git", "-C", REPO, "apply", "--3way", d + "/patch.diff")
        if r.returncode != 0:
            print(f"{sid}: patch does not apply to the current tree ({r.stderr.strip().splitlines()[-1] if r.stderr.strip() else ''})")
            sh("git", "-C", REPO, "reset", "-q", "--hard", "HEAD")
            continue
        sh("git", "-C", REPO, "reset", "-q")
    try:
        # the saved regression cases are left out: this measures what the generators find
        env = dict(os.environ, VERIF_SEED=os.environ.get("VERIF_SEED", "1"), VERIF_NO_REGRESS="" if WITH_REGRESS else "1")
        c = subprocess.run(["python3", ROOT + "/run.py", prop, "quick"], capture_output=True, text=True, errors="replace", env=env)
        viol = [l for l in c.stdout.splitlines() if l.startswith("VIOLATION")]
        ok = c.returncode == 1 and viol
        print(f"{sid}: {prop} quick rc={c.returncode} {'caught' if ok else 'NOT CAUGHT'}", flush=True)
        if ok and prop not in meta.get("caught_by", []):
            # the stored list dates from the first run: record that the check catches it now
            meta.setdefault("caught_by", []).append(prop)
            meta["caught_by_after_strengthening"] = True
            json.dump(meta, open(d + "/meta.json", "w"), indent=1)
        if ok and SAVE:
            # keep the shrunk failing case as a plain regression case of the test that produced it
            for l in viol:
                path = l.split("replay=")[-1].strip()
                try:
                    test = json.load(open(path)).get("_test")
                except Exception:
                    test = None
                if test:
                    os.makedirs(f"{ROOT}/regress/{test}", exist_ok=True)
                    dst = f"{ROOT}/regress/{test}/seed-{sid}.json"
                    subprocess.run(["cp", path, dst])
                    saved.append((prop, dst))
                    break
        bad += 0 if ok else 1
    finally:
        sh("git", "-C", REPO, "checkout", "--", ".")
        for f in sh("git", "-C", REPO, "ls-files", "--others", "--exclude-standard").stdout.split():
            os.remove(os.path.join(REPO, f))
# a saved case must hold on the unchanged tree
for prop, dst in saved:
    c = subprocess.run(["python3", ROOT + "/run.py", "replay", prop, dst], capture_output=True, text=True, errors="replace")
    if c.returncode != 0:
        print(f"saved case {dst} does not hold on the unchanged tree: removed")
        os.remove(dst)
sh("git", "-C", ROOT, "checkout", "--", "evidence")
print("not caught:", bad)
sys.exit(1 if bad else 0)
