#!/usr/bin/env python3
"""Regenerate seeded/README.md from seeded/*/meta.json (header and footer are kept in this file)."""
import json, glob, os, re
ROOT = os.path.dirname(os.path.dirname(os.path.abspath(__file__)))
HEAD = """# Seeded breaking changes

Each directory holds one change to tdakkota/docker-logql written by a sub-agent that was given
only the text of one property and its own scratch worktree (nothing from /verif): `patch.diff`,
the demonstration test (`*.txt`, with the path to place it at in meta.json) and `meta.json`
(what it breaks, what it needs to manifest, what was run, which checks caught it).  Every
change was confirmed in a fresh worktree by `tools/seedcheck.py`: it applies, builds, the
unedited suite passes with it, the demonstration fails with it and passes without it.  The
checks were then run against `/repo` with the patch applied (`git -C /repo apply`), and `/repo`
was restored (`git -C /repo checkout -- .`).  None of these changes is committed in `/repo`.

| Seed | Property | Change | Caught by (quick tier) | First run |
|---|---|---|---|---|
"""
rows, rounds, notcaught = [], {}, []
def key(d):
    m = re.match(r"C(\d+)-(\d+)", d)
    return (int(m.group(2)), int(m.group(1)))
for d in sorted((os.path.basename(p) for p in glob.glob(ROOT + "/seeded/C*-*")), key=key):
    m = json.load(open(f"{ROOT}/seeded/{d}/meta.json"))
    fr = m.get("first_run", "?")
    r = key(d)[0]
    tot, missed = rounds.get(r, (0, 0))
    rounds[r] = (tot + 1, missed + (0 if fr.startswith("caught on the first run") else 1))
    if not m["caught_by"]:
        notcaught.append(d)
    s = m["summary"][:170].replace("|", "\\|").replace("\n", " ")
    rows.append(f"| {d} | {m['breaks_property']} | {s} | {', '.join(m['caught_by'])} | {fr} |")
foot = "\n\"First run\" records honestly what the machinery did before it was strengthened.\n"
for r, (tot, missed) in sorted(rounds.items()):
    foot += f"Round {r} (`Cxx-{r}`): {missed} of {tot} changes were missed at first (or only caught by a neighbouring property's check).\n"
foot += """From round 2 on the agents were told what the earlier rounds had done and asked for a different
site and mechanism.  Every miss led to a generator or driver improvement described in the seed's
meta.json (`strengthening`); after them every change is caught by the quick tier of the property
it breaks, with the exceptions listed below.  All improvements were re-run on the unchanged tree at
several seeds to make sure they raise no alarm there.
"""
if notcaught:
    foot += "\nNot caught, deliberately (the meta.json says why): " + ", ".join(notcaught) + ".\n"
open(ROOT + "/seeded/README.md", "w").write(HEAD + "\n".join(rows) + "\n" + foot)
print(rounds)
