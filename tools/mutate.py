#!/usr/bin/env python3
"""Sensitivity experiment: apply one textual mutation to /repo, run a check, revert.

usage: mutate.py <PROP>[,<PROP>...] <file relative to /repo> <old> <new> [--tier quick] [--count N]
The mutation must apply exactly once (or --count times). /repo is restored with git checkout.
"""
import subprocess
import sys
import time

def main():
    args = sys.argv[1:]
    tier = "quick"
    count = 1
    if "--tier" in args:
        i = args.index("--tier"); tier = args[i + 1]; del args[i:i + 2]
    if "--count" in args:
        i = args.index("--count"); count = int(args[i + 1]); del args[i:i + 2]
    props, rel, old, new = args
    path = "/repo/" + rel
    src = open(path).read()
    if src.count(old) != count:
        print("mutation site matches %d times, want %d" % (src.count(old), count)); return 3
    dirty = subprocess.run(["git", "-C", "/repo", "status", "--porcelain"], capture_output=True, text=True, errors="replace").stdout.strip()
    if dirty:
        print("/repo is dirty, refusing:\n" + dirty); return 3
    open(path, "w").write(src.replace(old, new))
    rc_all = {}
    try:
        b = subprocess.run("cd /repo && GOFLAGS=-mod=mod go build ./... 2>&1 | tail -5", shell=True, capture_output=True, text=True, errors="replace")
        if b.stdout.strip():
            print("mutant does not build:\n" + b.stdout); return 3
        for prop in props.split(","):
            t0 = time.time()
            p = subprocess.run(["python3", "/verif/run.py", prop, tier], capture_output=True, text=True, errors="replace")
            lines = [l for l in (p.stdout + p.stderr).splitlines() if l.startswith(("VIOLATION", "violation", "KNOWN", "INCONCLUSIVE")) or "held on" in l]
            print("%s %s rc=%d %.1fs" % (prop, tier, p.returncode, time.time() - t0))
            for l in lines[:6]:
                print("   " + l[:600])
            rc_all[prop] = p.returncode
    finally:
        subprocess.run(["git", "-C", "/repo", "checkout", "--", "."], check=True)
        # evidence written while the mutant was applied does not describe the unchanged tree
        subprocess.run(["git", "-C", "/verif", "checkout", "--", "evidence"], check=False)
    return 0

if __name__ == "__main__":
    sys.exit(main())
