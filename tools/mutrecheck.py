#!/usr/bin/env python3
"""mutrecheck.py [--workers N]: second pass over the survivors of mutsweep.py - each is run against
the quick checks of the neighbouring properties (by directory), not only the ones anchored in its
file. Results go to mutants/recheck.jsonl (resumable)."""
import json, os, queue, subprocess, sys, threading
sys.path.insert(0, os.path.dirname(os.path.abspath(__file__)))
import mutsweep as ms
ROOT, REPO = ms.ROOT, ms.REPO
ALL = "--all-checks" in sys.argv  # also the checks of the first pass (after the harness changed)
OUT = os.path.join(ROOT, "mutants", "recheck2.jsonl" if ALL else "recheck.jsonl")

def neighbours(path):
    if "logqlmetric" in path:
        return ["C12", "C11", "C09", "C10", "C13", "C18", "C17", "C14"]
    if "logqlengine" in path:
        return ["C01", "C06", "C07", "C08", "C19", "C09", "C11", "C12", "C17", "C14", "C18"]
    if "dockerlog" in path or "otelstorage" in path:
        return ["C02", "C03", "C04", "C14", "C20", "C18", "C16"]
    if path.startswith("cmd/"):
        return ["C15", "C16", "C18"]
    return ["C05", "C13", "C17", "C01", "C09", "C12"]

def worker(k, q, lock):
    wt = f"/tmp/mutre-{k}"
    ms.sh(["git", "-C", REPO, "worktree", "remove", "--force", wt])
    ms.sh(["git", "-C", REPO, "worktree", "add", "--detach", wt, "HEAD"])
    env = dict(ms.GOENV, VERIF_REPO=wt, VERIF_SEED="2", VERIF_NO_BUILD_LOCK="1")
    while True:
        try:
            mu = q.get_nowait()
        except queue.Empty:
            break
        full = os.path.join(wt, mu["file"])
        orig = open(full).read()
        lines = orig.split("\n")
        if lines[mu["line"] - 1].strip() != mu["old"]:
            print("stale", mu["id"]); continue
        # re-create the mutated line from the recorded texts
        lines[mu["line"] - 1] = lines[mu["line"] - 1].replace(mu["old"], mu["new"])
        open(full, "w").write("\n".join(lines))
        rec = dict(mu)
        try:
            rec["checks2"] = {}
            status = "survived"
            order = neighbours(mu["file"])
            if ALL:
                order = list(dict.fromkeys(list((mu.get("checks") or {}).keys()) + order))
            for c in order:
                if c in (mu.get("checks") or {}) and not ALL:
                    continue
                rc, out = ms.sh(["python3", os.path.join(ROOT, "run.py"), c, "quick"], env=env, timeout=1500)
                rec["checks2"][c] = rc
                if rc == 1:
                    status = "caught"
                    break
            rec["status2"] = status
        finally:
            open(full, "w").write(orig)
        with lock:
            with open(OUT, "a") as f:
                f.write(json.dumps(rec) + "\n")
            print(f"{status:9} {mu['file']}:{mu['line']} {mu['op']} {rec['checks2']}", flush=True)
    ms.sh(["git", "-C", REPO, "worktree", "remove", "--force", wt])

def main():
    workers = int(sys.argv[sys.argv.index("--workers") + 1]) if "--workers" in sys.argv else 6
    done = set()
    if os.path.exists(OUT):
        done = {json.loads(l)["id"] for l in open(OUT)}
    q = queue.Queue()
    n = 0
    src = os.path.join(ROOT, "mutants", "sweep.jsonl")
    caught1 = set()
    if ALL and os.path.exists(os.path.join(ROOT, "mutants", "recheck.jsonl")):
        caught1 = {json.loads(l)["id"] for l in open(os.path.join(ROOT, "mutants", "recheck.jsonl")) if json.loads(l)["status2"] == "caught"}
    for l in open(src):
        r = json.loads(l)
        if r["status"] in ("survived", "inconclusive") and r["id"] not in done and r["id"] not in caught1:
            q.put(r); n += 1
    print(n, "survivors to re-check", flush=True)
    lock = threading.Lock()
    ths = [threading.Thread(target=worker, args=(k, q, lock)) for k in range(workers)]
    for t in ths: t.start()
    for t in ths: t.join()

if __name__ == "__main__":
    main()
