#!/usr/bin/env python3
"""mkprompts.py <round> : writes /tmp/prompt<round>-Cxx.txt, the brief a fresh sub-agent gets for one
seeded change of property Cxx (section 13 of DESIGN.md).  The brief contains the property text and
one-line summaries of the earlier changes of that property (so that a new site and mechanism is
chosen) - nothing else from /verif.  Worktrees: /tmp/seed<round>-Cxx, output /tmp/seed<round>-Cxx-out.
"""
import glob, json, os, sys

ROOT = os.path.dirname(os.path.dirname(os.path.abspath(__file__)))
rnd = sys.argv[1]
WORDS = {1: "one", 2: "two", 3: "three", 4: "four", 5: "five", 6: "six", 7: "seven", 8: "eight", 9: "nine", 10: "ten"}

for line in open(os.path.join(ROOT, "properties.jsonl")):
    p = json.loads(line)
    pid = p["id"]
    wt, out = f"/tmp/seed{rnd}-{pid}", f"/tmp/seed{rnd}-{pid}-out"
    prev = []
    for m in sorted(glob.glob(os.path.join(ROOT, "seeded", pid + "-*", "meta.json")), key=lambda s: int(s.split("-")[-1].split("/")[0])):
        d = json.load(open(m))
        prev.append((d.get("summary", ""), d.get("needs_to_manifest", "")))
    n = len(prev)
    txt = f"""You are helping test a verification effort by playing a careless (or malicious) maintainer of a Go project.

The project is a Go repository (tdakkota/docker-logql: a Docker CLI plugin with an embedded LogQL lexer, parser and evaluation engine over container logs). You have your OWN scratch git worktree of it at {wt} . Work ONLY inside {wt} and write your deliverables to {out}/ . Do NOT read, list or touch /repo, /verif, or any other /tmp/seed* directory. The sandbox has no network. For every go command export: GOFLAGS=-mod=mod GOPROXY=off GOSUMDB=off GOTOOLCHAIN=local . Use short timeouts for tests (e.g. `timeout 300 go test ...`).

The property under attack (read it carefully):

---
{pid} — {p['title']}

Statement: {p['statement']}

Quantifier: {p['quantifier']['text']}

Anchored files: {', '.join(p['anchors']['files'])}
---

Your task: produce ONE small source change (a patch to non-test .go files of the project, a few lines, looking like a plausible refactoring/optimisation/"fix") that BREAKS this property, while
 (a) the project still compiles (`go build ./...`), and
 (b) the project's existing test suite, unedited, still passes: `cd {wt} && go test -vet=off -count=1 ./...` .
The change must NOT be something ordinary use would expose at once. It must need something specific to manifest: an unusual input, a boundary value, a particular combination of options, a particular interleaving/completion order, a fault at a particular point, a multi-step sequence of operations, or two cooperating code sites that each look fine alone. Prefer subtle semantic slips over crashes.

Also write a DEMONSTRATION: a Go test file placed inside the worktree in the package it needs (name it zz_seed_demo_test.go; it may use unexported helpers of that package and define its own fakes, e.g. an in-memory logqlengine.Querier, or a fake Docker client.APIClient that embeds the interface and implements only ContainerList/ContainerLogs) that FAILS with your change applied and PASSES without it. Verify both directions yourself: run the demo with the change (must fail), then save your source change with `git diff -- . ":(exclude)*zz_seed_demo_test.go" > /tmp/seed-X.diff`-style and revert it with `git apply -R` (do NOT use `git stash`: the stash is shared between worktrees of this repository and other people use it concurrently), run the demo again (must pass), then re-apply your change with `git apply`.

Deliverables in {out}/ :
 1. patch.diff  — `git diff` of the source change ONLY (not including the demo test file); it must apply with `git apply` to a clean checkout of the same commit.
 2. the demo test file (copy), and demo_cmd.txt with the exact command that runs it.
 3. notes.json — {{"property":"{pid}","summary":"what the change does","needs_to_manifest":"the specific input/combination needed","files_changed":[...],"suite_passes_with_change":true,"demo_fails_with_change":true,"demo_passes_without_change":true}}

IMPORTANT - {WORDS.get(n, str(n))} previous attempts at this task already produced the following changes, which must NOT be repeated; choose a DIFFERENT code site and a different mechanism from all of them:
"""
    for i, (s, t) in enumerate(prev, 1):
        txt += f"  previous change {i}: {s[:330]}\n    its trigger: {t[:170]}\n"
    txt += f"""
{WORDS.get(n, str(n)).capitalize()} attempts have covered the obvious places, so read the anchored files and the helpers they call line by line (and the code those call: the storage adapters, the label sets, the iterators, the conversions between the API types and the engine's own) and look for a place none of them touched. The change must violate the property STATEMENT as written above (not merely change an unspecified detail such as the order among equal elements, the text of an error message or a default the statement does not mention) - say in notes.json which sentence of the statement it violates. It must be reachable through the product as it is built (the `docker logql query` command and the options it really passes), must be correct for everything the existing tests and ordinary use exercise, must look like something a maintainer could plausibly commit, and must need something specific to manifest (a boundary, a rare but legal input, a second use, two features together, state carried between records / steps / calls).

Never use `git stash` (it is shared between worktrees).

When finished, leave the worktree with your source change applied and the demo file present. Reply with a short summary (what you changed, what triggers it, and the verification results).
"""
    open(f"/tmp/prompt{rnd}-{pid}.txt", "w").write(txt)
    print(f"/tmp/prompt{rnd}-{pid}.txt", n, "previous")
