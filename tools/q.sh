#!/bin/bash
# q.sh '<metric query>' [range]: evaluates one metric query over a tiny fixed data set (debug helper)
export GOFLAGS=-mod=mod GOPROXY=off GOSUMDB=off GOTOOLCHAIN=local
cd /verif/harness && VERIF_QUERY="$1" VERIF_RANGE="$2" go test -v -vet=off -count=1 -run TestDebugQuery ./props 2>&1 | grep -v "^ok\|^PASS\|^=== \|^--- " | head -40
