#!/usr/bin/env python3
"""Confirms a seeded breaking change delivered by a sub-agent and runs the checks against it.

usage: seedcheck.py <PROP> <outdir> [--name <seed id>] [--checks C01,C08] [--tier quick]

1. creates a scratch worktree of /repo HEAD under /tmp, applies <outdir>/patch.diff, copies the demo test in;
2. confirms: builds; the unedited suite passes with the patch; the demo fails with the patch and passes without;
3. applies the patch to /repo, runs the listed checks, reverts (git checkout -- .);
4. stores patch, demo and meta.json under /verif/seeded/<seed id>/.
"""
import glob
import json
import os
import shutil
import subprocess
import sys
import time

ENV = dict(os.environ, GOFLAGS="-mod=mod", GOPROXY="off", GOSUMDB="off", GOTOOLCHAIN="local")


def sh(cmd, cwd=None, timeout=1200):
    p = subprocess.run(cmd, shell=True, cwd=cwd, env=ENV, capture_output=True, text=True, errors="replace", timeout=timeout)
    return p.returncode, (p.stdout + p.stderr)


def main():
    args = sys.argv[1:]
    name = None
    checks = None
    tier = "quick"
    agent_wt_opt = None
    if "--wt" in args:
        i = args.index("--wt")
        agent_wt_opt = args[i + 1]
        del args[i:i + 2]
    for flag in ("--name", "--checks", "--tier"):
        if flag in args:
            i = args.index(flag)
            val = args[i + 1]
            del args[i:i + 2]
            if flag == "--name":
                name = val
            elif flag == "--checks":
                checks = val.split(",")
            else:
                tier = val
    prop, outdir = args
    name = name or (prop + "-1")
    checks = checks or [prop]
    patch = os.path.join(outdir, "patch.diff")
    demos = [f for f in glob.glob(os.path.join(outdir, "*_test.go"))]
    notes = {}
    if os.path.exists(os.path.join(outdir, "notes.json")):
        try:
            notes = json.load(open(os.path.join(outdir, "notes.json")))
        except Exception:
            notes = {}
    demo_cmd = open(os.path.join(outdir, "demo_cmd.txt")).read().strip() if os.path.exists(os.path.join(outdir, "demo_cmd.txt")) else ""
    wt = "/tmp/verify-%s" % name
    sh("git -C /repo worktree remove --force %s" % wt)
    rc, out = sh("git -C /repo worktree add -q --detach %s HEAD" % wt)
    assert rc == 0, out
    result = {"seed": name, "property": prop, "notes": notes, "ran": []}
    try:
        # where does the demo live? take the path from the agent's worktree
        agent_wt = agent_wt_opt or "/tmp/seed-%s" % prop
        demo_rel = []
        rc, out = sh("git -C %s status --porcelain" % agent_wt)
        for line in out.splitlines():
            path = line[3:].strip()
            if path.endswith("_test.go") and line.startswith("??"):
                demo_rel.append(path)
        rc, out = sh("git apply --check %s && git apply %s" % (patch, patch), cwd=wt)
        result["patch_applies"] = rc == 0
        if rc != 0:
            print("patch does not apply:\n" + out)
            return 3
        rc, out = sh("go build ./... 2>&1 | tail -5", cwd=wt)
        result["builds"] = out.strip() == ""
        rc, out = sh("go test -vet=off -count=1 ./... 2>&1 | grep -v '^ok' | grep -v 'no test files' | tail -15", cwd=wt)
        result["suite_passes_with_patch"] = out.strip() == ""
        if out.strip():
            print("SUITE OUTPUT WITH PATCH:\n" + out)
        # demo with patch
        for rel in demo_rel:
            os.makedirs(os.path.dirname(os.path.join(wt, rel)), exist_ok=True)
            shutil.copy(os.path.join(agent_wt, rel), os.path.join(wt, rel))
        pkgs = sorted(set("./" + os.path.dirname(r) for r in demo_rel))
        race = "-race " if "-race" in demo_cmd else ""  # a demonstration of a data race only fails under the detector
        demo_run = "go test %s-vet=off -count=1 %s" % (race, " ".join(pkgs)) if pkgs else demo_cmd
        rc1, out1 = sh(demo_run + " 2>&1 | tail -15", cwd=wt)
        fails_with = "FAIL" in out1
        sh("git apply -R %s" % patch, cwd=wt)
        rc2, out2 = sh(demo_run + " 2>&1 | tail -15", cwd=wt)
        passes_without = "FAIL" not in out2 and "ok" in out2
        result["demo_cmd"] = demo_run
        result["demo_fails_with_patch"] = fails_with
        result["demo_passes_without_patch"] = passes_without
        if not fails_with:
            print("DEMO WITH PATCH:\n" + out1)
        if not passes_without:
            print("DEMO WITHOUT PATCH:\n" + out2)
        # run our checks against /repo with the patch
        dirty = subprocess.run(["git", "-C", "/repo", "status", "--porcelain"], capture_output=True, text=True).stdout.strip()
        assert not dirty, "/repo dirty: " + dirty
        rc, out = sh("git -C /repo apply %s" % patch)
        assert rc == 0, out
        try:
            for chk in checks:
                t0 = time.time()
                p = subprocess.run(["python3", "/verif/run.py", chk, tier], capture_output=True, text=True, env=ENV)
                lines = [l for l in (p.stdout + p.stderr).splitlines() if l.startswith(("VIOLATION", "violation", "INCONCLUSIVE")) or "held on" in l]
                result["ran"].append({"check": chk, "tier": tier, "rc": p.returncode, "wall_s": round(time.time() - t0, 1), "lines": [l[:700] for l in lines[:4]]})
                print("%s %s rc=%d %.1fs" % (chk, tier, p.returncode, time.time() - t0))
                for l in lines[:3]:
                    print("   " + l[:500])
        finally:
            subprocess.run(["git", "-C", "/repo", "checkout", "--", "."], check=True)
            subprocess.run(["git", "-C", "/verif", "checkout", "--", "evidence"], check=False)
        # store
        dst = "/verif/seeded/%s" % name
        os.makedirs(dst, exist_ok=True)
        shutil.copy(patch, os.path.join(dst, "patch.diff"))
        for rel in demo_rel:
            shutil.copy(os.path.join(agent_wt, rel), os.path.join(dst, os.path.basename(rel) + ".txt"))
        meta = {
            "seed": name, "breaks_property": prop,
            "summary": notes.get("summary", ""), "needs_to_manifest": notes.get("needs_to_manifest", ""),
            "files_changed": notes.get("files_changed", []),
            "demo": {"files": [os.path.basename(r) + ".txt (place at %s)" % r for r in demo_rel], "cmd": demo_run},
            "confirmed": {k: result.get(k) for k in ("patch_applies", "builds", "suite_passes_with_patch", "demo_fails_with_patch", "demo_passes_without_patch")},
            "checks_run": result["ran"],
            "caught_by": [r["check"] for r in result["ran"] if r["rc"] == 1],
            "base_commit": subprocess.run(["git", "-C", "/repo", "rev-parse", "--short", "HEAD"], capture_output=True, text=True).stdout.strip(),
        }
        json.dump(meta, open(os.path.join(dst, "meta.json"), "w"), indent=1)
        print(json.dumps(meta["confirmed"]), "caught_by", meta["caught_by"])
    finally:
        sh("git -C /repo worktree remove --force %s" % wt)
    return 0


if __name__ == "__main__":
    sys.exit(main())
