#!/usr/bin/env python3
"""benign.py [name ...]: applies property-preserving edits to /repo one at a time (a worker limit, a
two-pass average, other error texts, another output order, ...), runs the quick checks they could
disturb and expects every one to stay silent (exit 0). /repo is restored after each edit."""
import os, subprocess, sys
ROOT = os.path.dirname(os.path.dirname(os.path.abspath(__file__)))
REPO = "/repo"
ALL = ["C%02d" % i for i in range(1, 21)]
EDITS = {
    "worker-limit-2": ("internal/dockerlog/dockerlog.go", "\t\tvar grp errgroup.Group\n", "\t\tvar grp errgroup.Group\n\t\tgrp.SetLimit(2)\n", ["C02", "C04", "C14", "C18", "C20"]),
    "sequential-open": ("internal/dockerlog/dockerlog.go", "\t\tvar grp errgroup.Group\n", "\t\tvar grp errgroup.Group\n\t\tgrp.SetLimit(1)\n", ["C02", "C04", "C14", "C18", "C20"]),
    "avg-sum-count": ("internal/logql/logqlengine/logqlmetric/stream_aggregator.go",
                      "\ta.count++\n\ta.avg += (v - a.avg) / a.count\n",
                      "\ta.count++\n\ta.avg = (a.avg*(a.count-1) + v) / a.count\n", ["C09", "C10", "C11", "C12", "C13", "C18"]),
    "error-text": ("internal/logql/parser_metric_expr.go", "unexpected right scalar %v in a logical operation %s", "scalar %v cannot be the right operand of %s", ["C05", "C13", "C17"]),
    "wider-until": ("internal/dockerlog/dockerlog.go", "until = strconv.FormatInt(t.Unix(), 10)", "until = strconv.FormatInt(t.Unix()+1, 10)", ["C02", "C14", "C16", "C20"]),
    "merge-tiebreak": ("internal/dockerlog/merge_iter.go", "\treturn a.record.Timestamp < b.record.Timestamp\n",
                       "\tif a.record.Timestamp == b.record.Timestamp {\n\t\treturn a.iterIdx > b.iterIdx\n\t}\n\treturn a.record.Timestamp < b.record.Timestamp\n", ["C04", "C14", "C15", "C18", "C02"]),
    "stable-sort": ("internal/logql/logqlengine/eval_streams.go", "slices.SortFunc(stream.Values,", "slices.SortStableFunc(stream.Values,", ["C01", "C08", "C18", "C19"]),
    "wider-since": ("internal/dockerlog/dockerlog.go", "since = strconv.FormatInt(t.Unix(), 10)", "since = strconv.FormatInt(t.Unix()-1, 10)", ["C02", "C14", "C16", "C09"]),
    # the exact start instead of its whole second: not narrower, not shifted
    "exact-since": ("internal/dockerlog/dockerlog.go", "since = strconv.FormatInt(t.Unix(), 10)",
                    "since = strconv.FormatInt(t.Unix(), 10) + \".\" + strconv.FormatInt(int64(t.Nanosecond())+1000000000, 10)[1:]", ["C02", "C04", "C09", "C14", "C16"]),
    # every failed open is remembered under a lock and reported together: no race, still an error
    "open-errors-under-a-lock": ("internal/dockerlog/dockerlog.go",
                    "\t\t\t\tif err != nil {\n\t\t\t\t\treturn errors.Wrapf(err, \"open container %q log\", ctr.ID)\n\t\t\t\t}\n",
                    "\t\t\t\tif err != nil {\n\t\t\t\t\tfailedMu.Lock()\n\t\t\t\t\tfailed = append(failed, ctr.ID)\n\t\t\t\t\tfailedMu.Unlock()\n\t\t\t\t\treturn errors.Wrapf(err, \"open container %q log\", ctr.ID)\n\t\t\t\t}\n",
                    ["C14", "C18", "C04"]),
    "tail-omitted": ("internal/dockerlog/dockerlog.go", "\t\tTail:       \"all\",\n", "", ["C02", "C04", "C14"]),
}
# further replacements in the same file, applied with the edit
EXTRA = {
    "open-errors-under-a-lock": [("\t\tvar grp errgroup.Group\n", "\t\tvar grp errgroup.Group\n\t\tvar (\n\t\t\tfailedMu sync.Mutex\n\t\t\tfailed   []string\n\t\t)\n\t\tdefer func() { _ = failed }()\n"),
                                 ("import (\n", "import (\n\t\"sync\"\n")],
}
def sh(*a, **k):
    return subprocess.run(a, capture_output=True, text=True, errors="replace", **k)
if sh("git", "-C", REPO, "status", "--porcelain").stdout.strip():
    sys.exit("/repo is not clean")
names = sys.argv[1:] or list(EDITS)
bad = 0
for name in names:
    path, old, new, checks = EDITS[name]
    full = os.path.join(REPO, path)
    src = open(full).read()
    if old not in src:
        print(f"{name}: pattern not found in {path}"); bad += 1; continue
    src2 = src.replace(old, new, 1)
    for o2, n2 in EXTRA.get(name, []):
        if o2 not in src2:
            print(f"{name}: extra pattern not found"); bad += 1
        src2 = src2.replace(o2, n2, 1)
    open(full, "w").write(src2)
    try:
        b = sh("go", "build", "./...", cwd=REPO, env=dict(os.environ, GOFLAGS="-mod=mod", GOPROXY="off", GOSUMDB="off", GOTOOLCHAIN="local"))
        if b.returncode != 0:
            print(f"{name}: does not build: {b.stderr[-300:]}"); bad += 1; continue
        for c in checks:
            r = sh("python3", ROOT + "/run.py", c, "quick")
            ok = r.returncode == 0 and "VIOLATION" not in r.stdout
            print(f"{name}: {c} quick rc={r.returncode} {'silent' if ok else 'ALARM: ' + r.stdout.strip().splitlines()[-1][:300] if r.stdout.strip() else 'ALARM'}", flush=True)
            bad += 0 if ok else 1
    finally:
        sh("git", "-C", REPO, "checkout", "--", ".")
sh("git", "-C", ROOT, "checkout", "--", "evidence")
print("alarms:", bad)
sys.exit(1 if bad else 0)
