#!/usr/bin/env python3
"""Regenerates MANIFEST.json from props_table.py and manifest_meta.py."""
import json
import os
import sys

HERE = os.path.dirname(os.path.abspath(__file__))
sys.path.insert(0, HERE)
from props_table import PROPS  # noqa: E402
from manifest_meta import META, NOT_BUILT_REASON, SOURCE_COMMITS  # noqa: E402

ids = [json.loads(l)["id"] for l in open(os.path.join(HERE, "properties.jsonl")) if l.strip()]
checks = []
na = []
for pid in ids:
    if pid in PROPS and pid in META:
        m = META[pid]
        c = {
            "property_id": pid,
            "quick_cmd": "python3 run.py %s quick" % pid,
            "thorough_cmd": "python3 run.py %s thorough" % pid,
            "evidence_file": "evidence/%s.json" % pid,
            "replay_cmd_template": "python3 run.py replay %s {path}" % pid,
            "engine": "rapid-harness",
            "level_claimed": {"category": "exploration", "text": m["text"], "design_ref": "DESIGN.md §4 " + pid},
            "level_note": m["note"],
            "technique": m["technique"],
        }
        checks.append(c)
    else:
        na.append({"property_id": pid, "reason": NOT_BUILT_REASON.get(pid, "check not built yet in this session; planned in DESIGN.md §4")})

manifest = {
    "version": 1,
    "setup_cmd": "python3 run.py setup",
    "hooks": {
        "guard": "verif",
        "enable": "no source hooks are needed: the harness module (nested module path + replace => /repo) and a go build -overlay for package main compile against /repo's working tree as is",
        "baseline_off_cmd": "cd /repo && GOFLAGS=-mod=mod go test -vet=off -count=1 -timeout 25m ./...",
        "source_commits": SOURCE_COMMITS,
        "add_only": True,
    },
    "engines": [
        {"name": "rapid-harness", "path": "harness/", "serves_properties": [c["property_id"] for c in checks],
         "kind_free_text": "Go test binaries built from /repo's working tree: pgregory.net/rapid v1.3.0 generators + reference models/oracles, native go fuzz targets in the thorough tier, driven by run.py"},
    ],
    "checks": checks,
    "not_applicable": na,
    "notes": "All checks are property-based tests / fuzzing against explicit oracles (see DESIGN.md). Exit 2 = inconclusive (build failure, time budget), never a violation.",
}
with open(os.path.join(HERE, "MANIFEST.json"), "w") as f:
    json.dump(manifest, f, indent=1)
    f.write("\n")
print("checks:", [c["property_id"] for c in checks])
print("not_applicable:", [n["property_id"] for n in na])
