// Package mockstore is an in-memory logqlengine.Querier with configurable capabilities. What
// the engine offloads in SelectLogsParams the store applies itself with the reference
// matcher semantics - that is the storage contract the engine relies on.
package mockstore

import (
	"context"
	"errors"
	"sort"
	"strconv"
	"strings"

	"go.opentelemetry.io/collector/pdata/pcommon"

	"github.com/tdakkota/docker-logql/internal/iterators"
	"github.com/tdakkota/docker-logql/internal/logql"
	"github.com/tdakkota/docker-logql/internal/logql/logqlengine"
	"github.com/tdakkota/docker-logql/internal/logstorage"
	"github.com/tdakkota/docker-logql/internal/otelstorage"
	"github.com/tdakkota/docker-logql/verifharness/canon"
	"github.com/tdakkota/docker-logql/verifharness/model"
)

// Caps selects which operators the store evaluates itself: bit i of Label/Line is set for
// i = 0:"=" 1:"!=" 2:"=~" 3:"!~".
type Caps struct {
	Label int `json:"label"`
	Line  int `json:"line"`
}

var capOps = []logql.BinOp{logql.OpEq, logql.OpNotEq, logql.OpRe, logql.OpNotRe}

// ErrInjected is returned by an injected iteration fault.
var ErrInjected = errors.New("mockstore: injected fault")

// Call records one SelectLogs call.
type Call struct {
	Start, End int64
	Labels     int
	Line       int
}

// Store is the mock storage.
type Store struct {
	Recs []model.Rec // must be sorted by timestamp
	Caps Caps
	// Superset makes the store ignore the requested time range (a backend may return more
	// than was asked for on either side; dockerlog does on the left).
	Superset bool
	// FailAfter >= 0 makes iteration fail after that many records.
	FailAfter int

	Calls  []Call
	Opened int
	Closed int

	// shared holds one attribute map per distinct label set: like a real backend (dockerlog
	// hands the same resource attributes to every record of a container), records with equal
	// labels share their attributes, so an evaluation that writes into them shows on the next
	// record. pristine is a copy of each map to detect such writes.
	shared   map[string]pcommon.Map
	pristine map[string]map[string]string
}

// Mutated reports a shared attribute map that no longer holds the labels it was built from.
func (s *Store) Mutated() string {
	for k, m := range s.shared {
		want := s.pristine[k]
		if m.Len() != len(want) {
			return "label set {" + k + "} now has " + strconv.Itoa(m.Len()) + " attributes"
		}
		bad := ""
		m.Range(func(name string, v pcommon.Value) bool {
			if w, ok := want[name]; !ok || w != v.AsString() {
				bad = "label set {" + k + "}: attribute " + name + " is now " + strconv.Quote(v.AsString())
				return false
			}
			return true
		})
		if bad != "" {
			return bad
		}
	}
	return ""
}

// New creates a store over recs (sorted by time, stable).
func New(recs []model.Rec, caps Caps) *Store {
	sorted := append([]model.Rec(nil), recs...)
	sort.SliceStable(sorted, func(i, j int) bool { return sorted[i].TS < sorted[j].TS })
	return &Store{Recs: sorted, Caps: caps, FailAfter: -1}
}

// Capabilities implements logqlengine.Querier.
func (s *Store) Capabilities() (caps logqlengine.QuerierCapabilities) {
	for i, op := range capOps {
		if s.Caps.Label&(1<<i) != 0 {
			caps.Label.Add(op)
		}
		if s.Caps.Line&(1<<i) != 0 {
			caps.Line.Add(op)
		}
	}
	return caps
}

func opText(op logql.BinOp, line bool) string {
	switch op {
	case logql.OpEq:
		if line {
			return "|="
		}
		return "="
	case logql.OpNotEq:
		return "!="
	case logql.OpRe:
		if line {
			return "|~"
		}
		return "=~"
	case logql.OpNotRe:
		return "!~"
	}
	return "?"
}

// SelectLogs implements logqlengine.Querier.
func (s *Store) SelectLogs(_ context.Context, start, end otelstorage.Timestamp, params logqlengine.SelectLogsParams) (iterators.Iterator[logstorage.Record], error) {
	s.Calls = append(s.Calls, Call{Start: int64(start), End: int64(end), Labels: len(params.Labels), Line: len(params.Line)})
	var out []logstorage.Record
	for _, r := range s.Recs {
		if !s.Superset && (r.TS < int64(start) || r.TS > int64(end)) {
			continue
		}
		labels := r.BaseLabels()
		keep := true
		for _, m := range params.Labels {
			ok, err := model.MatchString(opText(m.Op, false), m.Value, labels[string(m.Label)])
			if err != nil {
				return nil, err
			}
			if !ok {
				keep = false
				break
			}
		}
		for _, f := range params.Line {
			if !keep {
				break
			}
			if f.IP {
				return nil, errors.New("mockstore: IP line filter offloaded")
			}
			ok, err := model.MatchLine(opText(f.Op, true), f.Value, string(r.Line))
			if err != nil {
				return nil, err
			}
			keep = ok
		}
		if !keep {
			continue
		}
		key := canon.LabelKey(r.Labels)
		attrs, ok := s.shared[key]
		if !ok {
			attrs = pcommon.NewMap()
			cp := map[string]string{}
			for k, v := range r.Labels {
				attrs.PutStr(k, v)
				cp[k] = v
			}
			if s.shared == nil {
				s.shared, s.pristine = map[string]pcommon.Map{}, map[string]map[string]string{}
			}
			s.shared[key], s.pristine[key] = attrs, cp
		}
		out = append(out, logstorage.Record{
			Timestamp:         pcommon.Timestamp(r.TS),
			ObservedTimestamp: pcommon.Timestamp(r.TS),
			// A copy in memory of its own: code that writes through an alias of the line (an
			// "in place" conversion of a key, say) then changes what the engine returns, not
			// what the harness compares it with.
			Body:          strings.Clone(string(r.Line)),
			ResourceAttrs: otelstorage.Attrs(attrs),
		})
	}
	s.Opened++
	return &iter{s: s, data: out}, nil
}

type iter struct {
	s      *Store
	data   []logstorage.Record
	n      int
	err    error
	closed bool
}

// ErrClosed is returned when an iterator is used after Close, as a real backend would.
var ErrClosed = errors.New("mockstore: iterator used after Close")

func (i *iter) Next(r *logstorage.Record) bool {
	if i.closed {
		i.err = ErrClosed
		return false
	}
	if i.s.FailAfter >= 0 && i.n >= i.s.FailAfter {
		i.err = ErrInjected
		return false
	}
	if i.n >= len(i.data) {
		return false
	}
	*r = i.data[i.n]
	i.n++
	return true
}

func (i *iter) Err() error { return i.err }

func (i *iter) Close() error {
	if !i.closed {
		i.closed = true
		i.s.Closed++
	}
	return nil
}
