// Package dl wires the fake daemon to the real dockerlog.Querier and the real engine.
package dl

import (
	"context"
	"time"

	"github.com/docker/docker/api/types"
	"go.opentelemetry.io/collector/pdata/pcommon"

	"github.com/tdakkota/docker-logql/internal/dockerlog"
	"github.com/tdakkota/docker-logql/internal/logql/logqlengine"
	"github.com/tdakkota/docker-logql/internal/lokiapi"
	"github.com/tdakkota/docker-logql/verifharness/fakedocker"
)

// Params are evaluation parameters in plain integers (unix nanoseconds).
type Params struct {
	Start int64 `json:"start"`
	End   int64 `json:"end"`
	Step  int64 `json:"step"`
	Limit int   `json:"limit"`
}

// Eval evaluates query against the daemon through dockerlog.Querier and logqlengine.Engine.
func Eval(d *fakedocker.Daemon, query string, p Params) (lokiapi.QueryResponseData, error) {
	q, err := dockerlog.NewQuerier(d)
	if err != nil {
		return lokiapi.QueryResponseData{}, err
	}
	eng := logqlengine.NewEngine(q, logqlengine.Options{})
	return eng.Eval(context.Background(), query, logqlengine.EvalParams{
		Start: pcommon.Timestamp(p.Start),
		End:   pcommon.Timestamp(p.End),
		Step:  time.Duration(p.Step),
		Limit: p.Limit,
	})
}

// engineSide hides the capabilities of a Querier: the engine then evaluates every selector
// matcher and line filter itself.
type engineSide struct{ logqlengine.Querier }

func (engineSide) Capabilities() logqlengine.QuerierCapabilities {
	return logqlengine.QuerierCapabilities{}
}

// EvalEngineSide is Eval with the storage's capabilities hidden from the engine.
func EvalEngineSide(d *fakedocker.Daemon, query string, p Params) (lokiapi.QueryResponseData, error) {
	q, err := dockerlog.NewQuerier(d)
	if err != nil {
		return lokiapi.QueryResponseData{}, err
	}
	eng := logqlengine.NewEngine(engineSide{q}, logqlengine.Options{})
	return eng.Eval(context.Background(), query, logqlengine.EvalParams{
		Start: pcommon.Timestamp(p.Start),
		End:   pcommon.Timestamp(p.End),
		Step:  time.Duration(p.Step),
		Limit: p.Limit,
	})
}

// Line is one log line of a fake container.
type Line struct {
	TS  int64  `json:"ts"` // unix nanoseconds
	Msg string `json:"msg"`
	Typ byte   `json:"typ"` // 0 = stdout default
	// ZoneMin writes the timestamp in a zone that many minutes east of UTC (the same instant).
	ZoneMin int `json:"zone_min,omitempty"`
}

// EncodeLog renders lines as Docker's multiplexed stream with RFC3339Nano timestamps.
func EncodeLog(lines []Line) []byte {
	var out []byte
	for _, l := range lines {
		typ := l.Typ
		if typ == 0 {
			typ = fakedocker.Stdout
		}
		ts := time.Unix(0, l.TS).UTC().Format(time.RFC3339Nano)
		if l.ZoneMin != 0 {
			ts = time.Unix(0, l.TS).In(time.FixedZone("", l.ZoneMin*60)).Format("2006-01-02T15:04:05.000000000Z07:00")
		}
		out = append(out, fakedocker.EncodeRecord(typ, ts, []byte(l.Msg))...)
	}
	return out
}

// Ctr builds a fake container with sane defaults.
func Ctr(id, name string, labels map[string]string, lines []Line) fakedocker.Container {
	return fakedocker.Container{
		Summary: types.Container{
			ID:      id,
			Names:   []string{"/" + name},
			Image:   "img",
			ImageID: "sha256:0",
			Command: "cmd",
			Created: 1,
			State:   "running",
			Status:  "Up",
			Labels:  labels,
		},
		Log:       EncodeLog(lines),
		ReadErrAt: -1,
	}
}
