// Package model is the reference semantics of LogQL used as oracle: a deliberately naive
// evaluator written from the property statements and the LogQL / Prometheus documentation.
// It trusts only the Go standard library (regexp, net/netip, strconv, time, encoding/json).
package model

import (
	"bytes"
	"encoding/base64"
	"encoding/json"
	"fmt"
	"net/netip"
	"regexp"
	"sort"
	"strconv"
	"strings"
	"time"
	"unicode/utf8"

	"github.com/tdakkota/docker-logql/verifharness/gen"
)

// Special labels.
const (
	ErrorLabel   = "__error__"
	DetailsLabel = "__error_details__"
	BodyLabel    = "msg"
)

// JV is a JSON value with a rendering the generator controls.
type JV struct {
	// K: str | num | bool | null | obj | arr
	K   string   `json:"k"`
	S   string   `json:"s,omitempty"` // string value, or the number's source text
	B   bool     `json:"b,omitempty"`
	Obj []JField `json:"obj,omitempty"`
	Arr []JV     `json:"arr,omitempty"`
}

// JField is one object member.
type JField struct {
	Key string `json:"key"`
	Val JV     `json:"val"`
}

// Render renders the value as JSON text.
func (v JV) Render() string {
	var sb strings.Builder
	v.render(&sb)
	return sb.String()
}

func jsonString(s string) string {
	var buf bytes.Buffer
	enc := json.NewEncoder(&buf)
	enc.SetEscapeHTML(false)
	_ = enc.Encode(s)
	return strings.TrimSuffix(buf.String(), "\n")
}

func (v JV) render(sb *strings.Builder) {
	switch v.K {
	case "str":
		sb.WriteString(jsonString(v.S))
	case "num":
		sb.WriteString(v.S)
	case "bool":
		sb.WriteString(strconv.FormatBool(v.B))
	case "null":
		sb.WriteString("null")
	case "obj":
		sb.WriteByte('{')
		for i, f := range v.Obj {
			if i > 0 {
				sb.WriteByte(',')
			}
			sb.WriteString(jsonString(f.Key))
			sb.WriteByte(':')
			f.Val.render(sb)
		}
		sb.WriteByte('}')
	case "arr":
		sb.WriteByte('[')
		for i, e := range v.Arr {
			if i > 0 {
				sb.WriteByte(',')
			}
			e.render(sb)
		}
		sb.WriteByte(']')
	}
}

// LabelText is the label value a scalar JSON value is exposed as ("" and false for null).
func (v JV) LabelText() (string, bool) {
	switch v.K {
	case "str":
		return v.S, true
	case "num":
		if !strings.ContainsAny(v.S, ".eE") {
			return v.S, true // integers keep their decimal text
		}
		f, err := strconv.ParseFloat(v.S, 64)
		if err != nil {
			return v.S, true
		}
		return strconv.FormatFloat(f, 'f', -1, 64), true
	case "bool":
		return strconv.FormatBool(v.B), true
	case "null":
		return "", false
	default:
		return v.Render(), true
	}
}

// Pair is one logfmt key/value pair.
type Pair struct {
	Key string `json:"key"`
	Val string `json:"val"`
}

// Doc is the structure a line was rendered from; the ground truth for parser stages.
type Doc struct {
	// Format: json | logfmt | packed
	Format string `json:"format"`
	JSON   *JV    `json:"json,omitempty"`
	Pairs  []Pair `json:"pairs,omitempty"`
	// Malformed marks a line that was damaged after rendering (the stage must flag it).
	Malformed bool `json:"malformed,omitempty"`
}

// Rec is one log record of a case.
type Rec struct {
	TS     int64    `json:"ts"`
	Line   gen.BS   `json:"line"`
	Labels LabelMap `json:"labels,omitempty"`
	Doc    *Doc     `json:"doc,omitempty"`
}

// LabelMap is a label set whose values survive a JSON round trip even when they are not valid
// UTF-8 (a replay file has to hold exactly the bytes that failed).
type LabelMap map[string]string

// MarshalJSON implements json.Marshaler.
func (m LabelMap) MarshalJSON() ([]byte, error) {
	out := make(map[string]gen.BS, len(m))
	for k, v := range m {
		out[k] = gen.BS(v)
	}
	return json.Marshal(out)
}

// UnmarshalJSON implements json.Unmarshaler.
func (m *LabelMap) UnmarshalJSON(data []byte) error {
	var in map[string]gen.BS
	if err := json.Unmarshal(data, &in); err != nil {
		return err
	}
	if in == nil {
		*m = nil
		return nil
	}
	*m = make(LabelMap, len(in))
	for k, v := range in {
		(*m)[k] = string(v)
	}
	return nil
}

// BaseLabels derives the label set of a record as the storage contract defines it: its
// attributes plus msg = body when the body is not empty.
func (r Rec) BaseLabels() map[string]string {
	m := make(map[string]string, len(r.Labels)+1)
	if r.Line != "" {
		m[BodyLabel] = string(r.Line)
	}
	// (an attribute named like the body label is written after it and stays)
	for k, v := range r.Labels {
		m[KeyToLabel(k)] = v
	}
	return m
}

// KeyToLabel is the reference sanitisation of attribute / JSON keys (see C20).
func KeyToLabel(k string) string {
	if k == "" {
		return ""
	}
	var sb strings.Builder
	if k[0] >= '0' && k[0] <= '9' {
		sb.WriteByte('_')
	}
	for _, r := range k {
		switch {
		case r >= 'a' && r <= 'z', r >= 'A' && r <= 'Z', r >= '0' && r <= '9', r == '_':
			sb.WriteRune(r)
		default:
			sb.WriteByte('_')
		}
	}
	return sb.String()
}

// Entry is one entry of a log result.
type Entry struct {
	Rec    int // index of the originating record
	TS     int64
	Line   string
	Labels map[string]string
}

// Unsupported is returned when the model is asked for something it does not define; a
// generator that triggers it is wrong, never the code under test.
type Unsupported struct{ What string }

func (u *Unsupported) Error() string { return "model: unsupported: " + u.What }

// MatchString evaluates a label matcher operator on a value. Label regexes are fully anchored.
func MatchString(op string, pattern string, value string) (bool, error) {
	switch op {
	case "=":
		return value == pattern, nil
	case "!=":
		return value != pattern, nil
	case "=~", "!~":
		re, err := regexp.Compile("^(?:" + pattern + ")$")
		if err != nil {
			return false, err
		}
		m := re.MatchString(value)
		if op == "!~" {
			m = !m
		}
		return m, nil
	}
	return false, &Unsupported{"matcher op " + op}
}

// MatchLabels tells whether all matchers hold; a missing label behaves as "".
func MatchLabels(ms []gen.Matcher, labels map[string]string) (bool, error) {
	for _, m := range ms {
		ok, err := MatchString(m.Op, string(m.Value), labels[m.Label])
		if err != nil {
			return false, err
		}
		if !ok {
			return false, nil
		}
	}
	return true, nil
}

// MatchLine evaluates a line filter operator. Line regexes are not anchored.
func MatchLine(op string, pattern string, line string) (bool, error) {
	switch op {
	case "|=":
		return strings.Contains(line, pattern), nil
	case "!=":
		return !strings.Contains(line, pattern), nil
	case "|~", "!~":
		re, err := regexp.Compile(pattern)
		if err != nil {
			return false, err
		}
		m := re.MatchString(line)
		if op == "!~" {
			m = !m
		}
		return m, nil
	}
	return false, &Unsupported{"line filter op " + op}
}

// IPPattern is a parsed ip() argument: single address, CIDR or range.
type IPPattern struct {
	addr   netip.Addr
	prefix netip.Prefix
	from   netip.Addr
	to     netip.Addr
	kind   int
}

// ParseIPPattern parses "a", "a/len" or "a-b".
func ParseIPPattern(s string) (p IPPattern, err error) {
	switch {
	case strings.Contains(s, "-"):
		a, b, _ := strings.Cut(s, "-")
		if p.from, err = netip.ParseAddr(a); err != nil {
			return p, err
		}
		if p.to, err = netip.ParseAddr(b); err != nil {
			return p, err
		}
		p.kind = 2
	case strings.Contains(s, "/"):
		if p.prefix, err = netip.ParsePrefix(s); err != nil {
			return p, err
		}
		p.kind = 1
	default:
		if p.addr, err = netip.ParseAddr(s); err != nil {
			return p, err
		}
	}
	return p, nil
}

// Contains tells whether ip is matched by the pattern.
func (p IPPattern) Contains(ip netip.Addr) bool {
	switch p.kind {
	case 1:
		return p.prefix.Contains(ip)
	case 2:
		return ip.BitLen() == p.from.BitLen() && p.from.Compare(ip) <= 0 && ip.Compare(p.to) <= 0
	default:
		return p.addr == ip
	}
}

// LineIPs returns the IP addresses in a line: maximal runs of [0-9a-fA-F:.] that parse as an
// address. Generated lines delimit addresses by characters outside that class.
func LineIPs(line string) []netip.Addr {
	var out []netip.Addr
	isIPByte := func(c byte) bool {
		return c == ':' || c == '.' || (c >= '0' && c <= '9') || (c >= 'a' && c <= 'f') || (c >= 'A' && c <= 'F')
	}
	for i := 0; i < len(line); {
		if !isIPByte(line[i]) {
			i++
			continue
		}
		j := i
		for j < len(line) && isIPByte(line[j]) {
			j++
		}
		if a, err := netip.ParseAddr(line[i:j]); err == nil {
			out = append(out, a)
		}
		i = j
	}
	return out
}

var bytesUnits = map[string]float64{
	"": 1, "b": 1,
	"kb": 1e3, "mb": 1e6, "gb": 1e9, "tb": 1e12, "pb": 1e15, "eb": 1e18,
	"kib": 1 << 10, "mib": 1 << 20, "gib": 1 << 30, "tib": 1 << 40, "pib": 1 << 50, "eib": 1 << 60,
	"k": 1e3, "g": 1e9, "t": 1e12, "p": 1e15, "e": 1e18,
	"ki": 1 << 10, "mi": 1 << 20, "gi": 1 << 30, "ti": 1 << 40, "pi": 1 << 50, "ei": 1 << 60,
}

var bytesRe = regexp.MustCompile(`^([0-9]+(?:\.[0-9]+)?) ?([A-Za-z]*)$`)

// oddBytesRe: digits, dots and commas in front of an optional unit, blanks (a trailing carriage
// return, say) around them - but not in the one shape bytesRe fixes.
var oddBytesRe = regexp.MustCompile(`^\s*[0-9.,]+\s*[A-Za-z]*\s*$`)

// ParseBytes is the harness's own SI/IEC byte-size table. ok=false means "not a byte size".
func ParseBytes(s string) (uint64, bool) {
	m := bytesRe.FindStringSubmatch(s)
	if m == nil {
		return 0, false
	}
	mult, ok := bytesUnits[strings.ToLower(m[2])]
	if !ok {
		return 0, false
	}
	f, err := strconv.ParseFloat(m[1], 64)
	if err != nil {
		return 0, false
	}
	v := f * mult
	if v >= 1<<63 {
		return 0, false
	}
	return uint64(v), true
}

func cmpOrdered[T int64 | uint64 | float64](op string, a, b T) (bool, error) {
	switch op {
	case "==":
		return a == b, nil
	case "!=":
		return a != b, nil
	case ">":
		return a > b, nil
	case ">=":
		return a >= b, nil
	case "<":
		return a < b, nil
	case "<=":
		return a <= b, nil
	}
	return false, &Unsupported{"comparison op " + op}
}

type state struct {
	line   string
	labels map[string]string
	// templated: the line was produced by a line_format template.
	templated bool
}

func (s *state) setError() {
	if _, ok := s.labels[ErrorLabel]; ok {
		return
	}
	s.labels[ErrorLabel] = "*"
	s.labels[DetailsLabel] = "*"
}

// evalPred evaluates a label predicate: keep tells whether the line survives.
func evalPred(p *gen.Pred, s *state) (keep bool, err error) {
	switch p.Kind {
	case "and":
		l, err := evalPred(p.L, s)
		if err != nil || !l {
			return false, err
		}
		return evalPred(p.R, s)
	case "or":
		l, err := evalPred(p.L, s)
		if err != nil || l {
			return l, err
		}
		return evalPred(p.R, s)
	case "match":
		op := p.Op
		if op == "==" {
			op = "="
		}
		return MatchString(op, string(p.Str), s.labels[p.Label])
	}
	// Typed comparisons: a missing label drops the line, an unparsable value keeps it and
	// flags __error__.
	v, ok := s.labels[p.Label]
	if !ok {
		return false, nil
	}
	switch p.Kind {
	case "num":
		f, perr := strconv.ParseFloat(v, 64)
		if perr != nil {
			s.setError()
			return true, nil
		}
		return cmpOrdered(p.Op, f, p.Num)
	case "dur":
		d, perr := time.ParseDuration(v)
		if perr != nil {
			s.setError()
			return true, nil
		}
		return cmpOrdered(p.Op, int64(d), p.Dur)
	case "bytes":
		b, ok := ParseBytes(v)
		if !ok && oddBytesRe.MatchString(v) {
			// ".5", "5.", "1,000", "1.2.3KB": whether such a spelling is a byte size is up to the
			// library the engine uses; the statement does not say, the model does not decide.
			return false, &Unsupported{"byte size in an unusual spelling"}
		}
		if !ok {
			s.setError()
			return true, nil
		}
		return cmpOrdered(p.Op, b, p.Bytes)
	case "ip":
		pat, perr := ParseIPPattern(string(p.Str))
		if perr != nil {
			return false, &Unsupported{"ip pattern " + string(p.Str)}
		}
		a, perr := netip.ParseAddr(v)
		if perr != nil {
			s.setError()
			return true, nil
		}
		m := pat.Contains(a)
		if p.Op == "!=" {
			m = !m
		}
		return m, nil
	}
	return false, &Unsupported{"predicate kind " + p.Kind}
}

// ExpandTemplate expands a template of the mini-grammar. failed reports a template whose
// execution fails (the stage must then leave its target unchanged and flag __error__).
func ExpandTemplate(parts []gen.TmplPart, ts int64, line string, labels map[string]string) (out string, failed bool) {
	var sb strings.Builder
	for _, t := range parts {
		switch t.Kind {
		case "lit":
			sb.WriteString(t.Text)
		case "label":
			sb.WriteString(labels[t.A])
		case "line":
			sb.WriteString(line)
		case "ts_nanos":
			sb.WriteString(strconv.FormatInt(ts, 10))
		case "ts_unix":
			sb.WriteString(strconv.FormatInt(time.Unix(0, ts).Unix(), 10))
		case "upper", "ToUpper":
			sb.WriteString(strings.ToUpper(labels[t.A]))
		case "lower", "ToLower":
			sb.WriteString(strings.ToLower(labels[t.A]))
		case "printf2":
			sb.WriteString(labels[t.A] + "-" + labels[t.B])
		case "default":
			if v := labels[t.A]; v != "" {
				sb.WriteString(v)
			} else {
				sb.WriteString(t.Text)
			}
		case "trim":
			sb.WriteString(strings.TrimSpace(labels[t.A]))
		case "unix_of_label":
			// unixToTime reads the unit off the number of digits: 5 days, 10 seconds, 13
			// milliseconds, 16 microseconds, 19 nanoseconds since the epoch; anything else fails.
			v := labels[t.A]
			n, err := strconv.ParseInt(v, 10, 64)
			if err != nil {
				return "", true
			}
			var sec int64
			switch len(v) {
			case 5:
				sec = n * 86400
			case 10:
				sec = n
			case 13:
				sec = time.UnixMilli(n).Unix()
			case 16:
				sec = time.UnixMicro(n).Unix()
			case 19:
				sec = time.Unix(0, n).Unix()
			default:
				return "", true
			}
			sb.WriteString(strconv.FormatInt(sec, 10))
		case "ts_millis":
			sb.WriteString(strconv.FormatInt(time.Unix(0, ts).UnixMilli(), 10))
		case "alignLeft", "alignRight":
			sb.WriteString(alignText(t.Kind == "alignLeft", t.N, labels[t.A]))
		case "replace":
			sb.WriteString(strings.ReplaceAll(labels[t.A], t.Text, t.Text2))
		case "trimPrefix":
			sb.WriteString(strings.TrimPrefix(labels[t.A], t.Text))
		case "trimSuffix":
			sb.WriteString(strings.TrimSuffix(labels[t.A], t.Text))
		case "root_index":
			sb.WriteString(labels[t.A])
		case "b64enc":
			sb.WriteString(base64.StdEncoding.EncodeToString([]byte(labels[t.A])))
		case "if_contains":
			if strings.Contains(labels[t.A], t.Text) {
				sb.WriteString("Y")
			} else {
				sb.WriteString("N")
			}
		case "regex_wrap":
			sb.WriteString(regexWrapRe.ReplaceAllString(labels[t.A], "<$1>"))
		case "regex_wrap_literal":
			sb.WriteString(regexWrapRe.ReplaceAllLiteralString(labels[t.A], "<$1>"))
		case "regex_count":
			sb.WriteString(strconv.Itoa(len(regexCountRe.FindAllStringIndex(labels[t.A], -1))))
		case "fail_unixToTime", "fail_regex", "fail_field", "fail_argtype", "fail_argcount", "fail_index":
			return "", true
		}
	}
	return sb.String(), false
}

var regexWrapRe = regexp.MustCompile("([a-z0-9])")
var regexCountRe = regexp.MustCompile("[a-z0-9]+")

// alignText is Loki's alignLeft / alignRight: the first (last) n characters of s when it is
// longer, s padded with blanks on the right (left) to n characters when it is shorter; a
// negative n leaves s alone. A byte that is not part of a valid UTF-8 sequence counts as one
// character.
func alignText(left bool, n int, s string) string {
	if n < 0 {
		return s
	}
	var chars []string
	for i := 0; i < len(s); {
		_, size := utf8.DecodeRuneInString(s[i:])
		chars = append(chars, s[i:i+size])
		i += size
	}
	if len(chars) > n {
		if left {
			return strings.Join(chars[:n], "")
		}
		return strings.Join(chars[len(chars)-n:], "")
	}
	pad := strings.Repeat(" ", n-len(chars))
	if left {
		return s + pad
	}
	return pad + s
}

// jsonPath evaluates a path of the JSON expression mini-language on v.
type pathSel struct {
	key   string
	index int
	isKey bool
}

var pathTokRe = regexp.MustCompile(`^(?:\.?([A-Za-z_][A-Za-z0-9_]*)|\[([0-9]+)\]|\["((?:[^"\\]|\\.)*)"\])`)

func parsePath(expr string) ([]pathSel, error) {
	var out []pathSel
	rest := expr
	for rest != "" {
		m := pathTokRe.FindStringSubmatch(rest)
		if m == nil {
			return nil, fmt.Errorf("bad path %q", expr)
		}
		switch {
		case m[1] != "":
			out = append(out, pathSel{key: m[1], isKey: true})
		case m[2] != "":
			n, _ := strconv.Atoi(m[2])
			out = append(out, pathSel{index: n})
		default:
			k, err := strconv.Unquote(`"` + m[3] + `"`)
			if err != nil {
				return nil, err
			}
			out = append(out, pathSel{key: k, isKey: true})
		}
		rest = rest[len(m[0]):]
	}
	return out, nil
}

func (v JV) lookup(path []pathSel) (JV, bool) {
	cur := v
	for _, s := range path {
		if s.isKey {
			if cur.K != "obj" {
				return JV{}, false
			}
			found := false
			for _, f := range cur.Obj {
				if f.Key == s.key {
					cur, found = f.Val, true
					break
				}
			}
			if !found {
				return JV{}, false
			}
		} else {
			if cur.K != "arr" || s.index >= len(cur.Arr) {
				return JV{}, false
			}
			cur = cur.Arr[s.index]
		}
	}
	return cur, true
}

// patternMatch is the reference matcher for the pattern stage: literals must match in order,
// a capture takes everything up to the first occurrence of the following literal, the last
// capture takes the rest. ok=false means the line does not match.
func patternMatch(pattern, line string) (map[string]string, bool) {
	type part struct {
		lit     string
		capture string
		isCap   bool
	}
	var parts []part
	capRe := regexp.MustCompile(`<([A-Za-z_][A-Za-z0-9_]*)>`)
	rest := pattern
	for rest != "" {
		loc := capRe.FindStringSubmatchIndex(rest)
		if loc == nil {
			parts = append(parts, part{lit: rest})
			break
		}
		if loc[0] > 0 {
			parts = append(parts, part{lit: rest[:loc[0]]})
		}
		parts = append(parts, part{capture: rest[loc[2]:loc[3]], isCap: true})
		rest = rest[loc[1]:]
	}
	out := map[string]string{}
	in := line
	for i, p := range parts {
		if !p.isCap {
			if !strings.HasPrefix(in, p.lit) {
				return nil, false
			}
			in = in[len(p.lit):]
			continue
		}
		var val string
		if i+1 < len(parts) {
			idx := strings.Index(in, parts[i+1].lit)
			if idx < 0 {
				return nil, false
			}
			val = in[:idx]
		} else {
			val = in
		}
		in = in[len(val):]
		if p.capture != "_" {
			out[p.capture] = val
		}
	}
	return out, true
}

var ansiRe = regexp.MustCompile("\x1b\\[[0-9;]*m")

// Pipeline is a compiled pipeline carrying the state of stateful stages (distinct).
type Pipeline struct {
	stages   []gen.Stage
	distinct []map[string]struct{}
}

// NewPipeline prepares stages for evaluation.
func NewPipeline(stages []gen.Stage) *Pipeline {
	return &Pipeline{stages: stages, distinct: make([]map[string]struct{}, len(stages))}
}

// Process runs one record through the pipeline.
func (p *Pipeline) Process(rec Rec, ts int64, line string, labels map[string]string) (string, map[string]string, bool, error) {
	s := &state{line: line, labels: labels}
	for i, st := range p.stages {
		keep, err := p.stage(i, st, rec, ts, s)
		if err != nil {
			return "", nil, false, err
		}
		if !keep {
			return "", nil, false, nil
		}
	}
	return s.line, s.labels, true, nil
}

func (p *Pipeline) stage(i int, st gen.Stage, rec Rec, ts int64, s *state) (bool, error) {
	switch st.Kind {
	case "linefilter":
		return MatchLine(st.Op, string(st.Value), s.line)
	case "ipfilter":
		pat, err := ParseIPPattern(string(st.Value))
		if err != nil {
			return false, &Unsupported{"ip pattern " + string(st.Value)}
		}
		if s.templated {
			// A template may glue an address to hex-looking text ("10.0.0.1" + "dev"): whether
			// that still is an address is outside what the generator guarantees.
			return false, &Unsupported{"ip() filter over a line rewritten by a template"}
		}
		ips := LineIPs(s.line)
		switch st.Op {
		case "|=":
			for _, a := range ips {
				if pat.Contains(a) {
					return true, nil
				}
			}
			return false, nil
		case "!=":
			// Only defined by the generator for lines with exactly one address.
			if len(ips) != 1 {
				return false, &Unsupported{"!= ip() over a line with " + strconv.Itoa(len(ips)) + " addresses"}
			}
			return !pat.Contains(ips[0]), nil
		}
		return false, &Unsupported{"ip filter op " + st.Op}
	case "labelfilter":
		return evalPred(st.Pred, s)
	case "json":
		return true, p.json(st, rec, s)
	case "logfmt":
		return true, p.logfmt(st, rec, s)
	case "regexp":
		re, err := regexp.Compile(st.Regex)
		if err != nil {
			return false, err
		}
		m := re.FindStringSubmatch(s.line)
		if m != nil {
			for gi, name := range re.SubexpNames() {
				if name != "" {
					s.labels[name] = m[gi]
				}
			}
		}
		return true, nil
	case "pattern":
		caps, ok := patternMatch(st.Pattern, s.line)
		if !ok {
			return false, &Unsupported{"pattern stage over a non-matching line"}
		}
		for k, v := range caps {
			s.labels[k] = v
		}
		return true, nil
	case "unpack":
		return true, p.unpack(rec, s)
	case "line_format":
		out, failed := ExpandTemplate(st.Tmpl, ts, s.line, s.labels)
		if failed {
			s.setError()
			return true, nil
		}
		s.line = out
		s.templated = true
		return true, nil
	case "label_format":
		for _, r := range st.Renames {
			if v, ok := s.labels[r.Src]; ok {
				s.labels[r.Dst] = v
				if r.Dst != r.Src {
					delete(s.labels, r.Src)
				}
			}
		}
		// Templates of one stage see the labels as they are after the renames and before
		// any template of the same stage (generators never make one depend on another).
		snapshot := make(map[string]string, len(s.labels))
		for k, v := range s.labels {
			snapshot[k] = v
		}
		for _, t := range st.Templates {
			out, failed := ExpandTemplate(t.Tmpl, ts, s.line, snapshot)
			if failed {
				s.setError()
				continue
			}
			s.labels[t.Dst] = out
		}
		return true, nil
	case "drop", "keep":
		names := map[string]bool{}
		for _, l := range st.Labels {
			names[l] = true
		}
		for k, v := range s.labels {
			selected := names[k]
			hasMatcher := false
			all := true
			for _, m := range st.Matchers {
				if m.Label != k {
					continue
				}
				hasMatcher = true
				ok, err := MatchString(m.Op, string(m.Value), v)
				if err != nil {
					return false, err
				}
				all = all && ok
			}
			if hasMatcher && !names[k] {
				selected = all
			}
			if (st.Kind == "drop") == selected {
				delete(s.labels, k)
			}
		}
		return true, nil
	case "decolorize":
		s.line = ansiRe.ReplaceAllString(s.line, "")
		return true, nil
	case "distinct":
		if p.distinct[i] == nil {
			p.distinct[i] = map[string]struct{}{}
		}
		keep := false
		for _, l := range st.Labels {
			v, ok := s.labels[l]
			if !ok {
				return true, nil
			}
			key := l + "\x00" + v
			if _, dup := p.distinct[i][key]; dup {
				return false, nil
			}
			p.distinct[i][key] = struct{}{}
			keep = true
		}
		return keep, nil
	}
	return false, &Unsupported{"stage kind " + st.Kind}
}

func (p *Pipeline) json(st gen.Stage, rec Rec, s *state) error {
	doc := rec.Doc
	if doc == nil || doc.Format != "json" || doc.Malformed || doc.JSON == nil {
		// Not a JSON document: the line is kept and flagged.
		s.setError()
		return nil
	}
	if s.line != string(rec.Line) {
		return &Unsupported{"json stage after a line-rewriting stage"}
	}
	root := *doc.JSON
	switch {
	case len(st.Exprs) > 0:
		type want struct {
			label string
			path  []pathSel
		}
		var wants []want
		for _, e := range st.Exprs {
			path, err := parsePath(e.Expr)
			if err != nil {
				return &Unsupported{err.Error()}
			}
			wants = append(wants, want{e.Label, path})
		}
		for _, l := range st.Labels {
			wants = append(wants, want{l, []pathSel{{key: l, isKey: true}}})
		}
		for _, w := range wants {
			v, ok := root.lookup(w.path)
			if !ok {
				continue
			}
			switch v.K {
			case "null":
				return &Unsupported{"json expression selecting null"}
			case "obj", "arr":
				s.labels[w.label] = v.Render()
			case "num":
				s.labels[w.label] = v.S
			default:
				txt, _ := v.LabelText()
				s.labels[w.label] = txt
			}
		}
	case len(st.Labels) > 0:
		if root.K != "obj" {
			s.setError()
			return nil
		}
		want := map[string]bool{}
		for _, l := range st.Labels {
			want[l] = true
		}
		for _, f := range root.Obj {
			if !want[f.Key] {
				continue
			}
			if txt, ok := f.Val.LabelText(); ok {
				s.labels[f.Key] = txt
			}
		}
	default:
		if root.K != "obj" {
			s.setError()
			return nil
		}
		for _, f := range root.Obj {
			if txt, ok := f.Val.LabelText(); ok {
				s.labels[KeyToLabel(f.Key)] = txt
			}
		}
	}
	return nil
}

func (p *Pipeline) logfmt(st gen.Stage, rec Rec, s *state) error {
	doc := rec.Doc
	if doc == nil || doc.Format != "logfmt" {
		return &Unsupported{"logfmt stage over a line that was not rendered as logfmt"}
	}
	if doc.Malformed {
		s.setError()
		return nil
	}
	if s.line != string(rec.Line) {
		return &Unsupported{"logfmt stage after a line-rewriting stage"}
	}
	if len(st.Labels) == 0 && len(st.Exprs) == 0 {
		for _, kv := range doc.Pairs {
			s.labels[kv.Key] = kv.Val
		}
		return nil
	}
	target := map[string]string{}
	for _, l := range st.Labels {
		target[l] = l
	}
	for _, e := range st.Exprs {
		target[e.Expr] = e.Label
	}
	for _, kv := range doc.Pairs {
		if dst, ok := target[kv.Key]; ok {
			s.labels[dst] = kv.Val
		}
	}
	return nil
}

func (p *Pipeline) unpack(rec Rec, s *state) error {
	doc := rec.Doc
	if doc == nil || doc.Format != "packed" || doc.Malformed || doc.JSON == nil || doc.JSON.K != "obj" {
		s.setError()
		return nil
	}
	if s.line != string(rec.Line) {
		return &Unsupported{"unpack stage after a line-rewriting stage"}
	}
	for _, f := range doc.JSON.Obj {
		if f.Val.K != "str" {
			continue // non-string members are ignored
		}
		if f.Key == "_entry" {
			s.line = f.Val.S
			continue
		}
		s.labels[f.Key] = f.Val.S
	}
	return nil
}

// EvalLog evaluates a log query over records (in the given order): selector, then pipeline.
func EvalLog(q *gen.LogQuery, recs []Rec) ([]Entry, error) {
	pipe := NewPipeline(q.Stages)
	var out []Entry
	for i, r := range recs {
		labels := r.BaseLabels()
		ok, err := MatchLabels(q.Sel, labels)
		if err != nil {
			return nil, err
		}
		if !ok {
			continue
		}
		line, labels, keep, err := pipe.Process(r, r.TS, string(r.Line), labels)
		if err != nil {
			return nil, err
		}
		if !keep {
			continue
		}
		out = append(out, Entry{Rec: i, TS: r.TS, Line: line, Labels: labels})
	}
	return out, nil
}

// NormLabels returns a copy of labels with the implementation-chosen texts of the error
// labels replaced by "*" (only their presence is specified).
func NormLabels(m map[string]string) map[string]string {
	out := make(map[string]string, len(m))
	for k, v := range m {
		if k == ErrorLabel || k == DetailsLabel {
			v = "*"
		}
		out[k] = v
	}
	return out
}

// SortRecs orders records by timestamp (stable), the order a storage returns them in.
func SortRecs(recs []Rec) {
	sort.SliceStable(recs, func(i, j int) bool { return recs[i].TS < recs[j].TS })
}
