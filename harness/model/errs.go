package model

import "math"

// Error bounds of the reference evaluation.
//
// The statement of the metric properties is about real-number semantics; the engine and this
// model are two floating-point evaluations of it that are free to differ in the order of a
// summation (the engine visits series in map-iteration order) and in the algorithm (the engine
// uses a streaming mean and Welford's variance, the model two passes). Each Sample therefore
// carries a first-order bound E on the distance between any such evaluation and V, propagated
// through the expression with the standard running-error rules and a generous constant, and
// comparisons with the engine allow E on top of the base tolerance. Where an operator is not
// continuous (comparisons, x/0, modulo, a power of a negative base) and its operands are
// closer to the discontinuity than their bounds, the result is marked undecidable instead of
// being guessed.
//
// Sums of integer-valued terms below 2^52 (counts, byte sizes) are exact in both evaluations
// and get E = 0, and so does an arithmetic operator applied to two exact operands (one correctly
// rounded IEEE operation has one answer): such points are compared for equality, not within a
// tolerance, so that "x / 3" computed as "x * (1/3)" shows.

const (
	ulp      = 1.0 / (1 << 52)
	roundErr = 16 * ulp // one operation, with the safety factor
)

func maxOf(vals []float64) float64 {
	m := 0.0
	for _, v := range vals {
		if v > m || math.IsNaN(v) {
			m = v
		}
	}
	return m
}

func maxAbs(vals []float64) float64 {
	m := 0.0
	for _, v := range vals {
		if a := math.Abs(v); a > m {
			m = a
		}
	}
	return m
}

func sumAbs(vals []float64) float64 {
	s := 0.0
	for _, v := range vals {
		s += math.Abs(v)
	}
	return s
}

func exactInts(vals, errs []float64) bool {
	for _, e := range errs {
		if e != 0 {
			return false
		}
	}
	for _, v := range vals {
		if v != math.Trunc(v) {
			return false
		}
	}
	return sumAbs(vals) < 1<<52
}

// sumErr bounds a sum of n terms with input bounds errs (nil: exact inputs).
func sumErr(vals, errs []float64) float64 {
	if exactInts(vals, errs) {
		return 0
	}
	return sum(errs) + roundErr*float64(len(vals))*sumAbs(vals)
}

// meanErr bounds a mean (the engine's is a streaming mean, never exact).
func meanErr(vals, errs []float64) float64 {
	return maxOf(errs) + roundErr*float64(len(vals))*maxAbs(vals)
}

// varErr bounds a population variance computed by two passes or by Welford's recurrence:
// the mean is off by about n*u*max|x|, which enters the squares through the deviations.
func varErr(vals, errs []float64) float64 {
	n := float64(len(vals))
	m := mean(vals)
	dev := 0.0
	for _, v := range vals {
		if d := math.Abs(v - m); d > dev {
			dev = d
		}
	}
	ein := maxOf(errs)
	em := roundErr * n * maxAbs(vals) // error of the mean
	dev += ein + em
	// perturbation of the inputs + error of the mean + rounding of the squares
	return 2*dev*ein + ein*ein + 2*em*dev + em*em + roundErr*n*dev*dev
}

// sqrtErr returns sqrt(v) and its bound given the bound ev of v >= 0.
func sqrtErr(v, ev float64) (float64, float64) {
	r := math.Sqrt(v)
	if math.IsNaN(r) || math.IsInf(r, 0) {
		return r, 0
	}
	// sqrt(v+ev) - sqrt(v) <= sqrt(ev) always, and <= ev/(2 sqrt(v-ev)) away from zero.
	e := math.Sqrt(ev)
	if v > 2*ev {
		e = math.Min(e, ev/math.Sqrt(v-ev))
	}
	return r, e + roundErr*r
}

// quotErr divides by an exact positive constant.
func quotErr(v, e, d float64) (float64, float64) {
	q := v / d
	return q, e/d + roundErr*math.Abs(q)
}

func finite(x float64) bool { return !math.IsNaN(x) && !math.IsInf(x, 0) }

// binErr bounds res = l op r given the bounds of the operands; unc tells that the operands are
// too close to a discontinuity of op for the result to be decided.
func binErr(op string, l, el, r, er, res float64) (e float64, unc bool) {
	if math.IsNaN(l) || math.IsNaN(r) {
		// NaN propagates through arithmetic and fails every comparison but != whatever the
		// other operand is.
		return 0, false
	}
	if !finite(l) || !finite(r) {
		// An infinite operand decides additions, subtractions and comparisons by itself; for
		// the other operators the sign or the zero-ness of the finite operand matters.
		switch op {
		case "+", "-", "==", "!=", ">", ">=", "<", "<=":
			return 0, false
		case "*":
			return 0, (finite(l) && math.Abs(l) <= 2*el) || (finite(r) && math.Abs(r) <= 2*er)
		case "/":
			return 0, finite(r) && math.Abs(r) <= 2*er
		}
		return 0, el > 0 || er > 0
	}
	exact := el == 0 && er == 0
	switch op {
	case "+", "-":
		if exact {
			return 0, false // one correctly rounded IEEE operation over the same two operands
		}
		return el + er + roundErr*math.Abs(res), false
	case "*":
		if exact {
			return 0, false
		}
		return math.Abs(l)*er + math.Abs(r)*el + el*er + roundErr*math.Abs(res), false
	case "/":
		if math.Abs(r) <= 2*er {
			return 0, true // the divisor may be zero: NaN, or a huge value of either sign
		}
		if !finite(res) {
			return 0, !exact
		}
		if exact {
			return 0, false // the quotient of two given floats is one float, not a neighbour of it
		}
		return (el+math.Abs(res)*er)/(math.Abs(r)-er) + roundErr*math.Abs(res), false
	case "%":
		if exact {
			return 0, false // math.Mod is exact
		}
		if math.Abs(r) <= 2*er {
			return 0, true
		}
		q := l / r
		eq := (el+math.Abs(q)*er)/(math.Abs(r)-er) + roundErr*math.Abs(q)
		if math.Abs(q-math.Round(q)) <= 2*eq {
			return 0, true // next to a multiple of the divisor: the remainder jumps
		}
		return el + (math.Abs(math.Trunc(q))+1)*er + roundErr*math.Abs(l), false
	case "^":
		if exact {
			return 0, false // the same math.Pow call in both evaluations
		}
		if !finite(res) {
			return 0, true
		}
		if l-el <= 0 && (er > 0 || r != math.Trunc(r)) {
			return 0, true // a base that may be negative or zero under an inexact or fractional exponent
		}
		// Largest change over the corners of the operand box (the function is monotone in
		// each argument on either side of zero; zero itself is added when the box holds it).
		worst := 0.0
		for _, b := range []float64{l - el, l + el, 0} {
			if b == 0 && !(l-el < 0 && l+el > 0) {
				continue
			}
			for _, x := range []float64{r - er, r + er} {
				p := math.Pow(b, x)
				if !finite(p) {
					return 0, true
				}
				worst = math.Max(worst, math.Abs(p-res))
			}
		}
		return 2*worst + roundErr*math.Abs(res), false
	case "==", "!=", ">", ">=", "<", "<=":
		if exact {
			return 0, false
		}
		return 0, math.Abs(l-r) <= 2*(el+er)
	}
	return 0, false
}
