package model

import (
	"math"
	"sort"
	"strconv"
	"time"

	"github.com/tdakkota/docker-logql/verifharness/canon"
	"github.com/tdakkota/docker-logql/verifharness/gen"
)

// Sample is one series value at one evaluation time.
//
// E bounds how far a correct floating-point evaluation of the same expression may lie from V
// (different but equally valid orders of summation, a streaming instead of a two-pass mean or
// variance): a first-order running error bound with a generous constant, see errs.go. Unc
// tells that the value cannot be decided at all within those bounds: a comparison of two
// values closer than their errors, a division by a value that may be zero, a modulo next to a
// multiple of the divisor.
type Sample struct {
	Labels map[string]string
	V      float64
	E      float64
	Unc    bool
}

// Value is the result of evaluating a metric expression at one time: a scalar or a vector.
type Value struct {
	Scalar bool
	S      float64
	Vec    []Sample
	// Ordered tells that the order of Vec is meaningful (sort / sort_desc).
	Ordered bool
}

// Params are evaluation parameters (unix nanoseconds).
type Params struct {
	Start int64 `json:"start"`
	End   int64 `json:"end"`
	Step  int64 `json:"step"`
	Limit int   `json:"limit,omitempty"`
}

// Instant tells whether the parameters denote an instant query.
func (p Params) Instant() bool { return p.Start == p.End && p.Step == 0 }

// Steps returns the evaluation grid: start + k*step <= end.
func (p Params) Steps() []int64 {
	if p.Instant() {
		return []int64{p.Start}
	}
	if p.Step <= 0 {
		return nil
	}
	var out []int64
	for t := p.Start; t <= p.End; t += p.Step {
		out = append(out, t)
	}
	return out
}

type sampled struct {
	ts     int64
	v      float64
	labels map[string]string
	key    string
}

// Evaluator evaluates metric expressions over a fixed record set. Range selections are
// computed once per range node (the pipeline is stateless in generated metric queries).
type Evaluator struct {
	recs  []Rec
	cache map[*gen.Metric][]sampled
}

// NewEvaluator creates an evaluator; recs must be in storage (time) order.
func NewEvaluator(recs []Rec) *Evaluator {
	return &Evaluator{recs: recs, cache: map[*gen.Metric][]sampled{}}
}

func convert(conv, s string) (float64, bool) {
	switch conv {
	case "":
		f, err := strconv.ParseFloat(s, 64)
		return f, err == nil
	case "bytes":
		b, ok := ParseBytes(s)
		return float64(b), ok
	case "duration", "duration_seconds":
		d, err := time.ParseDuration(s)
		return d.Seconds(), err == nil
	}
	return 0, false
}

func restrict(labels map[string]string, g *gen.Grouping) map[string]string {
	if g == nil {
		return labels
	}
	out := map[string]string{}
	if g.Without {
		drop := map[string]bool{}
		for _, l := range g.Labels {
			drop[l] = true
		}
		for k, v := range labels {
			if !drop[k] {
				out[k] = v
			}
		}
		return out
	}
	for _, l := range g.Labels {
		if v, ok := labels[l]; ok {
			out[l] = v
		}
	}
	return out
}

func (e *Evaluator) samples(m *gen.Metric) ([]sampled, error) {
	if s, ok := e.cache[m]; ok {
		return s, nil
	}
	for _, st := range m.Log.Stages {
		if st.Kind == "distinct" {
			return nil, &Unsupported{"distinct inside a metric query"}
		}
	}
	entries, err := EvalLog(m.Log, e.recs)
	if err != nil {
		return nil, err
	}
	var out []sampled
	for _, en := range entries {
		var v float64
		switch m.Op {
		case "count_over_time", "rate":
			v = 1
			if m.Op == "rate" && m.Unwrap != nil {
				v = math.NaN() // replaced below
			}
		case "bytes_over_time", "bytes_rate":
			v = float64(len(en.Line))
		}
		if u := m.Unwrap; u != nil {
			raw, ok := en.Labels[u.Label]
			if !ok {
				continue // no such label: the entry yields no sample
			}
			f, ok := convert(u.Conv, raw)
			if !ok {
				return nil, &Unsupported{"unwrap of an inconvertible value " + strconv.Quote(raw)}
			}
			keep, err := MatchLabels(u.Filters, en.Labels)
			if err != nil {
				return nil, err
			}
			if !keep {
				continue
			}
			v = f
		}
		labels := restrict(en.Labels, m.Grouping)
		out = append(out, sampled{ts: en.TS, v: v, labels: labels, key: canon.LabelKey(NormLabels(labels))})
	}
	e.cache[m] = out
	return out, nil
}

// RangeWindow returns the closed window of a range aggregation evaluated at T.
func RangeWindow(m *gen.Metric, t int64) (from, to int64) {
	o := int64(0)
	if m.HasOffset {
		o = m.OffsetNs
	}
	return t - o - m.RangeNs, t - o
}

func quantile(q float64, vals []float64) float64 {
	if len(vals) == 0 || math.IsNaN(q) {
		return math.NaN()
	}
	if q < 0 {
		return math.Inf(-1)
	}
	if q > 1 {
		return math.Inf(1)
	}
	s := append([]float64(nil), vals...)
	sort.Float64s(s)
	rank := q * float64(len(s)-1)
	lo := math.Floor(rank)
	hi := math.Min(float64(len(s)-1), lo+1)
	w := rank - lo
	return s[int(lo)]*(1-w) + s[int(hi)]*w
}

func mean(vals []float64) float64 {
	var sum float64
	for _, v := range vals {
		sum += v
	}
	return sum / float64(len(vals))
}

func variance(vals []float64) float64 {
	m := mean(vals)
	var acc float64
	for _, v := range vals {
		acc += (v - m) * (v - m)
	}
	return acc / float64(len(vals))
}

func sum(vals []float64) float64 {
	var s float64
	for _, v := range vals {
		s += v
	}
	return s
}

func (e *Evaluator) rangeAt(m *gen.Metric, t int64) (Value, error) {
	all, err := e.samples(m)
	if err != nil {
		return Value{}, err
	}
	from, to := RangeWindow(m, t)
	type series struct {
		labels map[string]string
		pts    []sampled
	}
	groups := map[string]*series{}
	var order []string
	for _, s := range all {
		if s.ts < from || s.ts > to {
			continue
		}
		g, ok := groups[s.key]
		if !ok {
			g = &series{labels: s.labels}
			groups[s.key] = g
			order = append(order, s.key)
		}
		g.pts = append(g.pts, s)
	}
	rangeSecs := float64(m.RangeNs) / 1e9
	var out []Sample
	for _, k := range order {
		g := groups[k]
		vals := make([]float64, len(g.pts))
		for i, p := range g.pts {
			vals[i] = p.v
		}
		var v, e float64
		switch m.Op {
		case "count_over_time":
			v = float64(len(vals))
		case "rate":
			if m.Unwrap != nil {
				v, e = quotErr(sum(vals), sumErr(vals, nil), rangeSecs)
			} else {
				v, e = quotErr(float64(len(vals)), 0, rangeSecs)
			}
		case "bytes_over_time", "sum_over_time":
			v, e = sum(vals), sumErr(vals, nil)
		case "bytes_rate":
			v, e = quotErr(sum(vals), sumErr(vals, nil), rangeSecs)
		case "avg_over_time":
			v, e = mean(vals), meanErr(vals, nil)
		case "min_over_time":
			v = vals[0]
			for _, x := range vals {
				v = math.Min(v, x)
			}
		case "max_over_time":
			v = vals[0]
			for _, x := range vals {
				v = math.Max(v, x)
			}
		case "stdvar_over_time":
			v, e = variance(vals), varErr(vals, nil)
		case "stddev_over_time":
			v, e = sqrtErr(variance(vals), varErr(vals, nil))
		case "quantile_over_time":
			v, e = quantile(m.Param, vals), roundErr*maxAbs(vals)
		case "first_over_time", "last_over_time":
			// The generator keeps timestamps of one series distinct for these functions.
			best := g.pts[0]
			for _, p := range g.pts {
				if m.Op == "first_over_time" && p.ts < best.ts || m.Op == "last_over_time" && p.ts > best.ts {
					best = p
				}
			}
			n := 0
			for _, p := range g.pts {
				if p.ts == best.ts {
					n++
				}
			}
			if n > 1 {
				return Value{}, &Unsupported{"first/last over tied timestamps"}
			}
			v = best.v
		default:
			return Value{}, &Unsupported{"range function " + m.Op}
		}
		out = append(out, Sample{Labels: g.labels, V: v, E: e})
	}
	return Value{Vec: out}, nil
}

// BinArith applies an arithmetic or comparison operator the way the statement defines it:
// x/0 and x%0 are NaN, comparisons give 1 where they hold and 0 elsewhere.
func BinArith(op string, l, r float64) (float64, error) {
	b := func(c bool) float64 {
		if c {
			return 1
		}
		return 0
	}
	switch op {
	case "+":
		return l + r, nil
	case "-":
		return l - r, nil
	case "*":
		return l * r, nil
	case "/":
		if r == 0 {
			return math.NaN(), nil
		}
		return l / r, nil
	case "%":
		if r == 0 {
			return math.NaN(), nil
		}
		return math.Mod(l, r), nil
	case "^":
		return math.Pow(l, r), nil
	case "==":
		return b(l == r), nil
	case "!=":
		return b(l != r), nil
	case ">":
		return b(l > r), nil
	case ">=":
		return b(l >= r), nil
	case "<":
		return b(l < r), nil
	case "<=":
		return b(l <= r), nil
	}
	return 0, &Unsupported{"binary operator " + op}
}

func isSetOp(op string) bool { return op == "and" || op == "or" || op == "unless" }

func (e *Evaluator) binop(m *gen.Metric, t int64) (Value, error) {
	if m.Bool || m.OnOp != "" {
		return Value{}, &Unsupported{"binary operation modifiers"}
	}
	l, err := e.At(m.L, t)
	if err != nil {
		return Value{}, err
	}
	r, err := e.At(m.R, t)
	if err != nil {
		return Value{}, err
	}
	if isSetOp(m.Op) {
		if l.Scalar || r.Scalar {
			return Value{}, &Unsupported{"set operator over a scalar"}
		}
		rk := map[string]bool{}
		for _, s := range r.Vec {
			rk[canon.LabelKey(NormLabels(s.Labels))] = true
		}
		lk := map[string]bool{}
		for _, s := range l.Vec {
			lk[canon.LabelKey(NormLabels(s.Labels))] = true
		}
		var out []Sample
		switch m.Op {
		case "and":
			for _, s := range l.Vec {
				if rk[canon.LabelKey(NormLabels(s.Labels))] {
					out = append(out, s)
				}
			}
		case "unless":
			for _, s := range l.Vec {
				if !rk[canon.LabelKey(NormLabels(s.Labels))] {
					out = append(out, s)
				}
			}
		case "or":
			out = append(out, l.Vec...)
			for _, s := range r.Vec {
				if !lk[canon.LabelKey(NormLabels(s.Labels))] {
					out = append(out, s)
				}
			}
		}
		return Value{Vec: out}, nil
	}
	switch {
	case l.Scalar && r.Scalar:
		return Value{}, &Unsupported{"scalar-scalar operation"}
	case l.Scalar:
		var out []Sample
		for _, s := range r.Vec {
			v, err := BinArith(m.Op, l.S, s.V)
			if err != nil {
				return Value{}, err
			}
			e, unc := binErr(m.Op, l.S, 0, s.V, s.E, v)
			out = append(out, Sample{Labels: s.Labels, V: v, E: e, Unc: unc || s.Unc})
		}
		return Value{Vec: out}, nil
	case r.Scalar:
		var out []Sample
		for _, s := range l.Vec {
			v, err := BinArith(m.Op, s.V, r.S)
			if err != nil {
				return Value{}, err
			}
			e, unc := binErr(m.Op, s.V, s.E, r.S, 0, v)
			out = append(out, Sample{Labels: s.Labels, V: v, E: e, Unc: unc || s.Unc})
		}
		return Value{Vec: out}, nil
	}
	right := map[string]Sample{}
	for _, s := range r.Vec {
		right[canon.LabelKey(NormLabels(s.Labels))] = s
	}
	var out []Sample
	for _, s := range l.Vec {
		rs, ok := right[canon.LabelKey(NormLabels(s.Labels))]
		if !ok {
			continue
		}
		v, err := BinArith(m.Op, s.V, rs.V)
		if err != nil {
			return Value{}, err
		}
		e, unc := binErr(m.Op, s.V, s.E, rs.V, rs.E, v)
		out = append(out, Sample{Labels: s.Labels, V: v, E: e, Unc: unc || s.Unc || rs.Unc})
	}
	return Value{Vec: out}, nil
}

func (e *Evaluator) vecagg(m *gen.Metric, t int64) (Value, error) {
	in, err := e.At(m.Inner, t)
	if err != nil {
		return Value{}, err
	}
	if in.Scalar {
		return Value{}, &Unsupported{"vector aggregation over a scalar"}
	}
	type group struct {
		labels  map[string]string
		members []Sample
	}
	groups := map[string]*group{}
	var order []string
	for _, s := range in.Vec {
		var gl map[string]string
		if m.Grouping == nil {
			gl = map[string]string{} // no grouping clause: one group, empty label set
		} else {
			gl = restrict(s.Labels, m.Grouping)
		}
		k := canon.LabelKey(NormLabels(gl))
		g, ok := groups[k]
		if !ok {
			g = &group{labels: gl}
			groups[k] = g
			order = append(order, k)
		}
		g.members = append(g.members, s)
	}
	var out []Sample
	switch m.Op {
	case "sort", "sort_desc":
		all := append([]Sample(nil), in.Vec...)
		sort.SliceStable(all, func(i, j int) bool {
			if m.Op == "sort" {
				return all[i].V < all[j].V
			}
			return all[i].V > all[j].V
		})
		return Value{Vec: all, Ordered: true}, nil
	case "topk", "bottomk":
		for _, k := range order {
			ms := append([]Sample(nil), groups[k].members...)
			sort.SliceStable(ms, func(i, j int) bool {
				if m.Op == "topk" {
					return ms[i].V > ms[j].V
				}
				return ms[i].V < ms[j].V
			})
			if len(ms) > m.K {
				ms = ms[:m.K]
			}
			out = append(out, ms...)
		}
		return Value{Vec: out}, nil
	}
	for _, k := range order {
		g := groups[k]
		vals := make([]float64, len(g.members))
		errs := make([]float64, len(g.members))
		unc := false
		for i, s := range g.members {
			vals[i], errs[i] = s.V, s.E
			unc = unc || s.Unc
		}
		var v, e float64
		switch m.Op {
		case "sum":
			v, e = sum(vals), sumErr(vals, errs)
		case "avg":
			v, e = mean(vals), meanErr(vals, errs)
		case "count":
			v, unc = float64(len(vals)), false
		case "min":
			v = vals[0]
			for _, x := range vals {
				v = math.Min(v, x)
			}
			e = maxOf(errs)
		case "max":
			v = vals[0]
			for _, x := range vals {
				v = math.Max(v, x)
			}
			e = maxOf(errs)
		case "stdvar":
			v, e = variance(vals), varErr(vals, errs)
		case "stddev":
			v, e = sqrtErr(variance(vals), varErr(vals, errs))
		default:
			return Value{}, &Unsupported{"vector aggregation " + m.Op}
		}
		out = append(out, Sample{Labels: g.labels, V: v, E: e, Unc: unc})
	}
	return Value{Vec: out}, nil
}

// At evaluates m at time t.
func (e *Evaluator) At(m *gen.Metric, t int64) (Value, error) {
	switch m.Kind {
	case "literal":
		return Value{Scalar: true, S: m.Value}, nil
	case "vector":
		return Value{Vec: []Sample{{Labels: map[string]string{}, V: m.Value}}}, nil
	case "range":
		return e.rangeAt(m, t)
	case "vecagg":
		return e.vecagg(m, t)
	case "binop":
		return e.binop(m, t)
	}
	return Value{}, &Unsupported{"metric kind " + m.Kind}
}

// Result is a model result over a whole grid: labelKey -> T(ms) -> value.
type Result struct {
	Points map[string]map[int64]float64
	// Err and Unc are the error bound and the undecidable flag of the points (see Sample).
	Err    map[string]map[int64]float64
	Unc    map[string]map[int64]bool
	Labels map[string]map[string]string
	// LastOrdered is the ordered vector of the last evaluated step (for sort checks).
	LastOrdered []Sample
}

// Eval evaluates m over the grid of p.
func (e *Evaluator) Eval(m *gen.Metric, p Params) (Result, error) {
	res := Result{Points: map[string]map[int64]float64{}, Err: map[string]map[int64]float64{}, Unc: map[string]map[int64]bool{}, Labels: map[string]map[string]string{}}
	for _, t := range p.Steps() {
		v, err := e.At(m, t)
		if err != nil {
			return res, err
		}
		if v.Scalar {
			return res, &Unsupported{"top-level scalar"}
		}
		tms := time.Unix(0, t).UnixMilli()
		seen := map[string]bool{}
		for _, s := range v.Vec {
			nl := NormLabels(s.Labels)
			k := canon.LabelKey(nl)
			if seen[k] {
				return res, &Unsupported{"model produced a duplicate label set at one step: " + k}
			}
			seen[k] = true
			if res.Points[k] == nil {
				res.Points[k] = map[int64]float64{}
				res.Err[k] = map[int64]float64{}
				res.Unc[k] = map[int64]bool{}
				res.Labels[k] = nl
			}
			res.Points[k][tms] = s.V
			res.Err[k][tms] = s.E
			if s.Unc {
				res.Unc[k][tms] = true
			}
		}
		if v.Ordered {
			res.LastOrdered = v.Vec
		}
	}
	return res, nil
}

// WindowStats reports, for a range node over the grid, the largest number of points one series
// has in a window and whether some point lies exactly on a window edge.
func (e *Evaluator) WindowStats(m *gen.Metric, steps []int64) (maxPts int, edgeHit bool, total int, err error) {
	all, err := e.samples(m)
	if err != nil {
		return 0, false, 0, err
	}
	for _, t := range steps {
		from, to := RangeWindow(m, t)
		cnt := map[string]int{}
		for _, s := range all {
			if s.ts < from || s.ts > to {
				continue
			}
			total++
			cnt[s.key]++
			if cnt[s.key] > maxPts {
				maxPts = cnt[s.key]
			}
			if s.ts == from || s.ts == to {
				edgeHit = true
			}
		}
	}
	return maxPts, edgeHit, total, nil
}

// Tolerance returns the comparison function of a result for canon.DiffPointMapsTol: the bound
// of a point and whether it is undecidable.
func (r Result) Tolerance() func(k string, t int64) (float64, bool) {
	return func(k string, t int64) (float64, bool) { return r.Err[k][t], r.Unc[k][t] }
}

// Ranges returns the range nodes of an expression.
func Ranges(m *gen.Metric) []*gen.Metric {
	if m == nil {
		return nil
	}
	switch m.Kind {
	case "range":
		return []*gen.Metric{m}
	case "vecagg", "label_replace":
		return Ranges(m.Inner)
	case "binop":
		return append(Ranges(m.L), Ranges(m.R)...)
	}
	return nil
}
