package datagen

import (
	"fmt"
	"regexp"
	"strconv"
	"time"

	"pgregory.net/rapid"

	"github.com/tdakkota/docker-logql/verifharness/gen"
	"github.com/tdakkota/docker-logql/verifharness/model"
)

// Tick is the lattice metric data and grids live on.
const Tick = 250 * int64(time.Millisecond)

// MetricData describes generated metric data.
type MetricData struct {
	Recs []model.Rec
	// GroupLabels are labels suitable for by/without clauses.
	GroupLabels []string
	// Unwrap labels by conversion: "" -> val, bytes -> size, duration -> dur.
	HasUnwrap bool
}

var unwrapLabel = map[string]string{"": "val", "bytes": "size", "duration": "dur", "duration_seconds": "dur"}

var (
	valPool  = []string{"1", "2", "3.5", "-4", "0.25", "10", "7"}
	sizePool = []string{"1KB", "2KiB", "512", "1.5MB", "10B"}
	durVPool = []string{"1s", "250ms", "1m", "1.5s", "2h"}
)

// GenMetricData draws records built from a few series templates. ambiguous draws label names
// and values from the pool whose members are prefixes / concatenations of one another.
// variedUnwrap lets unwrap values vary between records of one template.
func GenMetricData(t *rapid.T, maxRecs int, ambiguousLabels bool, variedUnwrap bool, distinctTS bool) MetricData {
	return GenMetricDataN(t, maxRecs, ambiguousLabels, variedUnwrap, distinctTS, 1, 4)
}

// GenMetricDataN is GenMetricData with the number of series templates in [minT, maxT].
func GenMetricDataN(t *rapid.T, maxRecs int, ambiguousLabels bool, variedUnwrap bool, distinctTS bool, minT, maxT int) MetricData {
	var d MetricData
	nTemplates := rapid.IntRange(minT, maxT).Draw(t, "templates")
	names := []string{"app", "env", "host"}
	vals := [][]string{{"web", "db"}, {"prod", "dev"}, {"h1", "h2", "h3"}}
	if ambiguousLabels {
		names = []string{"a", "b", "ab", "ba"}
		vals = [][]string{{"a", "b", "ab", ""}, {"a", "b", "ba", "bab"}, {"a", "b", "ab"}, {"b", "ab", "a"}}
	}
	nl := rapid.IntRange(1, len(names)).Draw(t, "nlabels")
	if ambiguousLabels {
		nl = rapid.IntRange(2, len(names)).Draw(t, "nlabels-amb")
	}
	d.GroupLabels = names[:nl]
	lines := []string{"GET /a", "POST /b", "err", ""}
	type template struct {
		labels map[string]string
		line   string
	}
	var templates []template
	for i := 0; i < nTemplates; i++ {
		tp := template{labels: map[string]string{}}
		for j := 0; j < nl; j++ {
			if rapid.IntRange(0, 5).Draw(t, "missing-label") == 0 {
				continue
			}
			tp.labels[names[j]] = rapid.SampledFrom(vals[j]).Draw(t, "labelval")
		}
		tp.labels["id"] = "t" + strconv.Itoa(i)
		if rapid.IntRange(0, 2).Draw(t, "share-id") == 0 && maxT <= 4 {
			tp.labels["id"] = "t0" // templates may coincide completely
		}
		tp.line = rapid.SampledFrom(lines).Draw(t, "line")
		tp.labels["val"] = rapid.SampledFrom(valPool).Draw(t, "val")
		tp.labels["size"] = rapid.SampledFrom(sizePool).Draw(t, "size")
		tp.labels["dur"] = rapid.SampledFrom(durVPool).Draw(t, "dur")
		templates = append(templates, tp)
	}
	if ambiguousLabels && rapid.IntRange(0, 2).Draw(t, "splice-pair") != 0 {
		// Two label sets whose sorted name/value strings concatenate to the same text.
		pairs := [][2]map[string]string{
			{{"a": "bab"}, {"ab": "ab"}},
			{{"a": "b", "b": "a"}, {"ab": "ba"}},
			{{"a": "", "ab": "x"}, {"a": "abx"}},
			{{"a": "b", "ab": "a"}, {"a": "bab", "b": ""}},
			// the same names and the same values, attached the other way round
			{{"a": "b", "b": "a"}, {"a": "a", "b": "b"}},
			{{"a": "ab", "ab": "ba", "ba": "a"}, {"a": "ba", "ab": "a", "ba": "ab"}},
			{{"a": "x", "b": "y"}, {"a": "y", "b": "x"}},
			// the same pairs split differently between name and value
			{{"a": "bb"}, {"ab": "b"}},
			// an empty value against a missing label: as many labels, all shared ones equal
			{{"a": "", "b": "x"}, {"ab": "y", "b": "x"}},
			{{"a": ""}, {"b": "a"}},
			{{"a": "", "ab": ""}, {"b": "", "ba": ""}},
			{{"a": "", "ab": "x"}, {"ab": "x", "b": ""}},
			// a value that spells the next pair in the usual textual renderings of a label set
			{{"a": "x b:y"}, {"a": "x", "b": "y"}},
			{{"a": "x, b=y"}, {"a": "x", "b": "y"}},
			{{"a": "x,b=y"}, {"a": "x", "b": "y"}},
			{{"a": "x\",b=\"y"}, {"a": "x", "b": "y"}},
			{{"a": "x\", b=\"y"}, {"a": "x", "b": "y"}},
			{{"a": "x b=y"}, {"a": "x", "b": "y"}},
			// ... or with a separator byte that "cannot occur in text" (values are arbitrary bytes)
			{{"a": "x\xffb\xffy"}, {"a": "x", "b": "y"}},
			{{"a": "x\x00b\x00y"}, {"a": "x", "b": "y"}},
			{{"a": "x\xfeb\xfey"}, {"a": "x", "b": "y"}},
			{{"a": "x\x1fb\x1ey"}, {"a": "x", "b": "y"}},
		}
		pair := rapid.SampledFrom(pairs).Draw(t, "pair")
		if rapid.IntRange(0, 2).Draw(t, "spelling-pair") == 0 {
			// the last ten: a value that spells the next pair
			pair = pairs[len(pairs)-10+rapid.IntRange(0, 9).Draw(t, "spelling-pair-index")]
			if rapid.Bool().Draw(t, "separator-byte-pair") {
				pair = pairs[len(pairs)-4+rapid.IntRange(0, 3).Draw(t, "separator-byte-index")]
			}
		}
		if rapid.IntRange(0, 3).Draw(t, "permuted-pair") == 0 {
			// the same names and the same values, attached the other way round
			pair = pairs[4+rapid.IntRange(0, 2).Draw(t, "permuted-pair-index")]
		}
		d.GroupLabels = []string{"a", "ab", "b", "ba"}
		base := templates[0]
		templates = templates[:0]
		for _, labels := range pair {
			tp := template{labels: map[string]string{"id": "t0", "val": base.labels["val"], "size": base.labels["size"], "dur": base.labels["dur"]}, line: base.line}
			for k, v := range labels {
				tp.labels[k] = v
			}
			templates = append(templates, tp)
		}
	}
	n := rapid.IntRange(0, maxRecs).Draw(t, "nrecs")
	if n < 6 && rapid.Bool().Draw(t, "more-recs") {
		n = rapid.IntRange(6, maxRecs).Draw(t, "nrecs-more")
	}
	cur := BaseTS
	for i := 0; i < n; i++ {
		var dt int64
		switch rapid.IntRange(0, 5).Draw(t, "gap") {
		case 0:
			dt = 0
		case 1, 2:
			dt = 1
		case 3:
			dt = 4
		default:
			dt = rapid.Int64Range(0, 6).Draw(t, "gapticks")
		}
		if distinctTS && dt == 0 && i > 0 {
			dt = 1
		}
		cur += dt * Tick
		tp := templates[rapid.IntRange(0, len(templates)-1).Draw(t, "template")]
		r := model.Rec{TS: cur, Line: genBS(tp.line), Labels: map[string]string{}}
		for k, v := range tp.labels {
			r.Labels[k] = v
		}
		if variedUnwrap {
			r.Labels["val"] = rapid.SampledFrom(valPool).Draw(t, "val")
			r.Labels["size"] = rapid.SampledFrom(sizePool).Draw(t, "size")
			r.Labels["dur"] = rapid.SampledFrom(durVPool).Draw(t, "dur")
		}
		if rapid.IntRange(0, 11).Draw(t, "no-unwrap-label") == 0 {
			delete(r.Labels, "val")
		}
		d.Recs = append(d.Recs, r)
	}
	return d
}

var rangeTexts = []struct {
	text string
	ns   int64
}{
	{"1s", 1e9}, {"2s", 2e9}, {"5s", 5e9}, {"10s", 10e9}, {"500ms", 5e8}, {"1m", 60e9}, {"250ms", 25e7}, {"3s", 3e9},
	// "everything so far": the window starts before 1970
	{"60y", 60 * 365 * 24 * 3600e9}, {"2800w", 2800 * 7 * 24 * 3600e9},
}

// RangeOpts bound the range aggregation generator.
type RangeOpts struct {
	Funcs     []string
	NoOffset  bool
	NoStages  bool
	Grouping  bool // allow by/without where the grammar allows it
	KeepStage bool // allow "| keep ..." / "| drop msg" stages that merge series
	// Wide mostly draws a range that covers all data and no selector matcher, so that most
	// series are present at every step.
	Wide bool
}

// CountFuncs are the functions that need no unwrap.
var CountFuncs = []string{"count_over_time", "rate", "bytes_over_time", "bytes_rate"}

// UnwrapFuncs need an unwrap clause.
var UnwrapFuncs = []string{"sum_over_time", "avg_over_time", "min_over_time", "max_over_time", "stddev_over_time", "stdvar_over_time", "quantile_over_time", "first_over_time", "last_over_time", "rate"}

var groupable = map[string]bool{"avg_over_time": true, "min_over_time": true, "max_over_time": true, "stddev_over_time": true,
	"stdvar_over_time": true, "quantile_over_time": true, "first_over_time": true, "last_over_time": true}

// NeedsUnwrap tells whether the range function draws from an unwrapped label.
func NeedsUnwrap(m *gen.Metric) bool { return m.Unwrap != nil }

// GenRange draws a range aggregation over d. unwrap selects the unwrapped family.
func GenRange(t *rapid.T, d MetricData, o RangeOpts, unwrap bool) *gen.Metric {
	m := &gen.Metric{Kind: "range", Log: &gen.LogQuery{}}
	if unwrap {
		m.Op = rapid.SampledFrom(UnwrapFuncs).Draw(t, "rangefn")
	} else {
		m.Op = rapid.SampledFrom(CountFuncs).Draw(t, "rangefn")
	}
	if len(o.Funcs) > 0 {
		m.Op = rapid.SampledFrom(o.Funcs).Draw(t, "rangefn-restricted")
		unwrap = false
		for _, f := range UnwrapFuncs {
			if f == m.Op && m.Op != "rate" {
				unwrap = true
			}
		}
	}
	r := rapid.SampledFrom(rangeTexts[:8]).Draw(t, "range")
	if rapid.IntRange(0, 9).Draw(t, "huge-range") == 0 {
		r = rapid.SampledFrom(rangeTexts[8:]).Draw(t, "range-huge")
	}
	wide := o.Wide && rapid.IntRange(0, 3).Draw(t, "wide") != 0
	if wide {
		r = rangeTexts[5] // 1m
	}
	m.RangeNs, m.RangeText = r.ns, r.text
	if !o.NoOffset && rapid.IntRange(0, 2).Draw(t, "offset") == 0 {
		off := rapid.SampledFrom([]struct {
			text string
			ns   int64
		}{{"0s", 0}, {"1s", 1e9}, {"3s", 3e9}, {"250ms", 25e7}, {"2s", 2e9}, {"1m", 60e9}, {"1s", 1e9}}).Draw(t, "offsetval")
		m.HasOffset, m.OffsetNs, m.OffsetText = true, off.ns, off.text
	}
	// selector
	if len(d.GroupLabels) > 0 && !wide && rapid.IntRange(0, 2).Draw(t, "selmatcher") == 0 {
		l := rapid.SampledFrom(d.GroupLabels).Draw(t, "sellabel")
		vals := map[string]bool{}
		for _, r := range d.Recs {
			vals[r.Labels[l]] = true
		}
		var pool []string
		for v := range vals {
			pool = append(pool, v)
		}
		if len(pool) == 0 {
			pool = []string{"x"}
		}
		sortStrings(pool)
		sel := gen.Matcher{Label: l, Op: rapid.SampledFrom([]string{"=", "!=", "=~"}).Draw(t, "selop"), Value: genBS(rapid.SampledFrom(pool).Draw(t, "selval"))}
		if _, err := regexp.Compile(string(sel.Value)); sel.Op == "=~" && err != nil {
			sel.Op = "=" // a value that is not a regular expression (not even text) can only be compared
		}
		m.Log.Sel = append(m.Log.Sel, sel)
	}
	if !o.NoStages && !wide {
		switch rapid.IntRange(0, 5).Draw(t, "stage") {
		case 0:
			m.Log.Stages = append(m.Log.Stages, gen.Stage{Kind: "linefilter", Op: rapid.SampledFrom([]string{"|=", "!=", "|~"}).Draw(t, "lfop"), Value: genBS(rapid.SampledFrom([]string{"GET", "err", "/", ""}).Draw(t, "lfval"))})
		case 1:
			m.Log.Stages = append(m.Log.Stages, gen.Stage{Kind: "labelfilter", Pred: &gen.Pred{Kind: "num", Label: "val", Op: rapid.SampledFrom([]string{">", "<=", "!="}).Draw(t, "pop"), Text: "2", Num: 2}})
		}
	}
	if o.KeepStage && rapid.IntRange(0, 2).Draw(t, "merge-series") != 0 {
		if rapid.Bool().Draw(t, "dropmsg") {
			m.Log.Stages = append(m.Log.Stages, gen.Stage{Kind: "drop", Labels: []string{"msg", "id"}})
		} else {
			keep := []string{"val", "size", "dur"}
			if len(d.GroupLabels) > 0 {
				keep = append(keep, d.GroupLabels[0])
			}
			m.Log.Stages = append(m.Log.Stages, gen.Stage{Kind: "keep", Labels: keep})
		}
	}
	if unwrap {
		conv := rapid.SampledFrom([]string{"", "", "bytes", "duration", "duration_seconds"}).Draw(t, "conv")
		m.Unwrap = &gen.Unwrap{Label: unwrapLabel[conv], Conv: conv}
		if rapid.IntRange(0, 5).Draw(t, "unwrap-filter") == 0 && len(d.GroupLabels) > 0 {
			m.Unwrap.Filters = []gen.Matcher{{Label: d.GroupLabels[0], Op: "!=", Value: "zzz"}}
		}
	}
	if m.Op == "quantile_over_time" {
		q := rapid.SampledFrom([]struct {
			text string
			v    float64
		}{{"0.5", 0.5}, {"0", 0}, {"1", 1}, {"0.9", 0.9}, {"0.25", 0.25}, {"0.99", 0.99},
			// above 1: +Inf (the Prometheus convention; a negative parameter is not in the grammar)
			{"1.5", 1.5}, {"2", 2}}).Draw(t, "quantile")
		m.HasParam, m.Param, m.ParamText = true, q.v, q.text
	}
	if o.Grouping && groupable[m.Op] && rapid.IntRange(0, 1).Draw(t, "grouping") == 0 {
		g := &gen.Grouping{Without: rapid.IntRange(0, 3).Draw(t, "without") == 0}
		if g.Without {
			g.Labels = []string{"msg", "id", "val", "size", "dur"}
			if len(d.GroupLabels) > 1 {
				g.Labels = append(g.Labels, d.GroupLabels[1])
			}
		} else {
			k := rapid.IntRange(0, len(d.GroupLabels)).Draw(t, "bycount")
			g.Labels = append([]string{}, d.GroupLabels[:k]...)
			if rapid.IntRange(0, 4).Draw(t, "by-absent") == 0 {
				g.Labels = append(g.Labels, "nosuch")
			}
		}
		m.Grouping = g
	}
	m.RangeLast = rapid.Bool().Draw(t, "range-last")
	return m
}

func sortStrings(s []string) {
	for i := 1; i < len(s); i++ {
		for j := i; j > 0 && s[j-1] > s[j]; j-- {
			s[j-1], s[j] = s[j], s[j-1]
		}
	}
}

// GenGrid draws range-query parameters on the tick lattice around the data.
func GenGrid(t *rapid.T, recs []model.Rec, maxSteps int) model.Params {
	lo, hi := BaseTS, BaseTS
	if len(recs) > 0 {
		lo, hi = recs[0].TS, recs[0].TS
		for _, r := range recs {
			if r.TS < lo {
				lo = r.TS
			}
			if r.TS > hi {
				hi = r.TS
			}
		}
	}
	step := rapid.SampledFrom([]int64{1, 2, 4, 4, 8, 20, 28, 40}).Draw(t, "stepticks") * Tick
	if rapid.IntRange(0, 3).Draw(t, "step-off-the-lattice") == 0 {
		// Steps that are not binary fractions of a second (a tenth, a fifth, ...): the grid is
		// still start + k*step in whole nanoseconds.
		step = rapid.SampledFrom([]int64{100, 200, 300, 600, 700, 1100, 50, 1300, 2900}).Draw(t, "step-ms") * int64(time.Millisecond)
	}
	start := lo + rapid.Int64Range(-6, 12).Draw(t, "startticks")*Tick
	n := rapid.IntRange(0, maxSteps-1).Draw(t, "nsteps")
	if span := (hi - start) / step; span > 0 && int64(n) < span && rapid.Bool().Draw(t, "cover") {
		n = int(span) + 2
		if n > maxSteps-1 {
			n = maxSteps - 1
		}
	}
	end := start + int64(n)*step
	// The end need not be on the grid.
	end += rapid.SampledFrom([]int64{0, 0, 1, step - 1}).Draw(t, "endslack")
	if end < start {
		end = start
	}
	return model.Params{Start: start, End: end, Step: step, Limit: -1}
}

// DescribeGrid renders params for messages.
func DescribeGrid(p model.Params) string {
	return fmt.Sprintf("start=%s end=+%v step=%v", time.Unix(0, p.Start).UTC().Format("15:04:05.000"), time.Duration(p.End-p.Start), time.Duration(p.Step))
}

// SimpleAggs are the vector aggregations with a single value per group.
var SimpleAggs = []string{"sum", "avg", "min", "max", "count", "stddev", "stdvar"}

// GenGrouping draws a by/without clause (or none) over d's labels.
func GenGrouping(t *rapid.T, d MetricData, label string) *gen.Grouping {
	switch rapid.IntRange(0, 5).Draw(t, label+"-kind") {
	case 0:
		return nil
	case 1:
		return &gen.Grouping{Labels: []string{}} // by ()
	case 2:
		g := &gen.Grouping{Without: true, Labels: []string{"msg", "id", "val", "size", "dur"}}
		if len(d.GroupLabels) > 0 && rapid.Bool().Draw(t, label+"-wo-extra") {
			g.Labels = append(g.Labels, rapid.SampledFrom(d.GroupLabels).Draw(t, label+"-wo-label"))
		}
		if rapid.IntRange(0, 3).Draw(t, label+"-wo-empty") == 0 {
			g.Labels = []string{}
		}
		return g
	default:
		g := &gen.Grouping{Labels: []string{}}
		for _, l := range d.GroupLabels {
			if rapid.Bool().Draw(t, label+"-by-"+l) {
				g.Labels = append(g.Labels, l)
			}
		}
		if rapid.IntRange(0, 4).Draw(t, label+"-by-absent") == 0 {
			g.Labels = append(g.Labels, "nosuch")
		}
		if rapid.IntRange(0, 4).Draw(t, label+"-by-id") == 0 {
			g.Labels = append(g.Labels, "id")
		}
		return g
	}
}

// GenVecAgg wraps inner in depth levels of simple vector aggregations.
func GenVecAgg(t *rapid.T, d MetricData, inner *gen.Metric, depth int) *gen.Metric {
	cur := inner
	for i := 0; i < depth; i++ {
		m := &gen.Metric{Kind: "vecagg", Inner: cur}
		m.Op = rapid.SampledFrom(SimpleAggs).Draw(t, "aggop")
		m.Grouping = GenGrouping(t, d, fmt.Sprintf("g%d", i))
		m.GroupingFirst = rapid.Bool().Draw(t, "grouping-first")
		cur = m
	}
	return cur
}

// GenScalar draws a scalar literal.
func GenScalar(t *rapid.T) *gen.Metric {
	v := rapid.SampledFrom([]struct {
		text string
		v    float64
	}{{"0", 0}, {"2", 2}, {"0.5", 0.5}, {"-3", -3}, {"10", 10}, {"1.5", 1.5}, {"-0.25", -0.25}, {"3", 3}, {"+4", 4}, {"1e2", 100}}).Draw(t, "scalar")
	return &gen.Metric{Kind: "literal", Value: v.v, ValueText: v.text}
}

// ArithOps and CmpOps and SetOps are the fifteen binary operators.
var (
	ArithOps = []string{"+", "-", "*", "/", "%", "^"}
	CmpOps   = []string{"==", "!=", ">", ">=", "<", "<="}
	SetOps   = []string{"and", "or", "unless"}
)
