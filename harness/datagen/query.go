package datagen

import (
	"math"
	"strconv"
	"strings"
	"time"
	"unicode/utf8"

	"pgregory.net/rapid"

	"github.com/tdakkota/docker-logql/verifharness/gen"
	"github.com/tdakkota/docker-logql/verifharness/model"
)

func genBS(s string) gen.BS { return gen.BS(s) }

func parseFloat(s string) (float64, error) { return strconv.ParseFloat(s, 64) }

// QueryOpts bound what the log-query generator may produce.
type QueryOpts struct {
	MaxStages     int
	AllowDistinct bool
	AllowRewrite  bool // label_format / line_format / drop / keep / decolorize
	AllowParsers  bool
	// OnlyFilters restricts stages to line filters and label filters.
	OnlyFilters bool

	// QuotedValues adds label values that differ only in quoting-sensitive characters.
	QuotedValues bool
	// DropMsgOften makes many queries end with "| drop msg" / "| keep <label>" so that
	// several records share a final label set.
	DropMsgOften bool

	// Light draws short queries (0-2 stages, rarely a selector matcher).
	Light bool

	anchorFrags []string
}

// anchorFrags is set for the duration of one GenLogQuery call (generation is sequential).
var anchorFrags []string

var labelRegexes = []string{".*", ".+", "pro", "pro.*", "prod|dev", "[a-z]+", "a|b", "a?b", "\\d+", "(?i)PROD", "", "x?", ".*d", "[0-9.]+"}
var lineRegexes = []string{"err", "^err", "GET|POST", "[0-9]+", ".*", "(?i)error", "time(out)?", "\\d{3}", "^$", "o{2}", "", "\\bok\\b", "10\\.0\\.0\\.[0-9]+",
	"^error$", "^GET$", "\\Aok\\z", "^err", "or$", "^(?:error)$", "^10\\.0\\.0\\.1$"}

// AnchorVariant wraps a (quoted) literal regex in none, one or both anchors: a regex engine
// shortcut for literals must keep the anchors' meaning.
func AnchorVariant(t *rapid.T, re string, label string) string {
	switch rapid.IntRange(0, 5).Draw(t, label+"-anchor") {
	case 0:
		return "^" + re + "$"
	case 1:
		return "^" + re
	case 2:
		return re + "$"
	case 3:
		return `\A` + re + `\z`
	}
	return re
}

// GenMatcher draws a label matcher over the labels (or fields) of the schema.
func GenMatcher(t *rapid.T, fields []Field, label string) gen.Matcher {
	var m gen.Matcher
	var f Field
	if len(fields) > 0 && rapid.IntRange(0, 5).Draw(t, label+"-exists") != 0 {
		f = rapid.SampledFrom(fields).Draw(t, label+"-field")
		m.Label = f.Name
	} else {
		m.Label = rapid.SampledFrom([]string{"nosuch", "missing", "zz"}).Draw(t, label+"-absent")
		f = Field{Name: m.Label, Type: "str", Pool: []string{"", "x"}}
	}
	m.Op = rapid.SampledFrom([]string{"=", "=", "!=", "=~", "=~", "!~"}).Draw(t, label+"-op")
	switch m.Op {
	case "=", "!=":
		switch rapid.IntRange(0, 7).Draw(t, label+"-valkind") {
		case 0:
			m.Value = ""
		case 1:
			m.Value = genBS(rapid.SampledFrom(append(append([]string{}, strPool...), ambiguous...)).Draw(t, label+"-near"))
		default:
			m.Value = genBS(rapid.SampledFrom(f.Pool).Draw(t, label+"-val"))
		}
	default:
		if rapid.IntRange(0, 2).Draw(t, label+"-reval") == 0 {
			// a value of the pool, used as a regex (values contain no regex meta characters
			// other than '.', which still matches itself)
			v := rapid.SampledFrom(f.Pool).Draw(t, label+"-val")
			m.Value = genBS(regexpQuote(v))
			if !utf8.ValidString(v) {
				// a regular expression is text: bytes that are not UTF-8 can only be compared
				m.Value = genBS(v)
				m.Op = map[string]string{"=~": "=", "!~": "!="}[m.Op]
			}
		} else {
			m.Value = genBS(rapid.SampledFrom(labelRegexes).Draw(t, label+"-re"))
		}
	}
	return m
}

func regexpQuote(s string) string {
	out := ""
	for _, c := range s {
		switch c {
		case '.', '+', '*', '?', '(', ')', '[', ']', '{', '}', '^', '$', '|', '\\':
			out += `\` + string(c)
		default:
			out += string(c)
		}
	}
	return out
}

// GenLineFilter draws a line filter stage.
func GenLineFilter(t *rapid.T, s Schema) gen.Stage {
	kind := rapid.IntRange(0, 9).Draw(t, "lf-kind")
	if kind == 0 {
		st := gen.Stage{Kind: "ipfilter", Op: "|="}
		if s.OneIP && s.Format == "plain" && rapid.Bool().Draw(t, "ip-neg") {
			st.Op = "!="
		}
		st.Value = genBS(rapid.SampledFrom([]string{"10.0.0.1", "10.0.0.0/8", "10.0.0.1-10.0.0.9", "192.168.0.0/16", "::1", "2001:db8::/32", "172.16.5.4", "10.0.0.2-10.0.0.4",
			"fe80::/10", "fe80::a", "::", "::/0", "a::", "abcd:ef01::a", "2001:db8::f00d", "::f",
			// a network written with host bits set is still the whole network
			"192.168.1.77/24", "10.0.0.200/8", "172.16.5.200/12", "2001:db8::ff00/32", "10.0.0.5/30"}).Draw(t, "ip-pattern"))
		return st
	}
	st := gen.Stage{Kind: "linefilter"}
	st.Op = rapid.SampledFrom([]string{"|=", "|=", "!=", "|~", "|~", "!~"}).Draw(t, "lf-op")
	if s.Format == "packed" && rapid.IntRange(0, 2).Draw(t, "lf-packed") == 0 {
		// Needles whose verdict differs between the packed JSON and the unpacked entry.
		if st.Op == "|~" || st.Op == "!~" {
			st.Value = genBS(rapid.SampledFrom([]string{`^\{`, `\}$`, `^[a-zA-Z0-9]`, `"_entry"`, `\\"`, `^noise`, `^say "hi"`}).Draw(t, "lf-packed-re"))
		} else {
			st.Value = genBS(rapid.SampledFrom([]string{"_entry", `{"`, `"}`, `\"`, `say "hi"`, `":"`, `{"json":"inside"}`}).Draw(t, "lf-packed-needle"))
		}
		return st
	}
	if len(anchorFrags) > 0 && rapid.IntRange(0, 2).Draw(t, "lf-anchored") != 0 {
		frag := rapid.SampledFrom(anchorFrags).Draw(t, "lf-frag")
		if rapid.Bool().Draw(t, "lf-sub") && len(frag) > 1 {
			lo := rapid.IntRange(0, len(frag)-1).Draw(t, "lf-lo")
			hi := rapid.IntRange(lo+1, len(frag)).Draw(t, "lf-hi")
			if cut := frag[lo:hi]; utf8.ValidString(cut) {
				frag = cut
			}
		}
		if st.Op == "|~" || st.Op == "!~" {
			frag = AnchorVariant(t, regexpQuote(frag), "lf")
		}
		st.Value = genBS(frag)
		return st
	}
	switch st.Op {
	case "|=", "!=":
		// Lines that end in a carriage return: the needle is often the end of one of them.
		var crFrags []string
		for _, f := range anchorFrags {
			if strings.HasSuffix(f, "\r") {
				crFrags = append(crFrags, f)
			}
		}
		if len(crFrags) > 0 && rapid.IntRange(0, 2).Draw(t, "lf-cr") == 0 {
			f := rapid.SampledFrom(crFrags).Draw(t, "lf-cr-frag")
			st.Value = genBS(f[rapid.IntRange(0, len(f)-1).Draw(t, "lf-cr-from"):])
			return st
		}
		switch rapid.IntRange(0, 7).Draw(t, "lf-needle") {
		case 0:
			st.Value = ""
		case 1:
			st.Value = genBS(rapid.SampledFrom([]string{"err", "e", " ", "\"", "=", "0", "10.0", "GET ", "{", ":", "statu", "\r", "r\r", "\r\n"}).Draw(t, "lf-frag"))
		case 2, 3, 4:
			all := []string{}
			for _, f := range s.Fields {
				all = append(all, f.Pool...)
			}
			if len(all) == 0 {
				all = words
			}
			st.Value = genBS(rapid.SampledFrom(all).Draw(t, "lf-fieldval"))
		default:
			st.Value = genBS(rapid.SampledFrom(words).Draw(t, "lf-word"))
		}
	default:
		st.Value = genBS(rapid.SampledFrom(lineRegexes).Draw(t, "lf-re"))
	}
	return st
}

var durLiterals = map[string]time.Duration{
	"100ms": 100 * time.Millisecond, "1s": time.Second, "2s": 2 * time.Second, "1m": time.Minute, "90s": 90 * time.Second,
	"1h": time.Hour, "1m30s": 90 * time.Second, "1.5s": 1500 * time.Millisecond, "0s": 0, "1d": 24 * time.Hour, "150ms": 150 * time.Millisecond,
}
var durLiteralKeys = []string{"100ms", "1s", "2s", "1m", "90s", "1h", "1m30s", "1.5s", "0s", "1d", "150ms"}
var bytesLiterals = []string{"1KB", "1KiB", "1MB", "600B", "10kb", "10KB", "2MiB", "1.5MB", "512b", "1GB"}
var numLiterals = []string{"200", "404", "499.5", "1e2", "0", "500", "1.5", "7", "0.5", "100"}
var ipLiterals = []string{"10.0.0.0/8", "192.168.1.7", "10.0.0.1-10.0.0.9", "::1", "2001:db8::/32", "10.0.0.1", "172.16.0.0/12",
	"fe80::/10", "fe80::a", "::", "a::", "abcd:ef01::a", "::f", "192.168.1.77/24", "10.0.0.200/8", "2001:db8::ff00/32", "10.0.0.5/30"}

func typedFields(s Schema, afterParser bool) []Field {
	out := append([]Field{}, s.Labels...)
	if afterParser || true {
		// Fields may be referenced even when no parser stage exposes them: a missing label
		// is an interesting case of every predicate.
		out = append(out, s.Fields...)
	}
	return out
}

func genLeafPred(t *rapid.T, s Schema) *gen.Pred { return GenLeafPred(t, s, 10) }

// GenLeafPred draws one comparison; one in crossOneIn compares a field with a literal of
// another type, so that the values do not convert.
func GenLeafPred(t *rapid.T, s Schema, crossOneIn int) *gen.Pred {
	fields := typedFields(s, true)
	var f Field
	if len(fields) > 0 && rapid.IntRange(0, 7).Draw(t, "p-exists") != 0 {
		f = rapid.SampledFrom(fields).Draw(t, "p-field")
	} else {
		f = Field{Name: "nosuch", Type: rapid.SampledFrom([]string{"str", "int", "dur", "bytes", "ip"}).Draw(t, "p-absent-type"), Pool: []string{"x"}}
	}
	kind := f.Type
	// Sometimes compare a field with a literal of another type (unparsable values).
	if f.Type == "bool" || f.Type == "obj" {
		// a field that is a JSON boolean, object or array: a typed comparison cannot convert it
		// (the record is kept and flagged), a string matcher sees its text
		kind = rapid.SampledFrom([]string{"str", "int", "int", "dur", "bytes"}).Draw(t, "p-composite-kind")
	} else if rapid.IntRange(0, crossOneIn-1).Draw(t, "p-cross") == 0 {
		kind = rapid.SampledFrom([]string{"str", "int", "dur", "bytes", "ip"}).Draw(t, "p-crosskind")
	}
	cmpOps := []string{"==", "!=", ">", ">=", "<", "<="}
	switch kind {
	case "int", "float":
		txt := rapid.SampledFrom(append(append([]string{}, numLiterals...), f.Pool...)).Draw(t, "p-num")
		v, err := parseFloat(txt)
		if err != nil || v < 0 || math.IsNaN(v) || math.IsInf(v, 0) {
			txt, v = "200", 200 // NaN and the infinities cannot be written as number literals
		}
		return &gen.Pred{Kind: "num", Label: f.Name, Op: rapid.SampledFrom(cmpOps).Draw(t, "p-op"), Text: txt, Num: v}
	case "dur":
		txt := rapid.SampledFrom(durLiteralKeys).Draw(t, "p-dur")
		return &gen.Pred{Kind: "dur", Label: f.Name, Op: rapid.SampledFrom(cmpOps).Draw(t, "p-op"), Text: txt, Dur: int64(durLiterals[txt])}
	case "bytes":
		txt := rapid.SampledFrom(bytesLiterals).Draw(t, "p-bytes")
		b, _ := model.ParseBytes(txt)
		return &gen.Pred{Kind: "bytes", Label: f.Name, Op: rapid.SampledFrom(cmpOps).Draw(t, "p-op"), Text: txt, Bytes: b}
	case "ip":
		return &gen.Pred{Kind: "ip", Label: f.Name, Op: rapid.SampledFrom([]string{"==", "!="}).Draw(t, "p-op"), Str: genBS(rapid.SampledFrom(ipLiterals).Draw(t, "p-ip"))}
	default:
		m := GenMatcher(t, []Field{f}, "p-m")
		m.Label = f.Name
		return &gen.Pred{Kind: "match", Label: m.Label, Op: m.Op, Str: m.Value}
	}
}

// GenPred draws a predicate tree of the given depth. Mixed and/or are always parenthesised.
func GenPred(t *rapid.T, s Schema, depth int) *gen.Pred {
	if depth <= 0 || rapid.IntRange(0, 2).Draw(t, "p-leaf") == 0 {
		p := genLeafPred(t, s)
		p.Paren = rapid.IntRange(0, 6).Draw(t, "p-paren") == 0
		return p
	}
	kind := rapid.SampledFrom([]string{"and", "or", "or"}).Draw(t, "p-kind")
	p := &gen.Pred{Kind: kind}
	p.L = GenPred(t, s, depth-1)
	p.R = GenPred(t, s, depth-1)
	if kind == "and" {
		p.Conj = rapid.SampledFrom([]string{"and", ",", " "}).Draw(t, "p-conj")
	}
	// The grammar nests chains to the right and does not define a precedence between
	// "and" and "or": parenthesise every operand that is itself a different connective,
	// and every left operand that is a connective at all.
	for _, c := range []*gen.Pred{p.L, p.R} {
		if (c.Kind == "and" || c.Kind == "or") && c.Kind != kind {
			c.Paren = true
		}
	}
	if p.L.Kind == "and" || p.L.Kind == "or" {
		p.L.Paren = true
	}
	// Juxtaposition is only supported by this parser in front of an identifier.
	if p.Conj == " " && startsWithParen(p.R) {
		p.Conj = "and"
	}
	return p
}

func startsWithParen(p *gen.Pred) bool {
	if p.Paren {
		return true
	}
	if p.Kind == "and" || p.Kind == "or" {
		return startsWithParen(p.L)
	}
	return false
}

func fieldNamesOf(fs []Field) []string {
	out := make([]string, len(fs))
	for i, f := range fs {
		out[i] = f.Name
	}
	return out
}

func genParserStage(t *rapid.T, s Schema) (gen.Stage, bool) {
	switch s.Format {
	case "json":
		st := gen.Stage{Kind: "json"}
		names := fieldNamesOf(s.Fields)
		switch rapid.IntRange(0, 3).Draw(t, "json-mode") {
		case 0, 1:
		case 2:
			if len(names) > 0 {
				st.Labels = dedup(rapid.SliceOfN(rapid.SampledFrom(names), 1, 3).Draw(t, "json-labels"))
			}
		default:
			if len(names) > 0 {
				n := rapid.IntRange(1, 2).Draw(t, "json-nexprs")
				for i := 0; i < n; i++ {
					name := rapid.SampledFrom(names).Draw(t, "json-expr-field")
					dst := rapid.SampledFrom([]string{name, "x" + strconv.Itoa(i), "renamed"}).Draw(t, "json-expr-dst")
					expr := rapid.SampledFrom([]string{name, "." + name, `["` + name + `"]`}).Draw(t, "json-expr-form")
					st.Exprs = append(st.Exprs, gen.KV{Label: dst, Expr: expr})
				}
				st.Exprs = dedupKV(st.Exprs)
			}
		}
		return st, true
	case "logfmt":
		st := gen.Stage{Kind: "logfmt"}
		names := fieldNamesOf(s.Fields)
		switch rapid.IntRange(0, 3).Draw(t, "logfmt-mode") {
		case 0, 1:
		case 2:
			if len(names) > 0 {
				st.Labels = dedup(rapid.SliceOfN(rapid.SampledFrom(names), 1, 3).Draw(t, "logfmt-labels"))
			}
		default:
			if len(names) > 0 {
				name := rapid.SampledFrom(names).Draw(t, "logfmt-src")
				st.Exprs = []gen.KV{{Label: "renamed", Expr: name}}
			}
		}
		return st, true
	case "delim":
		if rapid.Bool().Draw(t, "delim-pattern") {
			p := rapid.SampledFrom([]string{
				`<addr> <user> <status> <size> "<method> <path>"`,
				`<addr> <_> <status> <_>`,
				`<addr> <user> <_>`,
				`<_> <_> <status> <size> "<method> <_>"`,
			}).Draw(t, "pattern")
			return gen.Stage{Kind: "pattern", Pattern: p}, true
		}
		re := rapid.SampledFrom([]string{
			`^(?P<addr>\S+) (?P<user>\S+) (?P<status>-?\d+)`,
			`(?P<status>-?\d+) (?P<size>\S+) "(?P<method>\w+)`,
			`"(?P<method>[A-Z]+) (?P<path>[^"]*)"$`,
			`^(?P<addr>[0-9.]+) `,
			`(?P<user>alice|bob) (\S+) (?P<size>\S+)`,
		}).Draw(t, "regexp")
		if rapid.IntRange(0, 2).Draw(t, "built-regexp") == 0 {
			re = GenExtractRegexp(t, []string{"addr", "user", "status", "size", "method", "path"}, "regexp")
		}
		return gen.Stage{Kind: "regexp", Regex: re}, true
	case "packed":
		return gen.Stage{Kind: "unpack"}, true
	case "plain":
		if rapid.IntRange(0, 2).Draw(t, "plain-regexp") == 0 {
			re := rapid.SampledFrom([]string{`(?P<first>\w+)`, `(?P<num>\d+)`, `(?P<verb>GET|POST) `, `^(?P<head>\S+) (?P<next>\S+)`}).Draw(t, "regexp")
			if rapid.Bool().Draw(t, "built-regexp") {
				re = GenExtractRegexp(t, []string{"first", "num", "verb", "head", "next"}, "regexp")
			}
			return gen.Stage{Kind: "regexp", Regex: re}, true
		}
	}
	return gen.Stage{}, false
}

func dedup(in []string) []string {
	seen := map[string]bool{}
	var out []string
	for _, s := range in {
		if !seen[s] {
			seen[s] = true
			out = append(out, s)
		}
	}
	return out
}

func dedupKV(in []gen.KV) []gen.KV {
	seen := map[string]bool{}
	var out []gen.KV
	for _, kv := range in {
		if !seen[kv.Label] {
			seen[kv.Label] = true
			out = append(out, kv)
		}
	}
	return out
}

func allNames(s Schema) []string {
	return append(append(fieldNamesOf(s.Labels), fieldNamesOf(s.Fields)...), "msg", "nosuch")
}

func genTmpl(t *rapid.T, s Schema, forbidden map[string]bool) []gen.TmplPart {
	names := []string{}
	for _, n := range allNames(s) {
		if !forbidden[n] {
			names = append(names, n)
		}
	}
	if len(names) == 0 {
		names = []string{"nosuch"}
	}
	n := rapid.IntRange(1, 3).Draw(t, "tmpl-parts")
	var parts []gen.TmplPart
	for i := 0; i < n; i++ {
		a := rapid.SampledFrom(names).Draw(t, "tmpl-a")
		b := rapid.SampledFrom(names).Draw(t, "tmpl-b")
		switch rapid.IntRange(0, 10).Draw(t, "tmpl-kind") {
		case 0:
			parts = append(parts, gen.TmplPart{Kind: "lit", Text: rapid.SampledFrom([]string{"x", "-", " => ", "[", "lit"}).Draw(t, "tmpl-lit")})
		case 1:
			parts = append(parts, gen.TmplPart{Kind: "line"})
		case 2:
			parts = append(parts, gen.TmplPart{Kind: "ts_nanos"})
		case 3:
			parts = append(parts, gen.TmplPart{Kind: rapid.SampledFrom([]string{"upper", "lower", "ToUpper", "ToLower", "trim"}).Draw(t, "tmpl-fn"), A: a})
		case 4:
			parts = append(parts, gen.TmplPart{Kind: "printf2", A: a, B: b})
		case 5:
			parts = append(parts, gen.TmplPart{Kind: "default", A: a, Text: "dflt"})
		case 6:
			parts = append(parts, gen.TmplPart{Kind: "ts_unix"})
		default:
			parts = append(parts, gen.TmplPart{Kind: "label", A: a})
		}
	}
	if rapid.IntRange(0, 9).Draw(t, "tmpl-fail") == 0 {
		parts = append(parts, gen.TmplPart{Kind: rapid.SampledFrom([]string{"fail_unixToTime", "fail_regex", "fail_field", "fail_argtype", "fail_argcount", "fail_index"}).Draw(t, "tmpl-failkind"), A: "nosuchlabel"})
	}
	return parts
}

func genRewriteStage(t *rapid.T, s Schema) gen.Stage {
	names := allNames(s)
	switch rapid.IntRange(0, 5).Draw(t, "rw-kind") {
	case 0:
		return gen.Stage{Kind: "line_format", Tmpl: genTmpl(t, s, nil)}
	case 1:
		return gen.Stage{Kind: "decolorize"}
	case 2, 3:
		st := gen.Stage{Kind: "label_format"}
		touched := map[string]bool{}
		n := rapid.IntRange(1, 3).Draw(t, "lf-n")
		for i := 0; i < n; i++ {
			dst := rapid.SampledFrom(append([]string{"new1", "new2", "out"}, names...)).Draw(t, "lf-dst")
			if touched[dst] || dst == "nosuch" {
				continue
			}
			if rapid.Bool().Draw(t, "lf-rename") {
				src := rapid.SampledFrom(names).Draw(t, "lf-src")
				if touched[src] {
					continue
				}
				touched[dst], touched[src] = true, true
				st.Renames = append(st.Renames, gen.Rename{Dst: dst, Src: src})
			} else {
				touched[dst] = true
				st.Templates = append(st.Templates, gen.LabelTmpl{Dst: dst})
			}
		}
		// Templates never reference a label set or renamed by the same stage.
		for i := range st.Templates {
			st.Templates[i].Tmpl = genTmpl(t, s, touched)
		}
		if len(st.Renames) == 0 && len(st.Templates) == 0 {
			st.Templates = []gen.LabelTmpl{{Dst: "out", Tmpl: genTmpl(t, s, map[string]bool{"out": true})}}
		}
		return st
	default:
		st := gen.Stage{Kind: rapid.SampledFrom([]string{"drop", "keep"}).Draw(t, "dk-kind")}
		picked := dedup(rapid.SliceOfN(rapid.SampledFrom(names), 1, 3).Draw(t, "dk-names"))
		for _, n := range picked {
			if rapid.IntRange(0, 2).Draw(t, "dk-matcher") == 0 {
				var f Field
				for _, c := range append(append([]Field{}, s.Labels...), s.Fields...) {
					if c.Name == n {
						f = c
					}
				}
				if f.Name == "" {
					f = Field{Name: n, Type: "str", Pool: []string{"x", ""}}
				}
				m := GenMatcher(t, []Field{f}, "dk-m")
				m.Label = n
				st.Matchers = append(st.Matchers, m)
			} else {
				st.Labels = append(st.Labels, n)
			}
		}
		return st
	}
}

// AnchorSchema narrows the pools of s to the values of one record, so that generated
// filters have a fair chance to keep at least that record.
func AnchorSchema(s Schema, r model.Rec) (Schema, []string) {
	out := s
	out.Labels = nil
	for _, l := range s.Labels {
		if v, ok := r.Labels[l.Name]; ok {
			l.Pool = []string{v}
		}
		out.Labels = append(out.Labels, l)
	}
	vals := map[string]string{}
	if r.Doc != nil {
		if r.Doc.JSON != nil {
			for _, f := range r.Doc.JSON.Obj {
				if txt, ok := f.Val.LabelText(); ok {
					vals[f.Key] = txt
				}
			}
		}
		for _, p := range r.Doc.Pairs {
			vals[p.Key] = p.Val
		}
	}
	out.Fields = nil
	for _, f := range s.Fields {
		if v, ok := vals[f.Name]; ok {
			f.Pool = []string{v}
		}
		out.Fields = append(out.Fields, f)
	}
	var frags []string
	line := string(r.Line)
	if r.Doc != nil && r.Doc.Format == "packed" && r.Doc.JSON != nil {
		for _, f := range r.Doc.JSON.Obj {
			if f.Key == "_entry" {
				line = f.Val.S + " " + line
			}
		}
	}
	for i := 0; i < len(line); {
		j := i
		for j < len(line) && line[j] != ' ' && line[j] != '"' && line[j] != ',' {
			j++
		}
		if j > i {
			frags = append(frags, line[i:j])
		}
		i = j + 1
	}
	return out, frags
}

// GenLogQueryFor draws a log query; about two thirds of its filters are derived from one of
// the records so that results are not mostly empty.
func GenLogQueryFor(t *rapid.T, s Schema, recs []model.Rec, o QueryOpts) gen.LogQuery {
	if len(recs) > 0 && rapid.IntRange(0, 2).Draw(t, "anchored") != 0 {
		r := recs[rapid.IntRange(0, len(recs)-1).Draw(t, "anchor")]
		as, frags := AnchorSchema(s, r)
		o.anchorFrags = frags
		return GenLogQuery(t, as, o)
	}
	return GenLogQuery(t, s, o)
}

// GenLogQuery draws a log query over data of schema s.
func GenLogQuery(t *rapid.T, s Schema, o QueryOpts) gen.LogQuery {
	var q gen.LogQuery
	anchorFrags = o.anchorFrags
	nm := rapid.SampledFrom([]int{0, 0, 0, 0, 1, 1, 1, 1, 2, 3}).Draw(t, "nmatchers")
	if o.Light {
		nm = rapid.SampledFrom([]int{0, 0, 0, 1}).Draw(t, "nmatchers-light")
	}
	for i := 0; i < nm; i++ {
		q.Sel = append(q.Sel, GenMatcher(t, s.Labels, "sel"))
	}
	ns := rapid.SampledFrom([]int{0, 1, 1, 2, 2, 3, 3, 4, 5, 6}).Draw(t, "nstages")
	if o.Light {
		ns = rapid.SampledFrom([]int{0, 0, 1, 1, 2}).Draw(t, "nstages-light")
	}
	if ns > o.MaxStages {
		ns = o.MaxStages
	}
	rewritten := false // a line-rewriting stage happened: no parser stage after it
	// Most queries over structured lines start by parsing them, so that later predicates
	// see the fields.
	if ns > 0 && o.AllowParsers && !o.OnlyFilters && s.Format != "plain" && rapid.IntRange(0, 9).Draw(t, "parser-first") < 6 {
		if st, ok := genParserStage(t, s); ok {
			q.Stages = append(q.Stages, st)
			ns--
			rewritten = rewritten || st.Kind == "unpack"
		}
	}
	for i := 0; i < ns; i++ {
		k := rapid.IntRange(0, 9).Draw(t, "stagekind")
		switch {
		case k <= 2:
			q.Stages = append(q.Stages, GenLineFilter(t, s))
		case k <= 5:
			depth := rapid.SampledFrom([]int{0, 0, 0, 1, 1, 2}).Draw(t, "pred-depth")
			q.Stages = append(q.Stages, gen.Stage{Kind: "labelfilter", Pred: GenPred(t, s, depth)})
		case k <= 7 && o.AllowParsers && !o.OnlyFilters && !rewritten:
			if st, ok := genParserStage(t, s); ok {
				q.Stages = append(q.Stages, st)
				rewritten = rewritten || st.Kind == "unpack"
			}
		case k == 8 && o.AllowDistinct && !o.OnlyFilters:
			names := allNames(s)
			// one label, or several: a record is dropped as soon as one of them repeats a value, and
			// each label's value is remembered the moment it is looked at
			nl := rapid.SampledFrom([]int{1, 1, 2, 2, 3}).Draw(t, "distinct-nlabels")
			if nl > len(names) {
				nl = len(names)
			}
			q.Stages = append(q.Stages, gen.Stage{Kind: "distinct", Labels: rapid.SliceOfNDistinct(rapid.SampledFrom(names), nl, nl, rapid.ID[string]).Draw(t, "distinct-labels")})
		case k == 9 && o.AllowRewrite && !o.OnlyFilters:
			st := genRewriteStage(t, s)
			if st.Kind == "line_format" || st.Kind == "decolorize" {
				rewritten = true
			}
			q.Stages = append(q.Stages, st)
		default:
			q.Stages = append(q.Stages, GenLineFilter(t, s))
		}
	}
	if o.DropMsgOften && !o.OnlyFilters && rapid.IntRange(0, 2).Draw(t, "dropmsg") != 0 {
		if len(s.Labels) > 0 && rapid.Bool().Draw(t, "keep-one") {
			q.Stages = append(q.Stages, gen.Stage{Kind: "keep", Labels: []string{s.Labels[0].Name}})
		} else {
			q.Stages = append(q.Stages, gen.Stage{Kind: "drop", Labels: []string{"msg"}})
		}
	}
	FixAmbiguities(&q)
	return q
}

// FixAmbiguities rewrites stage sequences whose text the LogQL grammar reads differently:
// "| drop a" followed by a line filter "!= x" is read as the matcher a!="x".
func FixAmbiguities(q *gen.LogQuery) {
	for i := 1; i < len(q.Stages); i++ {
		prev, cur := q.Stages[i-1], &q.Stages[i]
		if (prev.Kind == "drop" || prev.Kind == "keep") && len(prev.Matchers) == 0 &&
			(cur.Kind == "linefilter" || cur.Kind == "ipfilter") {
			switch cur.Op {
			case "!=":
				cur.Op = "|="
			case "!~":
				cur.Op = "|~"
			}
		}
	}
}

// RapidLayout draws whitespace, comments and quoting from rapid.
type RapidLayout struct {
	T *rapid.T
	// Comments enables '#' comments; Heavy enables newlines and tabs.
	Comments bool
	Heavy    bool
	RawOK    bool
}

// Sep implements gen.Layout.
func (l RapidLayout) Sep(must bool) string {
	k := rapid.IntRange(0, 9).Draw(l.T, "sep")
	switch {
	case k <= 4:
		if must {
			return " "
		}
		return ""
	case k <= 6:
		return " "
	case k == 7 && l.Heavy:
		return rapid.SampledFrom([]string{"\n", "\t", "  ", " \n\t", "\r\n"}).Draw(l.T, "ws")
	case k == 8 && l.Comments:
		return rapid.SampledFrom([]string{" # c\n", "#\n", "\n# a comment with \" and { in it\n"}).Draw(l.T, "comment")
	}
	return " "
}

// Raw implements gen.Layout.
func (l RapidLayout) Raw() bool {
	return l.RawOK && rapid.IntRange(0, 3).Draw(l.T, "raw") == 0
}

// GenExtractRegexp builds the expression of a regexp stage out of pieces: named groups that
// always take part in a match, named groups inside an optional part or one branch of an
// alternation (they may stay out of a successful match and then extract ""), unnamed groups
// and literals. Every name is used once.
func GenExtractRegexp(t *rapid.T, names []string, label string) string {
	names = rapid.Permutation(names).Draw(t, label+"-names")
	next := func() string {
		n := names[0]
		names = names[1:]
		return n
	}
	classes := []string{`\w+`, `\S+`, `-?\d+`, `[a-z]+`, `[A-Z]+`, `[0-9.]+`, `[^" ]*`}
	class := func() string { return rapid.SampledFrom(classes).Draw(t, label+"-class") }
	var sb strings.Builder
	if rapid.IntRange(0, 3).Draw(t, label+"-anchor") == 0 {
		sb.WriteString("^")
	}
	n := rapid.IntRange(1, 3).Draw(t, label+"-pieces")
	for i := 0; i < n && len(names) >= 2; i++ {
		if i > 0 {
			sb.WriteString(rapid.SampledFrom([]string{" ", " ", "", `\s+`, `.*?`}).Draw(t, label+"-sep"))
		}
		switch rapid.IntRange(0, 5).Draw(t, label+"-piece") {
		case 0, 1:
			sb.WriteString("(?P<" + next() + ">" + class() + ")")
		case 2:
			sb.WriteString("( (?P<" + next() + ">" + class() + "))?")
		case 3:
			sb.WriteString("(?P<" + next() + ">" + class() + ")?")
		case 4:
			sb.WriteString("(?:(?P<" + next() + ">" + class() + ")|(?P<" + next() + ">" + class() + "))")
		case 5:
			sb.WriteString("(" + class() + ")")
		}
	}
	return sb.String()
}
