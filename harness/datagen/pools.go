// Package datagen holds the rapid generators for records and queries. Every random choice
// is drawn from *rapid.T so that cases shrink and replay.
package datagen

import (
	"math"
	"sort"
	"strings"
	"time"

	"pgregory.net/rapid"

	"github.com/tdakkota/docker-logql/verifharness/model"
)

// Field describes one label or document field of a case.
type Field struct {
	Name string
	// Type: str | int | float | dur | bytes | ip | bool
	Type string
	Pool []string
}

// Schema describes the data of one case.
type Schema struct {
	// Format of the lines: plain | json | logfmt | delim
	Format string
	Labels []Field // record attributes
	Fields []Field // fields rendered into the line
	// OneIP: every line carries exactly one address (needed for != ip() line filters).
	OneIP bool
}

var (
	plainNames = []string{"app", "env", "host", "level", "a", "b", "ab", "svc"}
	// Function words are legal identifiers by the lexer's own rule.
	funcNames  = []string{"count", "rate", "bytes", "ip", "duration", "sum", "max", "vector"}
	fieldNames = []string{"status", "dur", "size", "addr", "user", "ok", "ratio", "method", "path", "n"}

	strPool   = []string{"prod", "dev", "pro", "prod-eu", "web", "db", "api"}
	ambiguous = []string{"", "a", "b", "ab", "xb", "ba", "a b"}
	intPool   = []string{"200", "404", "500", "0", "-1", "499", "7"}
	floatPool = []string{"0.5", "1.5", "2.25", "100", "0.001", "-2.5"}
	durPool   = []string{"150ms", "2s", "1m30s", "1h", "0s", "999ms", "1.5s"}
	bytesPool = []string{"10KB", "1KiB", "1.5MB", "512", "2MiB", "42B", "1GB"}
	ipPool    = []string{"10.0.0.1", "192.168.1.7", "172.16.5.4", "10.0.0.5", "::1", "2001:db8::1",
		// every hexadecimal letter in both cases, the first and the last ones included; the shortest addresses
		"fe80::a", "FE80::1", "2001:db8::f00d", "abcd:ef01::A", "::", "::f", "a::"}
	boolPool = []string{"true", "false"}
	junkPool = []string{"abc", "n/a", "x5"}

	words = []string{"error", "warn", "info", "GET", "POST", "timeout", "user", "disk", "full", "retry", "ok", "Error:"}
)

func poolOf(typ string) []string {
	switch typ {
	case "int":
		return intPool
	case "float":
		return floatPool
	case "dur":
		return durPool
	case "bytes":
		return bytesPool
	case "ip":
		return ipPool
	case "bool":
		return boolPool
	}
	return strPool
}

var fieldTypes = map[string]string{
	"status": "int", "dur": "dur", "size": "bytes", "addr": "ip", "user": "str", "ok": "bool",
	"ratio": "float", "method": "str", "path": "str", "n": "int",
}

func subPool(t *rapid.T, pool []string, label string) []string {
	n := rapid.IntRange(1, 3).Draw(t, label+"-poolsize")
	out := make([]string, 0, n)
	for i := 0; i < n; i++ {
		out = append(out, rapid.SampledFrom(pool).Draw(t, label+"-poolval"))
	}
	return out
}

// QuotedPool holds values that differ only in characters a naive label-set rendering confuses.
var QuotedPool = []string{`a"b`, `a\"b`, `a\b`, "x,y", `x",y="`, "k=v", "line\nbreak", "line\\nbreak", `"`, ``, `,`}

// GenSchemaQ is GenSchema with quoting-sensitive label values mixed in.
func GenSchemaQ(t *rapid.T, formats []string, quoted bool) Schema {
	s := GenSchema(t, formats)
	if quoted && len(s.Labels) > 0 && rapid.Bool().Draw(t, "quoted-values") {
		i := rapid.IntRange(0, len(s.Labels)-1).Draw(t, "quoted-label")
		s.Labels[i].Type = "str"
		s.Labels[i].Pool = subPool(t, QuotedPool, "quoted")
		if len(s.Labels) > 1 && rapid.Bool().Draw(t, "quoted-two") {
			j := (i + 1) % len(s.Labels)
			s.Labels[j].Type = "str"
			s.Labels[j].Pool = subPool(t, QuotedPool, "quoted2")
		}
	}
	if quoted && len(s.Labels) > 1 && rapid.IntRange(0, 2).Draw(t, "splice") == 0 {
		// Two label sets whose naive renderings "k=v,k=v" coincide: {L1="x,L2=y", L2="z"}
		// and {L1="x", L2="y,L2=z"} (and the same with quotes that are not escaped).
		sort.Slice(s.Labels, func(a, b int) bool { return s.Labels[a].Name < s.Labels[b].Name })
		i := rapid.IntRange(0, len(s.Labels)-2).Draw(t, "splice-at")
		l1, l2 := &s.Labels[i], &s.Labels[i+1]
		l1.Type, l2.Type = "str", "str"
		if rapid.Bool().Draw(t, "splice-quotes") {
			l1.Pool = []string{"x", `x",` + l2.Name + `="y`}
			l2.Pool = []string{"z", `y",` + l2.Name + `="z`}
		} else {
			l1.Pool = []string{"x", "x," + l2.Name + "=y"}
			l2.Pool = []string{"z", "y," + l2.Name + "=z"}
		}
	}
	return s
}

// GenSchema draws the shape of a case's data.
func GenSchema(t *rapid.T, formats []string) Schema {
	var s Schema
	s.Format = rapid.SampledFrom(formats).Draw(t, "format")
	nl := rapid.IntRange(1, 4).Draw(t, "nlabels")
	used := map[string]bool{}
	for i := 0; i < nl; i++ {
		var name string
		if rapid.IntRange(0, 4).Draw(t, "funcname") == 0 {
			name = rapid.SampledFrom(funcNames).Draw(t, "labelname")
		} else {
			name = rapid.SampledFrom(plainNames).Draw(t, "labelname")
		}
		if used[name] {
			continue
		}
		used[name] = true
		typ := rapid.SampledFrom([]string{"str", "str", "str", "amb", "int", "ip"}).Draw(t, "labeltype")
		f := Field{Name: name, Type: typ}
		if typ == "amb" {
			f.Type = "str"
			f.Pool = subPool(t, ambiguous, name)
		} else {
			f.Pool = subPool(t, poolOf(typ), name)
		}
		s.Labels = append(s.Labels, f)
	}
	if s.Format != "plain" {
		nf := rapid.IntRange(1, 5).Draw(t, "nfields")
		if s.Format == "delim" {
			// fixed shape: addr user status size "method path"
			for _, n := range []string{"addr", "user", "status", "size", "method", "path"} {
				s.Fields = append(s.Fields, Field{Name: n, Type: fieldTypes[n], Pool: subPool(t, poolOf(fieldTypes[n]), n)})
			}
		} else {
			for i := 0; i < nf; i++ {
				name := rapid.SampledFrom(fieldNames).Draw(t, "fieldname")
				if used[name] && rapid.IntRange(0, 3).Draw(t, "collide") != 0 {
					continue
				}
				dup := false
				for _, f := range s.Fields {
					dup = dup || f.Name == name
				}
				if dup {
					continue
				}
				s.Fields = append(s.Fields, Field{Name: name, Type: fieldTypes[name], Pool: subPool(t, poolOf(fieldTypes[name]), name)})
			}
			// Sometimes a field holds a nested object or an array (exposed as its JSON text).
			if s.Format == "json" && rapid.IntRange(0, 2).Draw(t, "nested-field") == 0 {
				s.Fields = append(s.Fields, Field{Name: "meta", Type: "obj", Pool: []string{`{"user":"bob"}`, `[1,2]`, `{"user":"eve"}`, `[]`}})
			}
			// Sometimes a field shadows a record label (a parser stage must override it).
			if len(s.Labels) > 0 && rapid.IntRange(0, 3).Draw(t, "shadow") == 0 {
				l := s.Labels[0]
				s.Fields = append(s.Fields, Field{Name: l.Name, Type: "str", Pool: []string{"shadow", l.Pool[0]}})
			}
		}
	}
	s.OneIP = rapid.IntRange(0, 3).Draw(t, "oneip") == 0
	return s
}

const (
	// BaseTS is the instant generated data is centred on (2023-11-14T22:13:20Z).
	BaseTS = int64(1700000000) * int64(time.Second)
	ms     = int64(time.Millisecond)
)

// GenTimestamps draws n non-decreasing timestamps on a millisecond lattice with ties.
func GenTimestamps(t *rapid.T, n int, spanMs int64, distinct bool) []int64 {
	out := make([]int64, n)
	cur := BaseTS
	for i := range out {
		var d int64
		switch rapid.IntRange(0, 3).Draw(t, "gap") {
		case 0:
			d = 0
		case 1:
			d = 1
		default:
			d = rapid.Int64Range(0, spanMs).Draw(t, "gapms")
		}
		if distinct && d == 0 && i > 0 {
			d = 1
		}
		cur += d * ms
		out[i] = cur
	}
	return out
}

func drawValue(t *rapid.T, f Field, label string) (string, bool) {
	switch rapid.IntRange(0, 11).Draw(t, label+"-valkind") {
	case 0:
		return "", false // missing
	case 1:
		if f.Type != "str" && f.Type != "bool" {
			return rapid.SampledFrom(junkPool).Draw(t, label+"-junk"), true
		}
	case 2:
		// texts that convert to the special floats: NaN fails every ordered comparison, the
		// infinities are beyond every number
		if (f.Type == "int" || f.Type == "float") && rapid.IntRange(0, 2).Draw(t, label+"-special") == 0 {
			return rapid.SampledFrom([]string{"NaN", "nan", "+Inf", "-Inf", "Inf", "1e400", "-1e400"}).Draw(t, label+"-specialval"), true
		}
	}
	return rapid.SampledFrom(f.Pool).Draw(t, label+"-val"), true
}

func needsLogfmtQuote(v string) bool {
	if v == "" {
		return false
	}
	for _, c := range v {
		if c <= ' ' || c == '=' || c == '"' || c == 0x7f {
			return true
		}
	}
	return false
}

func logfmtQuote(v string) string {
	out := `"`
	for _, c := range v {
		switch c {
		case '"':
			out += `\"`
		case '\\':
			out += `\\`
		default:
			out += string(c)
		}
	}
	return out + `"`
}

func plainLine(t *rapid.T, s Schema) string {
	n := rapid.IntRange(0, 5).Draw(t, "nwords")
	var parts []string
	ipAt := -1
	if s.OneIP {
		ipAt = rapid.IntRange(0, n).Draw(t, "ipat")
	}
	for i := 0; i <= n; i++ {
		if i == ipAt {
			parts = append(parts, rapid.SampledFrom(ipPool).Draw(t, "lineip"))
			continue
		}
		if i == n {
			break
		}
		switch rapid.IntRange(0, 7).Draw(t, "wordkind") {
		case 0:
			if !s.OneIP {
				parts = append(parts, rapid.SampledFrom(ipPool).Draw(t, "lineip"))
				continue
			}
			parts = append(parts, "zz")
		case 1:
			parts = append(parts, rapid.SampledFrom([]string{"42", "7", "2024"}).Draw(t, "num"))
		default:
			parts = append(parts, rapid.SampledFrom(words).Draw(t, "word"))
		}
	}
	sep := rapid.SampledFrom([]string{" ", " ", "  ", ", ", " | "}).Draw(t, "sep")
	line := ""
	for i, p := range parts {
		if i > 0 {
			line += sep
		}
		line += p
	}
	// A writer that ends its lines with CR LF leaves a carriage return at the end of the message.
	if rapid.IntRange(0, 7).Draw(t, "crlf") == 0 {
		line += "\r"
	}
	return line
}

// GenRecs draws n records for schema s. distinctTS forces distinct timestamps.
func GenRecs(t *rapid.T, s Schema, maxN int, distinctTS bool) []model.Rec {
	n := rapid.IntRange(0, maxN).Draw(t, "nrecs")
	tss := GenTimestamps(t, n, 40, distinctTS)
	recs := make([]model.Rec, n)
	for i := range recs {
		// The previous record once more: the same timestamp, line and labels (a line logged
		// twice within one clock tick is two records).
		if i > 0 && !distinctTS && rapid.IntRange(0, 14).Draw(t, "repeat") == 0 {
			prev := recs[i-1]
			r := model.Rec{TS: prev.TS, Line: prev.Line, Doc: prev.Doc, Labels: map[string]string{}}
			for k, v := range prev.Labels {
				r.Labels[k] = v
			}
			recs[i] = r
			continue
		}
		// A twin of the previous record: the same line, the same labels except that one of them
		// is gone and another one, which the previous record lacks, is there with an empty
		// value (as many labels, all shared ones equal).
		if i > 0 && len(s.Labels) >= 2 && rapid.IntRange(0, 9).Draw(t, "twin") == 0 {
			prev := recs[i-1]
			r := model.Rec{TS: tss[i], Line: prev.Line, Doc: prev.Doc, Labels: map[string]string{}}
			var have, lack []string
			for _, l := range s.Labels {
				if v, ok := prev.Labels[l.Name]; ok {
					r.Labels[l.Name] = v
					have = append(have, l.Name)
				} else {
					lack = append(lack, l.Name)
				}
			}
			if len(have) > 0 && len(lack) > 0 {
				delete(r.Labels, rapid.SampledFrom(have).Draw(t, "twin-drop"))
				r.Labels[rapid.SampledFrom(lack).Draw(t, "twin-add")] = ""
			}
			recs[i] = r
			continue
		}
		r := model.Rec{TS: tss[i], Labels: map[string]string{}}
		for _, l := range s.Labels {
			if v, ok := drawValue(t, l, "l-"+l.Name); ok {
				r.Labels[l.Name] = v
			}
		}
		noise := s.Format == "json" && rapid.IntRange(0, 7).Draw(t, "noise") == 0
		switch {
		case noise:
			// Not JSON from the very first byte, whatever mode the json stage runs in.
			r.Line = genBS("noise " + plainLine(t, s))
		case s.Format == "plain":
			r.Line = genBS(plainLine(t, s))
		case s.Format == "json":
			obj := model.JV{K: "obj"}
			for _, f := range s.Fields {
				v, ok := drawValue(t, f, "f-"+f.Name)
				if !ok {
					if rapid.IntRange(0, 2).Draw(t, "null") == 0 {
						obj.Obj = append(obj.Obj, model.JField{Key: f.Name, Val: model.JV{K: "null"}})
					}
					continue
				}
				jv := model.JV{K: "str", S: v}
				switch f.Type {
				case "obj":
					switch v {
					case `{"user":"bob"}`:
						jv = model.JV{K: "obj", Obj: []model.JField{{Key: "user", Val: model.JV{K: "str", S: "bob"}}}}
					case `{"user":"eve"}`:
						jv = model.JV{K: "obj", Obj: []model.JField{{Key: "user", Val: model.JV{K: "str", S: "eve"}}}}
					case `[1,2]`:
						jv = model.JV{K: "arr", Arr: []model.JV{{K: "num", S: "1"}, {K: "num", S: "2"}}}
					case `[]`:
						jv = model.JV{K: "arr"}
					}
				case "int", "float":
					if _, isNum := numValue(v); isNum && rapid.IntRange(0, 3).Draw(t, "numasstr") != 0 {
						jv = model.JV{K: "num", S: v}
					}
				case "bool":
					jv = model.JV{K: "bool", B: v == "true"}
				}
				obj.Obj = append(obj.Obj, model.JField{Key: f.Name, Val: jv})
			}
			if rapid.IntRange(0, 5).Draw(t, "oddkey") == 0 {
				obj.Obj = append(obj.Obj, model.JField{Key: rapid.SampledFrom([]string{"user.id", "x-y", "9lives", "sp ace"}).Draw(t, "oddkeyname"), Val: model.JV{K: "str", S: "odd"}})
			}
			r.Line = genBS(obj.Render())
			r.Doc = &model.Doc{Format: "json", JSON: &obj}
			if len(obj.Obj) > 0 && rapid.IntRange(0, 9).Draw(t, "cut-in-first-value") == 0 {
				// A document cut inside the value of its first member (a writer that died, a line
				// limit): nothing of it can be extracted, the line is kept and flagged. What a stage
				// keeps in mind from such a line must not reach the next one.
				first := obj.Obj[0]
				head := "{" + (model.JV{K: "str", S: first.Key}).Render() + ":"
				val := first.Val.Render()
				k := 0
				switch first.Val.K {
				case "str", "bool", "null":
					k = rapid.IntRange(0, len(val)-1).Draw(t, "cut-at")
				case "obj", "arr":
					k = rapid.IntRange(0, min(2, len(val)-1)).Draw(t, "cut-at")
				}
				if strings.HasPrefix(string(r.Line), head) {
					r.Line = genBS(head + val[:k])
					r.Doc = &model.Doc{Format: "json", JSON: &obj, Malformed: true}
				}
			}
		case s.Format == "logfmt":
			doc := &model.Doc{Format: "logfmt"}
			line := ""
			for _, f := range s.Fields {
				v, ok := drawValue(t, f, "f-"+f.Name)
				if !ok {
					continue
				}
				doc.Pairs = append(doc.Pairs, model.Pair{Key: f.Name, Val: v})
				if line != "" {
					line += " "
				}
				if needsLogfmtQuote(v) {
					line += f.Name + "=" + logfmtQuote(v)
				} else {
					line += f.Name + "=" + v
				}
			}
			r.Line = genBS(line)
			r.Doc = doc
		case s.Format == "packed":
			// A promtail-packed entry: {"_entry": <line>, <label>: <string>, ...}
			entry := plainLine(t, s)
			if rapid.IntRange(0, 4).Draw(t, "quoted-entry") == 0 {
				entry = rapid.SampledFrom([]string{`say "hi"`, `{"json":"inside"}`, `back\\slash`, "_entry", `^{`}).Draw(t, "entrytext") + " " + entry
			}
			obj := model.JV{K: "obj"}
			for _, f := range s.Fields {
				if v, ok := drawValue(t, f, "f-"+f.Name); ok {
					obj.Obj = append(obj.Obj, model.JField{Key: f.Name, Val: model.JV{K: "str", S: v}})
				}
			}
			at := rapid.IntRange(0, len(obj.Obj)).Draw(t, "entry-at")
			ef := model.JField{Key: "_entry", Val: model.JV{K: "str", S: entry}}
			obj.Obj = append(obj.Obj[:at], append([]model.JField{ef}, obj.Obj[at:]...)...)
			r.Line = genBS(obj.Render())
			r.Doc = &model.Doc{Format: "packed", JSON: &obj}
			if rapid.IntRange(0, 7).Draw(t, "packed-cut-after-entry") == 0 {
				// A packed line that breaks off after its entry: unpacking fails, and a stage that
				// fails leaves the line alone - the entry it had already read included.
				r.Line = genBS(`{"_entry":` + (model.JV{K: "str", S: entry}).Render() + `,"k":"unterminat`)
				r.Doc = &model.Doc{Format: "packed", JSON: &obj, Malformed: true}
			}
		case s.Format == "delim":
			vals := map[string]string{}
			for _, f := range s.Fields {
				v := rapid.SampledFrom(f.Pool).Draw(t, "d-"+f.Name)
				if f.Type == "str" {
					// captures are delimited by blanks / quotes: keep them out of values
					v = rapid.SampledFrom([]string{"alice", "bob", "GET", "POST", "/api", "/", "web"}).Draw(t, "d-word")
				}
				vals[f.Name] = v
			}
			r.Line = genBS(vals["addr"] + " " + vals["user"] + " " + vals["status"] + " " + vals["size"] + ` "` + vals["method"] + " " + vals["path"] + `"`)
		}
		recs[i] = r
	}
	return recs
}

// numValue tells whether s can be written as a JSON number (NaN and the infinities convert
// to floats but are not JSON numbers: they stay strings).
func numValue(s string) (float64, bool) {
	f, err := parseFloat(s)
	if err != nil || math.IsNaN(f) || math.IsInf(f, 0) {
		return f, false
	}
	return f, true
}
