package datagen

import (
	"fmt"
	"strconv"
	"strings"

	"pgregory.net/rapid"

	"github.com/tdakkota/docker-logql/verifharness/gen"
)

// This file generates queries over the whole supported grammar for the parser properties
// (C05, C17). Literals are generated together with the value they denote, computed from the
// harness's own unit tables.

var durUnits = []struct {
	text string
	ns   int64
	prom bool // Prometheus-only unit (needs descending order, integers)
}{
	{"ns", 1, false}, {"us", 1e3, false}, {"µs", 1e3, false}, {"ms", 1e6, false}, {"s", 1e9, false}, {"m", 60e9, false}, {"h", 3600e9, false},
	{"d", 24 * 3600e9, true}, {"w", 7 * 24 * 3600e9, true}, {"y", 365 * 24 * 3600e9, true},
}

// GenDuration draws a duration literal and its value. allowYear includes the unit "y".
func GenDuration(t *rapid.T, label string, allowYear bool) (string, int64) {
	switch rapid.IntRange(0, 5).Draw(t, label+"-durkind") {
	case 0:
		// Prometheus compound: descending units y w d h m s ms, each at most once.
		order := []int{9, 8, 7, 6, 5, 4, 3}
		var sb strings.Builder
		var total int64
		for _, ui := range order {
			if ui == 9 && !allowYear {
				continue
			}
			if rapid.IntRange(0, 3).Draw(t, label+"-use") == 0 {
				k := rapid.Int64Range(1, 59).Draw(t, label+"-k")
				sb.WriteString(strconv.FormatInt(k, 10) + durUnits[ui].text)
				total += k * durUnits[ui].ns
			}
		}
		if total == 0 {
			return "5m", 300e9
		}
		return sb.String(), total
	case 1:
		// Go duration with a decimal.
		ui := rapid.IntRange(3, 6).Draw(t, label+"-unit")
		whole := rapid.Int64Range(0, 20).Draw(t, label+"-whole")
		return fmt.Sprintf("%d.5%s", whole, durUnits[ui].text), whole*durUnits[ui].ns + durUnits[ui].ns/2
	default:
		max := len(durUnits) - 1
		if !allowYear {
			max--
		}
		ui := rapid.IntRange(0, max).Draw(t, label+"-unit")
		k := rapid.Int64Range(1, 300).Draw(t, label+"-k")
		if durUnits[ui].text == "y" && k > 200 {
			k = 200 // a duration holds about 292 years
		}
		return strconv.FormatInt(k, 10) + durUnits[ui].text, k * durUnits[ui].ns
	}
}

var byteUnits = []struct {
	text string
	mult uint64
}{
	{"B", 1}, {"b", 1}, {"KB", 1e3}, {"kb", 1e3}, {"MB", 1e6}, {"GB", 1e9}, {"TB", 1e12},
	{"KiB", 1 << 10}, {"MiB", 1 << 20}, {"GiB", 1 << 30}, {"TiB", 1 << 40}, {"kib", 1 << 10}, {"Ki", 1 << 10}, {"K", 1e3}, {"G", 1e9}, {"Gi", 1 << 30},
}

// GenBytes draws a byte-size literal and its value.
func GenBytes(t *rapid.T, label string) (string, uint64) {
	u := rapid.SampledFrom(byteUnits).Draw(t, label+"-byteunit")
	k := rapid.Uint64Range(1, 900).Draw(t, label+"-k") // "0B" is a binary literal prefix for the scanner
	if u.mult >= 1000 && rapid.IntRange(0, 3).Draw(t, label+"-half") == 0 {
		return fmt.Sprintf("%d.5%s", k, u.text), k*u.mult + u.mult/2
	}
	return strconv.FormatUint(k, 10) + u.text, k * u.mult
}

// GenNumber draws a non-negative number literal and its value.
func GenNumber(t *rapid.T, label string) (string, float64) {
	v := rapid.SampledFrom([]struct {
		text string
		v    float64
	}{{"0", 0}, {"1", 1}, {"42", 42}, {"3.14", 3.14}, {"0.5", 0.5}, {"1e3", 1000}, {"2.5e-3", 0.0025}, {"1E2", 100}, {"100", 100}, {"007", 7}, {"10.0", 10}, {"400", 400}}).Draw(t, label+"-num")
	return v.text, v.v
}

// GenByteString draws a string with arbitrary bytes.
func GenByteString(t *rapid.T, label string) string {
	switch rapid.IntRange(0, 5).Draw(t, label+"-strkind") {
	case 0:
		return string(rapid.SliceOfN(rapid.Byte(), 0, 8).Draw(t, label+"-bytes"))
	case 1:
		return rapid.SampledFrom([]string{"", " ", "\"", "\\", "`", "a\"b\\c", "new\nline", "cr\r\nlf", "\r", "tab\t", "{}", "|=", "#not a comment", "é世", "\x00", "\xff\xfe", "' single '", "{{.x}}"}).Draw(t, label+"-special")
	default:
		return rapid.StringMatching(`[a-zA-Z0-9 _./:-]{0,12}`).Draw(t, label+"-plain")
	}
}

var identPool = []string{"app", "env", "host", "level", "a", "b", "status", "method", "x_1", "_u", "count", "rate", "bytes", "ip", "duration", "sum", "topk", "vector", "sort", "avg_over_time", "label_replace", "duration_seconds",
	// names that are function words in another letter case are ordinary names
	"Duration", "Count", "Bytes", "IP", "Rate", "Sum", "Max", "TopK", "Avg_Over_Time"}

func genIdent(t *rapid.T, label string) string {
	return rapid.SampledFrom(identPool).Draw(t, label)
}

func genIdents(t *rapid.T, label string, min, max int) []string {
	return dedup(rapid.SliceOfN(rapid.SampledFrom(identPool), min, max).Draw(t, label))
}

var validRegexes = []string{".*", ".+", "a|b", "[0-9]+", "(?i)err", "^x", "y$", "\\d{3}", "", "foo.bar", "(a)(b)", "\\.", "[^\"]+", "é+"}

func genGrammarMatcher(t *rapid.T, label string) gen.Matcher {
	m := gen.Matcher{Label: genIdent(t, label+"-name"), Op: rapid.SampledFrom([]string{"=", "!=", "=~", "!~"}).Draw(t, label+"-op")}
	if m.Op == "=~" || m.Op == "!~" {
		m.Value = genBS(rapid.SampledFrom(validRegexes).Draw(t, label+"-re"))
	} else {
		m.Value = genBS(GenByteString(t, label))
	}
	return m
}

func genGrammarPred(t *rapid.T, depth int) *gen.Pred {
	if depth <= 0 || rapid.IntRange(0, 2).Draw(t, "gp-leaf") != 0 {
		name := genIdent(t, "gp-name")
		cmp := []string{"==", "!=", ">", ">=", "<", "<="}
		var p *gen.Pred
		switch rapid.IntRange(0, 4).Draw(t, "gp-kind") {
		case 0:
			m := genGrammarMatcher(t, "gp-m")
			p = &gen.Pred{Kind: "match", Label: name, Op: m.Op, Str: m.Value}
		case 1:
			txt, v := GenNumber(t, "gp")
			p = &gen.Pred{Kind: "num", Label: name, Op: rapid.SampledFrom(cmp).Draw(t, "gp-op"), Text: txt, Num: v}
		case 2:
			txt, v := GenDuration(t, "gp", false)
			p = &gen.Pred{Kind: "dur", Label: name, Op: rapid.SampledFrom(cmp).Draw(t, "gp-op"), Text: txt, Dur: v}
		case 3:
			txt, v := GenBytes(t, "gp")
			p = &gen.Pred{Kind: "bytes", Label: name, Op: rapid.SampledFrom(cmp).Draw(t, "gp-op"), Text: txt, Bytes: v}
		default:
			p = &gen.Pred{Kind: "ip", Label: name, Op: rapid.SampledFrom([]string{"==", "!="}).Draw(t, "gp-op"), Str: genBS(rapid.SampledFrom(ipLiterals).Draw(t, "gp-ip"))}
		}
		p.Paren = rapid.IntRange(0, 5).Draw(t, "gp-paren") == 0
		return p
	}
	kind := rapid.SampledFrom([]string{"and", "or"}).Draw(t, "gp-conn")
	p := &gen.Pred{Kind: kind, L: genGrammarPred(t, depth-1), R: genGrammarPred(t, depth-1)}
	if kind == "and" {
		p.Conj = rapid.SampledFrom([]string{"and", ",", " "}).Draw(t, "gp-conj")
	}
	// The parser nests chains to the right: a connective on the left is always parenthesised,
	// one on the right only when it is of the other kind.
	if p.L.Kind == "and" || p.L.Kind == "or" {
		p.L.Paren = true
	}
	if (p.R.Kind == "and" || p.R.Kind == "or") && p.R.Kind != kind {
		p.R.Paren = true
	}
	if p.Conj == " " && startsWithParen(p.R) {
		p.Conj = "and"
	}
	p.Paren = rapid.IntRange(0, 6).Draw(t, "gp-paren2") == 0
	return p
}

var rawTemplates = []string{"{{.foo}}", "{{ __line__ }} - {{ .a | upper }}", "plain text", "{{ if eq .level \"error\" }}E{{ else }}-{{ end }}", "", "{{ printf \"%5.2f\" .x }}", "{{ .a }} \"quoted\" `tick`"}

// tmplFuncs is the function table of the template language: name -> argument kinds
// (s string, i small integer, f float, r regular expression, T time).
var tmplFuncs = []struct {
	name string
	args string
}{
	{"ToLower", "s"}, {"ToUpper", "s"}, {"Replace", "sssi"}, {"Trim", "ss"}, {"TrimLeft", "ss"}, {"TrimRight", "ss"},
	{"TrimPrefix", "ss"}, {"TrimSuffix", "ss"}, {"TrimSpace", "s"}, {"regexReplaceAll", "rss"}, {"regexReplaceAllLiteral", "rss"},
	{"count", "rs"}, {"urldecode", "s"}, {"urlencode", "s"}, {"bytes", "s"}, {"duration", "s"}, {"duration_seconds", "s"},
	{"unixEpochMillis", "T"}, {"unixEpochNanos", "T"}, {"toDateInZone", "sss"}, {"unixToTime", "s"}, {"alignLeft", "is"},
	{"alignRight", "is"}, {"b64enc", "s"}, {"b64dec", "s"}, {"lower", "s"}, {"upper", "s"}, {"title", "s"}, {"trunc", "is"},
	{"substr", "iis"}, {"contains", "ss"}, {"hasPrefix", "ss"}, {"hasSuffix", "ss"}, {"indent", "is"}, {"nindent", "is"},
	{"replace", "sss"}, {"repeat", "is"}, {"trim", "s"}, {"trimAll", "ss"}, {"trimSuffix", "ss"}, {"trimPrefix", "ss"},
	{"int", "s"}, {"float64", "s"}, {"add", "ii"}, {"sub", "ii"}, {"mul", "ii"}, {"div", "ii"}, {"mod", "ii"}, {"addf", "ff"},
	{"subf", "ff"}, {"mulf", "ff"}, {"divf", "ff"}, {"max", "ii"}, {"min", "ii"}, {"maxf", "ff"}, {"minf", "ff"}, {"ceil", "f"},
	{"floor", "f"}, {"round", "fi"}, {"fromJson", "s"}, {"date", "sT"}, {"toDate", "ss"}, {"now", ""}, {"unixEpoch", "T"},
	{"default", "ss"}, {"printf", "ss"}, {"len", "s"}, {"index", "si"}, {"slice", "sii"}, {"nosuchfunc", "s"},
}

// GenRawTemplate draws a template that calls the functions of the template language with
// arguments of the right and of the wrong kind (counts stay small: a huge repeat or pad count
// is a request for a huge string, not a defect).
func GenRawTemplate(t *rapid.T, label string) string {
	arg := func(kind byte, i int) string {
		l := label + "-arg" + string(rune('0'+i))
		if rapid.IntRange(0, 9).Draw(t, l+"-wrong") == 0 {
			kind = "sifrT"[rapid.IntRange(0, 4).Draw(t, l+"-wrongkind")]
		}
		switch kind {
		case 'i':
			return rapid.SampledFrom([]string{"0", "1", "3", "-1", "64", "7", "(len .a)", "(int .val)", "-9223372036854775808"}).Draw(t, l+"-int")
		case 'f':
			return rapid.SampledFrom([]string{"0.0", "1.5", "-2.25", "1e300", "(float64 .val)", "0"}).Draw(t, l+"-float")
		case 'r':
			return rapid.SampledFrom([]string{`"a+"`, `"(.)"`, `"^$"`, `"("`, `"[a-"`, `"(?P<x>\\d+)"`, `".*"`, "`\\w`", `""`}).Draw(t, l+"-re")
		case 'T':
			return rapid.SampledFrom([]string{"__timestamp__", "now", "(unixToTime .ts)", `(toDate "2006-01-02" .a)`}).Draw(t, l+"-time")
		}
		return rapid.SampledFrom([]string{".a", ".level", ".nosuch", "__line__", `"x"`, `""`, `"2006-01-02"`, `"%d|%5s"`, `"ü世\\xff"`, "`raw`", "(.a | upper)", `"{\\"k\\":[1,{\\"z\\":null}]}"`, `"%zz"`, `"UTC"`, `"Nowhere/Land"`}).Draw(t, l+"-str")
	}
	call := func(label string) string {
		f := rapid.SampledFrom(tmplFuncs).Draw(t, label+"-fn")
		out := f.name
		n := len(f.args)
		if rapid.IntRange(0, 11).Draw(t, label+"-arity") == 0 {
			n += rapid.SampledFrom([]int{-1, 1}).Draw(t, label+"-arity-delta")
		}
		for i := 0; i < n; i++ {
			k := byte('s')
			if i < len(f.args) {
				k = f.args[i]
			}
			out += " " + arg(k, i)
		}
		return out
	}
	var sb strings.Builder
	for i, n := 0, rapid.IntRange(1, 3).Draw(t, label+"-parts"); i < n; i++ {
		l := label + "-p" + string(rune('0'+i))
		switch rapid.IntRange(0, 6).Draw(t, l+"-kind") {
		case 0:
			sb.WriteString(rapid.SampledFrom([]string{"text ", "-", "}} {", "{{/* c */}}", "\\n"}).Draw(t, l+"-lit"))
		case 1:
			sb.WriteString("{{ " + call(l) + " | " + call(l+"-pipe") + " }}")
		case 2:
			sb.WriteString("{{ if " + call(l) + " }}Y{{ else }}" + "{{ " + call(l+"-else") + " }}{{ end }}")
		case 3:
			sb.WriteString("{{ range $i, $e := " + rapid.SampledFrom([]string{"(fromJson .a)", ".", "(fromJson __line__)", `(fromJson "[1,2]")`}).Draw(t, l+"-range") + " }}{{ $e }}{{ end }}")
		default:
			sb.WriteString("{{ " + call(l) + " }}")
		}
	}
	return sb.String()
}

// GenGrammarStage draws any pipeline stage of the grammar.
func GenGrammarStage(t *rapid.T) gen.Stage {
	switch rapid.IntRange(0, 15).Draw(t, "gs-kind") {
	case 0, 1:
		st := gen.Stage{Kind: "linefilter", Op: rapid.SampledFrom([]string{"|=", "!=", "|~", "!~"}).Draw(t, "gs-op")}
		if st.Op == "|~" || st.Op == "!~" {
			st.Value = genBS(rapid.SampledFrom(validRegexes).Draw(t, "gs-re"))
		} else {
			st.Value = genBS(GenByteString(t, "gs-needle"))
		}
		return st
	case 2:
		return gen.Stage{Kind: "ipfilter", Op: rapid.SampledFrom([]string{"|=", "!="}).Draw(t, "gs-ipop"), Value: genBS(rapid.SampledFrom(ipLiterals).Draw(t, "gs-ip"))}
	case 3, 4:
		return gen.Stage{Kind: "labelfilter", Pred: genGrammarPred(t, 2)}
	case 5, 6:
		st := gen.Stage{Kind: rapid.SampledFrom([]string{"json", "logfmt"}).Draw(t, "gs-parser")}
		if rapid.Bool().Draw(t, "gs-parser-args") {
			st.Labels = genIdents(t, "gs-parser-labels", 0, 3)
			n := rapid.IntRange(0, 2).Draw(t, "gs-nexprs")
			for i := 0; i < n; i++ {
				st.Exprs = append(st.Exprs, gen.KV{Label: genIdent(t, "gs-expr-label"), Expr: rapid.SampledFrom([]string{"a.b", "a[0]", `["k"]`, "x", "a.b[1].c", "some key",
					// expressions that are nearly nothing: a lone quote, an empty pair, an unterminated one
					`"`, `""`, `"a`, `a"`, `\`, "", " ", "[", "]", ".", `"\"`, "'"}).Draw(t, "gs-expr")})
			}
		}
		return st
	case 7:
		if rapid.Bool().Draw(t, "gs-built-regexp") {
			return gen.Stage{Kind: "regexp", Regex: GenExtractRegexp(t, []string{"a", "ip", "user", "x_1", "level", "val"}, "gs-regexp")}
		}
		return gen.Stage{Kind: "regexp", Regex: rapid.SampledFrom([]string{`(?P<a>\w+)`, `^(?P<ip>\S+) (?P<user>\S+)`, `(?P<x_1>.*)`, `no captures`, `(?P<level>err|warn)(\d+)`}).Draw(t, "gs-regexp")}
	case 8:
		return gen.Stage{Kind: "pattern", Pattern: rapid.SampledFrom([]string{"<a> <b>", "<_> - <user> [<ts>]", "<ip>", "literal <x> tail"}).Draw(t, "gs-pattern")}
	case 9:
		return gen.Stage{Kind: "unpack"}
	case 10:
		return gen.Stage{Kind: "decolorize"}
	case 11:
		if rapid.Bool().Draw(t, "gs-built-tmpl") {
			return gen.Stage{Kind: "line_format", RawTmpl: GenRawTemplate(t, "gs-tmpl")}
		}
		return gen.Stage{Kind: "line_format", RawTmpl: rapid.SampledFrom(rawTemplates).Draw(t, "gs-tmpl")}
	case 12:
		st := gen.Stage{Kind: "label_format"}
		used := map[string]bool{}
		n := rapid.IntRange(1, 3).Draw(t, "gs-lf-n")
		// The parse result keeps renames and templates in two lists: print renames first.
		var tmpls []gen.LabelTmpl
		for i := 0; i < n; i++ {
			dst := genIdent(t, "gs-lf-dst")
			if used[dst] {
				continue
			}
			used[dst] = true
			if rapid.Bool().Draw(t, "gs-lf-rename") {
				st.Renames = append(st.Renames, gen.Rename{Dst: dst, Src: genIdent(t, "gs-lf-src")})
			} else {
				text := rapid.SampledFrom(rawTemplates).Draw(t, "gs-lf-tmpl")
				if rapid.Bool().Draw(t, "gs-lf-built-tmpl") {
					text = GenRawTemplate(t, "gs-lf-tmpl")
				}
				tmpls = append(tmpls, gen.LabelTmpl{Dst: dst, Tmpl: []gen.TmplPart{{Kind: "lit", Text: text}}})
			}
		}
		st.Templates = tmpls
		return st
	case 13, 14:
		st := gen.Stage{Kind: rapid.SampledFrom([]string{"drop", "keep"}).Draw(t, "gs-dk")}
		st.Labels = genIdents(t, "gs-dk-labels", 0, 3)
		n := rapid.IntRange(0, 2).Draw(t, "gs-dk-nm")
		for i := 0; i < n; i++ {
			st.Matchers = append(st.Matchers, genGrammarMatcher(t, "gs-dk-m"))
		}
		if len(st.Labels) == 0 && len(st.Matchers) == 0 {
			st.Labels = []string{"a"}
		}
		return st
	default:
		return gen.Stage{Kind: "distinct", Labels: genIdents(t, "gs-distinct", 1, 3)}
	}
}

// GenGrammarLog draws a log query over the whole grammar.
func GenGrammarLog(t *rapid.T, maxStages int) *gen.LogQuery {
	q := &gen.LogQuery{}
	n := rapid.IntRange(0, 3).Draw(t, "gl-nm")
	for i := 0; i < n; i++ {
		q.Sel = append(q.Sel, genGrammarMatcher(t, "gl-m"))
	}
	ns := rapid.IntRange(0, maxStages).Draw(t, "gl-ns")
	for i := 0; i < ns; i++ {
		q.Stages = append(q.Stages, GenGrammarStage(t))
	}
	FixAmbiguities(q)
	return q
}

var allRangeFns = []string{"count_over_time", "rate", "bytes_over_time", "bytes_rate", "avg_over_time", "sum_over_time", "min_over_time", "max_over_time",
	"stdvar_over_time", "stddev_over_time", "quantile_over_time", "first_over_time", "last_over_time", "absent_over_time", "rate_counter"}

var unwrapAllowed = map[string]bool{"avg_over_time": true, "sum_over_time": true, "max_over_time": true, "min_over_time": true, "stddev_over_time": true,
	"stdvar_over_time": true, "quantile_over_time": true, "rate": true, "rate_counter": true, "absent_over_time": true, "first_over_time": true, "last_over_time": true}
var unwrapRequired = map[string]bool{"avg_over_time": true, "sum_over_time": true, "max_over_time": true, "min_over_time": true, "stddev_over_time": true,
	"stdvar_over_time": true, "quantile_over_time": true, "rate_counter": true, "first_over_time": true, "last_over_time": true}

// GenGrammarRange draws any valid range aggregation.
func GenGrammarRange(t *rapid.T, allowYear bool) *gen.Metric {
	m := &gen.Metric{Kind: "range", Op: rapid.SampledFrom(allRangeFns).Draw(t, "gr-fn")}
	m.Log = GenGrammarLog(t, 3)
	// A parenthesised selector is part of the grammar of range expressions only.
	if rapid.IntRange(0, 5).Draw(t, "gr-selparens") == 0 {
		m.Log.SelParens = rapid.IntRange(1, 2).Draw(t, "gr-nparens")
	}
	m.RangeText, m.RangeNs = GenDuration(t, "gr-range", allowYear)
	if rapid.IntRange(0, 2).Draw(t, "gr-offset") == 0 {
		m.HasOffset = true
		m.OffsetText, m.OffsetNs = GenDuration(t, "gr-off", allowYear)
	}
	if unwrapRequired[m.Op] || (unwrapAllowed[m.Op] && rapid.Bool().Draw(t, "gr-unwrap")) {
		u := &gen.Unwrap{Label: genIdent(t, "gr-unwrap-label"), Conv: rapid.SampledFrom([]string{"", "", "bytes", "duration", "duration_seconds"}).Draw(t, "gr-conv")}
		n := rapid.IntRange(0, 2).Draw(t, "gr-nfilters")
		for i := 0; i < n; i++ {
			u.Filters = append(u.Filters, genGrammarMatcher(t, "gr-uf"))
		}
		m.Unwrap = u
	}
	if m.Op == "quantile_over_time" {
		m.HasParam = true
		m.ParamText, m.Param = GenNumber(t, "gr-param")
	}
	if groupable[m.Op] && rapid.Bool().Draw(t, "gr-grouping") {
		m.Grouping = &gen.Grouping{Without: rapid.Bool().Draw(t, "gr-without"), Labels: genIdents(t, "gr-glabels", 0, 3)}
	}
	m.RangeLast = rapid.Bool().Draw(t, "gr-rangelast")
	// A pipeline ending with a bare drop/keep directly followed by "[" is fine, but
	// "| unwrap" after a line filter etc. is also fine: nothing to fix here.
	return m
}

// GenGrammarMetric draws any valid metric expression.
func GenGrammarMetric(t *rapid.T, depth int, allowYear bool) *gen.Metric {
	kind := rapid.IntRange(0, 9).Draw(t, "gm-kind")
	if depth <= 0 && kind >= 3 {
		kind = rapid.IntRange(0, 2).Draw(t, "gm-leafkind")
	}
	var m *gen.Metric
	switch kind {
	case 0, 1:
		m = GenGrammarRange(t, allowYear)
	case 2:
		txt, v := GenNumber(t, "gm-vec")
		m = &gen.Metric{Kind: "vector", Value: v, ValueText: txt}
	case 3, 4, 5:
		m = &gen.Metric{Kind: "vecagg", Op: rapid.SampledFrom([]string{"sum", "avg", "count", "max", "min", "stddev", "stdvar", "bottomk", "topk", "sort", "sort_desc"}).Draw(t, "gm-agg")}
		m.Inner = GenGrammarMetric(t, depth-1, allowYear)
		// A leading number inside an aggregation is read as its parameter.
		if startsWithNumber(m.Inner) {
			m.Inner.Parens++
		}
		if m.Op == "topk" || m.Op == "bottomk" {
			m.HasK, m.K = true, rapid.IntRange(1, 20).Draw(t, "gm-k")
			if rapid.IntRange(0, 5).Draw(t, "gm-k-zeros") == 0 {
				// Leading zeros do not make an integer octal.
				z := rapid.SampledFrom([]struct {
					text string
					v    int
				}{{"010", 10}, {"0012", 12}, {"007", 7}, {"0100", 100}, {"01", 1}, {"00020", 20}}).Draw(t, "gm-k-zerotext")
				m.K, m.KText = z.v, z.text
			} else if rapid.IntRange(0, 7).Draw(t, "gm-k-huge") == 0 {
				m.K = rapid.SampledFrom([]int{1 << 31, 1 << 40, 1 << 58, 1<<62 + 1, 1<<63 - 1}).Draw(t, "gm-k-hugeval")
			}
		}
		if m.Op != "sort" && m.Op != "sort_desc" && rapid.Bool().Draw(t, "gm-grouping") {
			m.Grouping = &gen.Grouping{Without: rapid.Bool().Draw(t, "gm-without"), Labels: genIdents(t, "gm-glabels", 0, 3)}
			m.GroupingFirst = rapid.Bool().Draw(t, "gm-gfirst")
		}
	case 6:
		m = &gen.Metric{Kind: "label_replace", Inner: GenGrammarMetric(t, depth-1, allowYear)}
		m.Dst, m.Repl, m.Src = genIdent(t, "gm-lr-dst"), rapid.SampledFrom([]string{"$1", "x", "", "${1}-y"}).Draw(t, "gm-lr-repl"), genIdent(t, "gm-lr-src")
		m.Regex = rapid.SampledFrom(validRegexes).Draw(t, "gm-lr-re")
	default:
		m = &gen.Metric{Kind: "binop"}
		m.Op = rapid.SampledFrom(append(append(append([]string{}, ArithOps...), CmpOps...), SetOps...)).Draw(t, "gm-op")
		operand := func(label string) *gen.Metric {
			if !isSet(m.Op) && rapid.IntRange(0, 3).Draw(t, label+"-lit") == 0 {
				txt, v := GenNumber(t, label)
				sign := rapid.SampledFrom([]string{"", "", "-", "+"}).Draw(t, label+"-sign")
				if sign == "-" {
					v = -v
				}
				return &gen.Metric{Kind: "literal", Value: v, ValueText: sign + txt}
			}
			o := GenGrammarMetric(t, depth-1, allowYear)
			// Operator grouping at equal precedence is C13's subject (and the domain of its known
			// finding): nested operations are parenthesised, except that an operand may be a bare
			// operation that binds strictly tighter than this one ("a * b + c", "a unless b or c",
			// "a and 2 == b") - its text then denotes the same tree without parentheses.
			if o.Kind == "binop" && o.Parens == 0 {
				// (not over two scalars: Loki folds "1+2" into a scalar, which a set operator rejects)
				if BinPrec(o.Op) > BinPrec(m.Op) && !(o.L.Kind == "literal" && o.R.Kind == "literal") && rapid.Bool().Draw(t, label+"-bare") {
					return o
				}
				o.Parens = 1
			}
			return o
		}
		m.L, m.R = operand("gm-l"), operand("gm-r")
		// Deliberately: one operand is a bare operation of a tighter level, most often the next
		// one up ("a unless b or c", "a > b and c", "a + b > c", "a * b + c", "a ^ b * c").
		if rapid.IntRange(0, 3).Draw(t, "gm-chain") == 0 {
			var tighter []string
			for _, op := range append(append(append([]string{}, ArithOps...), CmpOps...), SetOps...) {
				if d := BinPrec(op) - BinPrec(m.Op); d == 1 || (d > 1 && rapid.IntRange(0, 3).Draw(t, "gm-chain-far") == 0) {
					tighter = append(tighter, op)
				}
			}
			if len(tighter) > 0 {
				child := &gen.Metric{Kind: "binop", Op: rapid.SampledFrom(tighter).Draw(t, "gm-chain-op")}
				simple := func(label string) *gen.Metric {
					o := GenGrammarMetric(t, 0, allowYear)
					if o.Kind == "binop" && o.Parens == 0 {
						o.Parens = 1
					}
					return o
				}
				child.L, child.R = simple("gm-chain-l"), simple("gm-chain-r")
				if rapid.Bool().Draw(t, "gm-chain-left") {
					m.L = child
				} else {
					m.R = child
				}
			}
		}
		if !isSet(m.Op) && CmpOpSet[m.Op] && rapid.Bool().Draw(t, "gm-bool") {
			m.Bool = true
		}
		if m.L.Kind != "literal" && m.R.Kind != "literal" && rapid.IntRange(0, 3).Draw(t, "gm-on") == 0 {
			m.OnOp = rapid.SampledFrom([]string{"on", "ignoring"}).Draw(t, "gm-onop")
			m.OnLabels = genIdents(t, "gm-onlabels", 0, 2)
			if rapid.Bool().Draw(t, "gm-group") {
				m.Group = rapid.SampledFrom([]string{"left", "right"}).Draw(t, "gm-groupside")
				// An include list directly in front of a parenthesised right operand would be
				// read as part of that operand: only generate it when the operand does not
				// start with "(".
				if !metricStartsWithParen(m.R) && rapid.Bool().Draw(t, "gm-include") {
					m.HasInclude = true
					m.Include = genIdents(t, "gm-include-labels", 0, 2)
				}
			}
		}
	}
	if m.Kind != "literal" && rapid.IntRange(0, 6).Draw(t, "gm-parens") == 0 {
		m.Parens += rapid.IntRange(1, 2).Draw(t, "gm-nparens")
	}
	return m
}

func metricStartsWithParen(m *gen.Metric) bool {
	if m.Parens > 0 {
		return true
	}
	if m.Kind == "binop" {
		return metricStartsWithParen(m.L)
	}
	return false
}

func startsWithNumber(m *gen.Metric) bool {
	if m.Parens > 0 {
		return false
	}
	switch m.Kind {
	case "literal":
		return true
	case "binop":
		return startsWithNumber(m.L)
	}
	return false
}

// BinPrec is the conventional precedence level of a binary operator (higher binds tighter).
func BinPrec(op string) int {
	switch op {
	case "or":
		return 1
	case "and", "unless":
		return 2
	case "==", "!=", ">", ">=", "<", "<=":
		return 3
	case "+", "-":
		return 4
	case "*", "/", "%":
		return 5
	case "^":
		return 6
	}
	return 0
}

func isSet(op string) bool { return op == "and" || op == "or" || op == "unless" }

// CmpOpSet is the set of comparison operators.
var CmpOpSet = map[string]bool{"==": true, "!=": true, ">": true, ">=": true, "<": true, "<=": true}

// GenGrammarQuery draws any valid query.
func GenGrammarQuery(t *rapid.T, allowYear bool) gen.Query {
	if rapid.IntRange(0, 2).Draw(t, "gq-log") == 0 {
		q := gen.Query{Log: GenGrammarLog(t, 6)}
		if rapid.IntRange(0, 6).Draw(t, "gq-logparens") == 0 {
			q.LogParens = rapid.IntRange(1, 2).Draw(t, "gq-nlogparens")
		}
		return q
	}
	return gen.Query{Metric: GenGrammarMetric(t, 3, allowYear)}
}

// CountConstructs counts the grammar constructs of a query (a rough size measure).
func CountConstructs(q gen.Query) int {
	if q.Log != nil {
		return 1 + len(q.Log.Sel) + len(q.Log.Stages)
	}
	return countMetric(q.Metric)
}

func countMetric(m *gen.Metric) int {
	if m == nil {
		return 0
	}
	switch m.Kind {
	case "range":
		n := 2 + len(m.Log.Sel) + len(m.Log.Stages)
		if m.Unwrap != nil {
			n++
		}
		if m.HasOffset {
			n++
		}
		if m.Grouping != nil {
			n++
		}
		return n
	case "vecagg", "label_replace":
		return 1 + countMetric(m.Inner)
	case "binop":
		return 1 + countMetric(m.L) + countMetric(m.R)
	}
	return 1
}
