// Package repoast builds the repository's LogQL AST directly from the harness's query model
// (never by parsing text) and renders any AST of the repository as a canonical text in which
// redundant parenthesis wrappers are erased and compiled regexes appear as their source.
package repoast

import (
	"fmt"
	"regexp"
	"sort"
	"strings"
	"time"

	"github.com/tdakkota/docker-logql/internal/logql"
	"github.com/tdakkota/docker-logql/verifharness/gen"
)

var binOps = map[string]logql.BinOp{
	"and": logql.OpAnd, "or": logql.OpOr, "unless": logql.OpUnless,
	"+": logql.OpAdd, "-": logql.OpSub, "*": logql.OpMul, "/": logql.OpDiv, "%": logql.OpMod, "^": logql.OpPow,
	"==": logql.OpEq, "!=": logql.OpNotEq, ">": logql.OpGt, ">=": logql.OpGte, "<": logql.OpLt, "<=": logql.OpLte,
	"=": logql.OpEq, "=~": logql.OpRe, "!~": logql.OpNotRe, "|=": logql.OpEq, "|~": logql.OpRe,
}

var rangeOps = map[string]logql.RangeOp{
	"count_over_time": logql.RangeOpCount, "rate": logql.RangeOpRate, "rate_counter": logql.RangeOpRateCounter,
	"bytes_over_time": logql.RangeOpBytes, "bytes_rate": logql.RangeOpBytesRate, "avg_over_time": logql.RangeOpAvg,
	"sum_over_time": logql.RangeOpSum, "min_over_time": logql.RangeOpMin, "max_over_time": logql.RangeOpMax,
	"stdvar_over_time": logql.RangeOpStdvar, "stddev_over_time": logql.RangeOpStddev, "quantile_over_time": logql.RangeOpQuantile,
	"first_over_time": logql.RangeOpFirst, "last_over_time": logql.RangeOpLast, "absent_over_time": logql.RangeOpAbsent,
}

var vectorOps = map[string]logql.VectorOp{
	"sum": logql.VectorOpSum, "avg": logql.VectorOpAvg, "count": logql.VectorOpCount, "max": logql.VectorOpMax, "min": logql.VectorOpMin,
	"stddev": logql.VectorOpStddev, "stdvar": logql.VectorOpStdvar, "bottomk": logql.VectorOpBottomk, "topk": logql.VectorOpTopk,
	"sort": logql.VectorOpSort, "sort_desc": logql.VectorOpSortDesc,
}

func labelRe(op string, v string) *regexp.Regexp {
	if op != "=~" && op != "!~" {
		return nil
	}
	// Source only: the dump compares regexes by their source text.
	re, err := regexp.Compile("^(?:" + v + ")$")
	if err != nil {
		return nil
	}
	return re
}

func matcher(m gen.Matcher) logql.LabelMatcher {
	return logql.LabelMatcher{Label: logql.Label(m.Label), Op: binOps[m.Op], Value: string(m.Value), Re: labelRe(m.Op, string(m.Value))}
}

func labels(ls []string) []logql.Label {
	if ls == nil {
		return nil
	}
	out := make([]logql.Label, len(ls))
	for i, l := range ls {
		out[i] = logql.Label(l)
	}
	return out
}

func pred(p *gen.Pred) logql.LabelPredicate {
	switch p.Kind {
	case "and", "or":
		op := logql.OpAnd
		if p.Kind == "or" {
			op = logql.OpOr
		}
		return &logql.LabelPredicateBinOp{Left: pred(p.L), Op: op, Right: pred(p.R)}
	case "match":
		op := p.Op
		if op == "==" {
			op = "="
		}
		m := matcher(gen.Matcher{Label: p.Label, Op: op, Value: p.Str})
		return &m
	case "num":
		return &logql.NumberFilter{Label: logql.Label(p.Label), Op: binOps[p.Op], Value: p.Num}
	case "dur":
		return &logql.DurationFilter{Label: logql.Label(p.Label), Op: binOps[p.Op], Value: time.Duration(p.Dur)}
	case "bytes":
		return &logql.BytesFilter{Label: logql.Label(p.Label), Op: binOps[p.Op], Value: p.Bytes}
	case "ip":
		return &logql.IPFilter{Label: logql.Label(p.Label), Op: binOps[p.Op], Value: string(p.Str)}
	}
	return nil
}

func extraction(s gen.Stage) ([]logql.Label, []logql.LabelExtractionExpr) {
	var exprs []logql.LabelExtractionExpr
	for _, e := range s.Exprs {
		exprs = append(exprs, logql.LabelExtractionExpr{Label: logql.Label(e.Label), Expr: e.Expr})
	}
	return labels(s.Labels), exprs
}

func stage(s gen.Stage) logql.PipelineStage {
	switch s.Kind {
	case "linefilter":
		lf := &logql.LineFilter{Op: binOps[s.Op], Value: string(s.Value)}
		if s.Op == "|~" || s.Op == "!~" {
			lf.Re, _ = regexp.Compile(string(s.Value))
		}
		return lf
	case "ipfilter":
		return &logql.LineFilter{Op: binOps[s.Op], Value: string(s.Value), IP: true}
	case "labelfilter":
		return &logql.LabelFilter{Pred: pred(s.Pred)}
	case "json":
		l, e := extraction(s)
		return &logql.JSONExpressionParser{Labels: l, Exprs: e}
	case "logfmt":
		l, e := extraction(s)
		return &logql.LogfmtExpressionParser{Labels: l, Exprs: e}
	case "regexp":
		re, err := regexp.Compile(s.Regex)
		if err != nil {
			return &logql.RegexpLabelParser{}
		}
		mapping := map[int]logql.Label{}
		for i, n := range re.SubexpNames() {
			if n != "" {
				mapping[i] = logql.Label(n)
			}
		}
		return &logql.RegexpLabelParser{Regexp: re, Mapping: mapping}
	case "pattern":
		return &logql.PatternLabelParser{Pattern: s.Pattern}
	case "unpack":
		return &logql.UnpackLabelParser{}
	case "decolorize":
		return &logql.DecolorizeExpr{}
	case "line_format":
		if s.RawTmpl != "" {
			return &logql.LineFormat{Template: s.RawTmpl}
		}
		return &logql.LineFormat{Template: gen.TemplateText(s.Tmpl)}
	case "label_format":
		lf := &logql.LabelFormatExpr{}
		for _, r := range s.Renames {
			// Field convention pinned by label_format_test.go: Label is renamed to To.
			lf.Labels = append(lf.Labels, logql.RenameLabel{Label: logql.Label(r.Src), To: logql.Label(r.Dst)})
		}
		for _, t := range s.Templates {
			lf.Values = append(lf.Values, logql.LabelTemplate{Label: logql.Label(t.Dst), Template: gen.TemplateText(t.Tmpl)})
		}
		return lf
	case "drop", "keep":
		var ms []logql.LabelMatcher
		for _, m := range s.Matchers {
			ms = append(ms, matcher(m))
		}
		if s.Kind == "drop" {
			return &logql.DropLabelsExpr{Labels: labels(s.Labels), Matchers: ms}
		}
		return &logql.KeepLabelsExpr{Labels: labels(s.Labels), Matchers: ms}
	case "distinct":
		return &logql.DistinctFilter{Labels: labels(s.Labels)}
	}
	return nil
}

func selector(ms []gen.Matcher) logql.Selector {
	var s logql.Selector
	for _, m := range ms {
		s.Matchers = append(s.Matchers, matcher(m))
	}
	return s
}

func pipeline(stages []gen.Stage) []logql.PipelineStage {
	var out []logql.PipelineStage
	for _, s := range stages {
		out = append(out, stage(s))
	}
	return out
}

func grouping(g *gen.Grouping) *logql.Grouping {
	if g == nil {
		return nil
	}
	return &logql.Grouping{Labels: labels(g.Labels), Without: g.Without}
}

// Metric converts a metric expression.
func Metric(m *gen.Metric) logql.MetricExpr {
	switch m.Kind {
	case "literal":
		return &logql.LiteralExpr{Value: m.Value}
	case "vector":
		return &logql.VectorExpr{Value: m.Value}
	case "range":
		e := &logql.RangeAggregationExpr{Op: rangeOps[m.Op], Grouping: grouping(m.Grouping)}
		e.Range = logql.LogRangeExpr{Sel: selector(m.Log.Sel), Range: time.Duration(m.RangeNs), Pipeline: pipeline(m.Log.Stages)}
		if m.HasOffset {
			e.Range.Offset = &logql.OffsetExpr{Duration: time.Duration(m.OffsetNs)}
		}
		if u := m.Unwrap; u != nil {
			ue := &logql.UnwrapExpr{Op: u.Conv, Label: logql.Label(u.Label)}
			for _, f := range u.Filters {
				ue.Filters = append(ue.Filters, matcher(f))
			}
			e.Range.Unwrap = ue
		}
		if m.HasParam {
			p := m.Param
			e.Parameter = &p
		}
		return e
	case "vecagg":
		e := &logql.VectorAggregationExpr{Op: vectorOps[m.Op], Expr: Metric(m.Inner), Grouping: grouping(m.Grouping)}
		if m.HasK {
			k := m.K
			e.Parameter = &k
		}
		return e
	case "label_replace":
		re, _ := regexp.Compile("^(?:" + m.Regex + ")$")
		return &logql.LabelReplaceExpr{Expr: Metric(m.Inner), DstLabel: m.Dst, Replacement: m.Repl, SrcLabel: m.Src, Regex: m.Regex, Re: re}
	case "binop":
		e := &logql.BinOpExpr{Left: Metric(m.L), Op: binOps[m.Op], Right: Metric(m.R)}
		e.Modifier = logql.BinOpModifier{Op: m.OnOp, OpLabels: labels(m.OnLabels), Group: m.Group, Include: labels(m.Include), ReturnBool: m.Bool}
		return e
	}
	return nil
}

// Query converts a whole query.
func Query(q gen.Query) logql.Expr {
	if q.Log != nil {
		return &logql.LogExpr{Sel: selector(q.Log.Sel), Pipeline: pipeline(q.Log.Stages)}
	}
	return Metric(q.Metric)
}

// ---- canonical dump ----

func reSrc(re *regexp.Regexp) string {
	if re == nil {
		return "<nil>"
	}
	return fmt.Sprintf("re(%q)", re.String())
}

func dumpLabels(ls []logql.Label) string {
	parts := make([]string, len(ls))
	for i, l := range ls {
		parts[i] = string(l)
	}
	return "[" + strings.Join(parts, ",") + "]"
}

func dumpMatcher(m logql.LabelMatcher) string {
	return fmt.Sprintf("M(%s %d %q %s)", m.Label, m.Op, m.Value, reSrc(m.Re))
}

func dumpMatchers(ms []logql.LabelMatcher) string {
	parts := make([]string, len(ms))
	for i, m := range ms {
		parts[i] = dumpMatcher(m)
	}
	return "[" + strings.Join(parts, " ") + "]"
}

func dumpPred(p logql.LabelPredicate) string {
	switch p := p.(type) {
	case *logql.LabelPredicateParen:
		return dumpPred(p.X) // wrapper erased
	case *logql.LabelPredicateBinOp:
		return fmt.Sprintf("(%s %d %s)", dumpPred(p.Left), p.Op, dumpPred(p.Right))
	case *logql.LabelMatcher:
		return dumpMatcher(*p)
	case *logql.NumberFilter:
		return fmt.Sprintf("Num(%s %d %v)", p.Label, p.Op, p.Value)
	case *logql.DurationFilter:
		return fmt.Sprintf("Dur(%s %d %d)", p.Label, p.Op, int64(p.Value))
	case *logql.BytesFilter:
		return fmt.Sprintf("Bytes(%s %d %d)", p.Label, p.Op, p.Value)
	case *logql.IPFilter:
		return fmt.Sprintf("IP(%s %d %q)", p.Label, p.Op, p.Value)
	case nil:
		return "<nil pred>"
	}
	return fmt.Sprintf("<unknown pred %T>", p)
}

func dumpExprs(es []logql.LabelExtractionExpr) string {
	parts := make([]string, len(es))
	for i, e := range es {
		parts[i] = fmt.Sprintf("%s=%q", e.Label, e.Expr)
	}
	return "[" + strings.Join(parts, " ") + "]"
}

func dumpStage(s logql.PipelineStage) string {
	switch s := s.(type) {
	case *logql.LineFilter:
		return fmt.Sprintf("LineFilter(%d %q %s ip=%v)", s.Op, s.Value, reSrc(s.Re), s.IP)
	case *logql.JSONExpressionParser:
		return fmt.Sprintf("JSON(%s %s)", dumpLabels(s.Labels), dumpExprs(s.Exprs))
	case *logql.LogfmtExpressionParser:
		return fmt.Sprintf("Logfmt(%s %s)", dumpLabels(s.Labels), dumpExprs(s.Exprs))
	case *logql.RegexpLabelParser:
		var keys []int
		for k := range s.Mapping {
			keys = append(keys, k)
		}
		sort.Ints(keys)
		var parts []string
		for _, k := range keys {
			parts = append(parts, fmt.Sprintf("%d:%s", k, s.Mapping[k]))
		}
		return fmt.Sprintf("Regexp(%s %v)", reSrc(s.Regexp), parts)
	case *logql.PatternLabelParser:
		return fmt.Sprintf("Pattern(%q)", s.Pattern)
	case *logql.UnpackLabelParser:
		return "Unpack"
	case *logql.LineFormat:
		return fmt.Sprintf("LineFormat(%q)", s.Template)
	case *logql.DecolorizeExpr:
		return "Decolorize"
	case *logql.LabelFilter:
		return "LabelFilter" + dumpPred(s.Pred)
	case *logql.LabelFormatExpr:
		var parts []string
		for _, r := range s.Labels {
			parts = append(parts, fmt.Sprintf("rename(%s->%s)", r.Label, r.To))
		}
		for _, v := range s.Values {
			parts = append(parts, fmt.Sprintf("tmpl(%s=%q)", v.Label, v.Template))
		}
		return "LabelFormat[" + strings.Join(parts, " ") + "]"
	case *logql.DropLabelsExpr:
		return fmt.Sprintf("Drop(%s %s)", dumpLabels(s.Labels), dumpMatchers(s.Matchers))
	case *logql.KeepLabelsExpr:
		return fmt.Sprintf("Keep(%s %s)", dumpLabels(s.Labels), dumpMatchers(s.Matchers))
	case *logql.DistinctFilter:
		return fmt.Sprintf("Distinct(%s)", dumpLabels(s.Labels))
	case nil:
		return "<nil stage>"
	}
	return fmt.Sprintf("<unknown stage %T>", s)
}

func dumpPipeline(ps []logql.PipelineStage) string {
	parts := make([]string, len(ps))
	for i, s := range ps {
		parts[i] = dumpStage(s)
	}
	return "[" + strings.Join(parts, " | ") + "]"
}

func dumpGrouping(g *logql.Grouping) string {
	if g == nil {
		return "<no grouping>"
	}
	return fmt.Sprintf("Grouping(without=%v %s)", g.Without, dumpLabels(g.Labels))
}

// Dump renders e canonically.
func Dump(e logql.Expr) string {
	switch e := e.(type) {
	case *logql.ParenExpr:
		return Dump(e.X) // wrapper erased
	case *logql.LogExpr:
		return fmt.Sprintf("Log(%s %s)", dumpMatchers(e.Sel.Matchers), dumpPipeline(e.Pipeline))
	case *logql.LiteralExpr:
		return fmt.Sprintf("Literal(%v)", e.Value)
	case *logql.VectorExpr:
		return fmt.Sprintf("Vector(%v)", e.Value)
	case *logql.RangeAggregationExpr:
		param := "<no param>"
		if e.Parameter != nil {
			param = fmt.Sprint(*e.Parameter)
		}
		offset := "<no offset>"
		if e.Range.Offset != nil {
			offset = fmt.Sprint(int64(e.Range.Offset.Duration))
		}
		unwrap := "<no unwrap>"
		if u := e.Range.Unwrap; u != nil {
			unwrap = fmt.Sprintf("Unwrap(%q %s %s)", u.Op, u.Label, dumpMatchers(u.Filters))
		}
		return fmt.Sprintf("Range(%d param=%s sel=%s range=%d offset=%s pipeline=%s %s %s)", e.Op, param,
			dumpMatchers(e.Range.Sel.Matchers), int64(e.Range.Range), offset, dumpPipeline(e.Range.Pipeline), unwrap, dumpGrouping(e.Grouping))
	case *logql.VectorAggregationExpr:
		k := "<no k>"
		if e.Parameter != nil {
			k = fmt.Sprint(*e.Parameter)
		}
		return fmt.Sprintf("VecAgg(%d k=%s %s %s)", e.Op, k, dumpGrouping(e.Grouping), Dump(e.Expr))
	case *logql.LabelReplaceExpr:
		return fmt.Sprintf("LabelReplace(%s %q %q %q %q %s)", Dump(e.Expr), e.DstLabel, e.Replacement, e.SrcLabel, e.Regex, reSrc(e.Re))
	case *logql.BinOpExpr:
		m := e.Modifier
		return fmt.Sprintf("BinOp(%s %d {op=%q labels=%s group=%q include=%s bool=%v} %s)", Dump(e.Left), e.Op, m.Op, dumpLabels(m.OpLabels), m.Group, dumpLabels(m.Include), m.ReturnBool, Dump(e.Right))
	case nil:
		return "<nil expr>"
	}
	return fmt.Sprintf("<unknown expr %T>", e)
}
