package gen

import (
	"fmt"
	"strconv"
	"strings"
	"unicode/utf8"
)

// Layout makes the insignificant choices of the printer: whitespace and comments between
// tokens and the quoting style of string literals.
type Layout interface {
	// Sep returns what is written between two tokens; must is true when at least one blank
	// is needed to keep the tokens apart.
	Sep(must bool) string
	// Raw tells whether a string that can be written as a raw `...` string should be.
	Raw() bool
}

// PlainRaw is Plain with every string that can be a raw `...` string written as one.
type PlainRaw struct{ Plain }

// Raw implements Layout.
func (PlainRaw) Raw() bool { return true }

// Plain is the canonical layout: single blanks where needed, double-quoted strings.
type Plain struct{}

// Sep implements Layout.
func (Plain) Sep(must bool) string {
	if must {
		return " "
	}
	return ""
}

// Raw implements Layout.
func (Plain) Raw() bool { return false }

// Quote renders s as a double-quoted LogQL string using only escapes the lexer understands.
// Arbitrary bytes are written as \xhh so that the query text itself stays valid UTF-8.
func Quote(s string) string {
	var sb strings.Builder
	sb.WriteByte('"')
	for i := 0; i < len(s); {
		r, size := utf8.DecodeRuneInString(s[i:])
		switch {
		case r == utf8.RuneError && size <= 1:
			fmt.Fprintf(&sb, `\x%02x`, s[i])
		case r == '"':
			sb.WriteString(`\"`)
		case r == '\\':
			sb.WriteString(`\\`)
		case r == '\n':
			sb.WriteString(`\n`)
		case r == '\r':
			sb.WriteString(`\r`)
		case r == '\t':
			sb.WriteString(`\t`)
		case r < 0x20 || r == 0x7f:
			fmt.Fprintf(&sb, `\x%02x`, r)
		case r == 0xFEFF || r == utf8.RuneError:
			fmt.Fprintf(&sb, `\u%04x`, r)
		default:
			sb.WriteRune(r)
		}
		i += size
	}
	sb.WriteByte('"')
	return sb.String()
}

// CanRaw tells whether s can be written as a raw string.
func CanRaw(s string) bool {
	if !utf8.ValidString(s) {
		return false
	}
	for _, r := range s {
		// A raw string keeps its content verbatim, carriage returns included.
		if r == '`' || r == 0 || r == 0xFEFF || r == utf8.RuneError {
			return false
		}
	}
	return true
}

type printer struct {
	sb strings.Builder
	l  Layout
	// needSep: the last token ends with an identifier/number character.
	lastWord bool
	started  bool
}

func isWordByte(c byte) bool {
	return c == '_' || c == '.' || (c >= '0' && c <= '9') || (c >= 'a' && c <= 'z') || (c >= 'A' && c <= 'Z') || c >= 0x80
}

// tok writes one token, separated from the previous one as the layout decides.
func (p *printer) tok(t string) {
	if t == "" {
		return
	}
	if p.started {
		must := p.lastWord && isWordByte(t[0])
		// Keep operator characters of adjacent tokens apart so that they do not fuse into
		// another token ("|" "=" ..., "!" "=", "-" "-", "=" "~", ">" "=").
		if !must {
			last := p.sb.String()[p.sb.Len()-1]
			if strings.IndexByte("|!=<>-~/", last) >= 0 && strings.IndexByte("|!=<>-~/", t[0]) >= 0 {
				must = true
			}
		}
		p.sb.WriteString(p.l.Sep(must))
	}
	p.started = true
	p.sb.WriteString(t)
	p.lastWord = isWordByte(t[len(t)-1])
}

func (p *printer) str(s string) {
	// A carriage return is the one character the quoted and the raw spelling treat differently
	// in Go source (a raw string literal drops it; LogQL keeps it): asked twice.
	if strings.Contains(s, "\r") && CanRaw(s) && p.l.Raw() {
		p.tok("`" + s + "`")
		return
	}
	if p.l.Raw() && CanRaw(s) {
		p.tok("`" + s + "`")
		return
	}
	p.tok(Quote(s))
}

func (p *printer) matcher(m Matcher) {
	p.tok(m.Label)
	p.tok(m.Op)
	p.str(string(m.Value))
}

func (p *printer) selector(sel []Matcher, parens int) {
	for i := 0; i < parens; i++ {
		p.tok("(")
	}
	p.tok("{")
	for i, m := range sel {
		if i > 0 {
			p.tok(",")
		}
		p.matcher(m)
	}
	p.tok("}")
	for i := 0; i < parens; i++ {
		p.tok(")")
	}
}

func (p *printer) pred(x *Pred) {
	if x.Paren {
		p.tok("(")
	}
	switch x.Kind {
	case "and", "or":
		p.pred(x.L)
		switch {
		case x.Kind == "or":
			p.tok("or")
		case x.Conj == ",":
			p.tok(",")
		case x.Conj == " ":
			// juxtaposition: the separator alone
			p.lastWord = true
		default:
			p.tok("and")
		}
		p.pred(x.R)
	case "match":
		p.tok(x.Label)
		p.tok(x.Op)
		p.str(string(x.Str))
	case "ip":
		p.tok(x.Label)
		p.tok(x.Op)
		p.tok("ip")
		p.tok("(")
		p.str(string(x.Str))
		p.tok(")")
	default: // num, dur, bytes
		p.tok(x.Label)
		p.tok(x.Op)
		p.tok(x.Text)
	}
	if x.Paren {
		p.tok(")")
	}
}

// TemplateText renders a template of the mini-grammar as Go template source.
func TemplateText(parts []TmplPart) string {
	var sb strings.Builder
	for _, t := range parts {
		switch t.Kind {
		case "lit":
			sb.WriteString(t.Text)
		case "label":
			sb.WriteString("{{." + t.A + "}}")
		case "line":
			sb.WriteString("{{ __line__ }}")
		case "ts_nanos":
			sb.WriteString("{{ __timestamp__ | unixEpochNanos }}")
		case "ts_unix":
			sb.WriteString("{{ __timestamp__.Unix }}")
		case "upper":
			sb.WriteString("{{ ." + t.A + " | upper }}")
		case "lower":
			sb.WriteString("{{ ." + t.A + " | lower }}")
		case "ToUpper":
			sb.WriteString("{{ ToUpper ." + t.A + " }}")
		case "ToLower":
			sb.WriteString("{{ ToLower ." + t.A + " }}")
		case "printf2":
			sb.WriteString(`{{ printf "%s-%s" .` + t.A + " ." + t.B + " }}")
		case "default":
			sb.WriteString("{{ default " + Quote(t.Text) + " ." + t.A + " }}")
		case "trim":
			sb.WriteString("{{ ." + t.A + " | trim }}")
		case "unix_of_label":
			// Succeeds for a 10-digit unix timestamp, fails for anything else: the failure
			// depends on the record and comes after earlier parts were already written.
			sb.WriteString("{{ (unixToTime ." + t.A + ").Unix }}")
		case "ts_millis":
			sb.WriteString("{{ __timestamp__ | unixEpochMillis }}")
		case "alignLeft", "alignRight":
			sb.WriteString("{{ " + t.Kind + " " + strconv.Itoa(t.N) + " ." + t.A + " }}")
		case "replace":
			sb.WriteString("{{ ." + t.A + " | replace " + Quote(t.Text) + " " + Quote(t.Text2) + " }}")
		case "trimPrefix", "trimSuffix":
			sb.WriteString("{{ " + t.Kind + " " + Quote(t.Text) + " ." + t.A + " }}")
		case "b64enc":
			sb.WriteString("{{ ." + t.A + " | b64enc }}")
		case "if_contains":
			sb.WriteString("{{ if contains " + Quote(t.Text) + " ." + t.A + " }}Y{{ else }}N{{ end }}")
		case "regex_wrap":
			sb.WriteString("{{ regexReplaceAll \"([a-z0-9])\" ." + t.A + " \"<$1>\" }}")
		case "regex_wrap_literal":
			sb.WriteString("{{ regexReplaceAllLiteral \"([a-z0-9])\" ." + t.A + " \"<$1>\" }}")
		case "regex_count":
			sb.WriteString("{{ count \"[a-z0-9]+\" ." + t.A + " }}")
		case "root_index":
			// the label through the root variable: no dot anywhere
			sb.WriteString("{{ index $ " + Quote(t.A) + " }}")
		case "fail_unixToTime":
			sb.WriteString("{{ unixToTime ." + t.A + " }}")
		case "fail_regex":
			sb.WriteString(`{{ regexReplaceAll "(" .` + t.A + ` "x" }}`)
		// Failures raised by the template engine itself, not by a function it called.
		case "fail_field":
			sb.WriteString("{{ ." + t.A + ".name }}")
		case "fail_argtype":
			sb.WriteString("{{ trunc ." + t.A + " 3 }}")
		case "fail_argcount":
			sb.WriteString("{{ lower ." + t.A + " ." + t.A + " }}")
		case "fail_index":
			sb.WriteString("{{ index ." + t.A + " 7 }}")
		}
	}
	return sb.String()
}

func (p *printer) stage(s Stage) {
	switch s.Kind {
	case "linefilter":
		p.tok(s.Op)
		p.str(string(s.Value))
		return
	case "ipfilter":
		p.tok(s.Op)
		p.tok("ip")
		p.tok("(")
		p.str(string(s.Value))
		p.tok(")")
		return
	}
	p.tok("|")
	switch s.Kind {
	case "labelfilter":
		p.pred(s.Pred)
	case "json", "logfmt":
		p.tok(s.Kind)
		first := true
		for _, l := range s.Labels {
			if !first {
				p.tok(",")
			}
			first = false
			p.tok(l)
		}
		for _, e := range s.Exprs {
			if !first {
				p.tok(",")
			}
			first = false
			p.tok(e.Label)
			p.tok("=")
			p.str(e.Expr)
		}
	case "regexp":
		p.tok("regexp")
		p.str(s.Regex)
	case "pattern":
		p.tok("pattern")
		p.str(s.Pattern)
	case "unpack":
		p.tok("unpack")
	case "decolorize":
		p.tok("decolorize")
	case "line_format":
		p.tok("line_format")
		if s.RawTmpl != "" {
			p.str(s.RawTmpl)
		} else {
			p.str(TemplateText(s.Tmpl))
		}
	case "label_format":
		p.tok("label_format")
		first := true
		for _, r := range s.Renames {
			if !first {
				p.tok(",")
			}
			first = false
			p.tok(r.Dst)
			p.tok("=")
			p.tok(r.Src)
		}
		for _, t := range s.Templates {
			if !first {
				p.tok(",")
			}
			first = false
			p.tok(t.Dst)
			p.tok("=")
			p.str(TemplateText(t.Tmpl))
		}
	case "drop", "keep":
		p.tok(s.Kind)
		first := true
		for _, l := range s.Labels {
			if !first {
				p.tok(",")
			}
			first = false
			p.tok(l)
		}
		for _, m := range s.Matchers {
			if !first {
				p.tok(",")
			}
			first = false
			p.matcher(m)
		}
	case "distinct":
		p.tok("distinct")
		for i, l := range s.Labels {
			if i > 0 {
				p.tok(",")
			}
			p.tok(l)
		}
	}
}

func (p *printer) logQuery(q *LogQuery) {
	p.selector(q.Sel, q.SelParens)
	for _, s := range q.Stages {
		p.stage(s)
	}
}

func (p *printer) labels(ls []string) {
	p.tok("(")
	for i, l := range ls {
		if i > 0 {
			p.tok(",")
		}
		p.tok(l)
	}
	p.tok(")")
}

func (p *printer) grouping(g *Grouping) {
	if g.Without {
		p.tok("without")
	} else {
		p.tok("by")
	}
	p.labels(g.Labels)
}

func (p *printer) rangeOffset(m *Metric) {
	p.tok("[")
	p.tok(m.RangeText)
	p.tok("]")
	if m.HasOffset {
		p.tok("offset")
		p.tok(m.OffsetText)
	}
}

func (p *printer) metric(m *Metric) {
	for i := 0; i < m.Parens; i++ {
		p.tok("(")
	}
	switch m.Kind {
	case "literal":
		p.tok(m.ValueText)
	case "vector":
		p.tok("vector")
		p.tok("(")
		p.tok(m.ValueText)
		p.tok(")")
	case "range":
		p.tok(m.Op)
		p.tok("(")
		if m.HasParam {
			p.tok(m.ParamText)
			p.tok(",")
		}
		p.selector(m.Log.Sel, m.Log.SelParens)
		if !m.RangeLast || len(m.Log.Stages) == 0 && m.Unwrap == nil {
			p.rangeOffset(m)
		}
		for _, s := range m.Log.Stages {
			p.stage(s)
		}
		if u := m.Unwrap; u != nil {
			p.tok("|")
			p.tok("unwrap")
			if u.Conv != "" {
				p.tok(u.Conv)
				p.tok("(")
				p.tok(u.Label)
				p.tok(")")
			} else {
				p.tok(u.Label)
			}
			for _, f := range u.Filters {
				p.tok("|")
				p.matcher(f)
			}
		}
		if m.RangeLast && (len(m.Log.Stages) > 0 || m.Unwrap != nil) {
			p.rangeOffset(m)
		}
		p.tok(")")
		if m.Grouping != nil {
			p.grouping(m.Grouping)
		}
	case "vecagg":
		p.tok(m.Op)
		if m.Grouping != nil && m.GroupingFirst {
			p.grouping(m.Grouping)
		}
		p.tok("(")
		if m.HasK {
			if m.KText != "" {
				p.tok(m.KText)
			} else {
				p.tok(fmt.Sprint(m.K))
			}
			p.tok(",")
		}
		p.metric(m.Inner)
		p.tok(")")
		if m.Grouping != nil && !m.GroupingFirst {
			p.grouping(m.Grouping)
		}
	case "label_replace":
		p.tok("label_replace")
		p.tok("(")
		p.metric(m.Inner)
		for _, s := range []string{m.Dst, m.Repl, m.Src, m.Regex} {
			p.tok(",")
			p.str(s)
		}
		p.tok(")")
	case "binop":
		p.metric(m.L)
		p.tok(m.Op)
		if m.Bool {
			p.tok("bool")
		}
		if m.OnOp != "" {
			p.tok(m.OnOp)
			p.labels(m.OnLabels)
			if m.Group != "" {
				p.tok("group_" + m.Group)
				if m.HasInclude {
					p.labels(m.Include)
				}
			}
		}
		p.metric(m.R)
	}
	for i := 0; i < m.Parens; i++ {
		p.tok(")")
	}
}

// Print renders q under layout l.
func Print(q Query, l Layout) string {
	p := &printer{l: l}
	if q.Log != nil {
		for i := 0; i < q.LogParens; i++ {
			p.tok("(")
		}
		p.logQuery(q.Log)
		for i := 0; i < q.LogParens; i++ {
			p.tok(")")
		}
	} else if q.Metric != nil {
		p.metric(q.Metric)
	}
	return p.sb.String()
}

// PrintLog renders a log query.
func PrintLog(q *LogQuery, l Layout) string { return Print(Query{Log: q}, l) }

// PrintMetric renders a metric query.
func PrintMetric(m *Metric, l Layout) string { return Print(Query{Metric: m}, l) }
