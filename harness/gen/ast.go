package gen

// The harness's own query model. Every node is a "fat" struct (a Kind plus optional fields) so
// that a generated query survives a JSON round trip into a replay file. The same tree is
// consumed by the printer (print.go), the reference model (package model) and the converter
// to the repository's AST (package repoast, C05).

// Matcher is a label matcher: Label Op "Value", Op in = != =~ !~.
type Matcher struct {
	Label string `json:"label"`
	Op    string `json:"op"`
	Value BS     `json:"value"`
}

// Pred is a label-filter predicate.
type Pred struct {
	// Kind: match | num | dur | bytes | ip | and | or
	Kind  string `json:"kind"`
	Label string `json:"label,omitempty"`
	// Op: = != =~ !~ for match; == != > >= < <= for num/dur/bytes; == != for ip.
	// A match with Op "=" may be spelled "==" (Eq2) - both are accepted by the grammar.
	Op  string `json:"op,omitempty"`
	Str BS     `json:"str,omitempty"` // match value, ip pattern
	// Text is how the literal is written for num/dur/bytes; Num/Dur/Bytes what it denotes.
	Text  string  `json:"text,omitempty"`
	Num   float64 `json:"num,omitempty"`
	Dur   int64   `json:"dur,omitempty"`
	Bytes uint64  `json:"bytes,omitempty"`
	L     *Pred   `json:"l,omitempty"`
	R     *Pred   `json:"r,omitempty"`
	// Conj is how a conjunction is spelled: "and", "," or " " (juxtaposition).
	Conj string `json:"conj,omitempty"`
	// Paren wraps the predicate in parentheses.
	Paren bool `json:"paren,omitempty"`
}

// TmplPart is one element of a template of the mini-grammar the harness can expand itself.
type TmplPart struct {
	// Kind: lit | label | line | ts_nanos | ts_unix | ts_millis | upper | lower | ToUpper | ToLower |
	// printf2 | default | trim | unix_of_label | fail_unixToTime | fail_regex | fail_field | fail_argtype |
	// fail_argcount | fail_index (failures of the template engine itself) | root_index ({{ index $ "a" }}) |
	// alignLeft | alignRight (N characters) | replace (Text -> Text2) | trimPrefix | trimSuffix (Text) |
	// b64enc | if_contains (Text) | regex_wrap | regex_wrap_literal | regex_count
	Kind  string `json:"kind"`
	Text  string `json:"text,omitempty"`  // literal text, default value, needle
	Text2 string `json:"text2,omitempty"` // replacement
	A     string `json:"a,omitempty"`     // label
	B     string `json:"b,omitempty"`     // second label (printf2)
	N     int    `json:"n,omitempty"`     // width (alignLeft / alignRight)
}

// Rename is label_format Dst=Src.
type Rename struct {
	Dst string `json:"dst"`
	Src string `json:"src"`
}

// LabelTmpl is label_format Dst="template".
type LabelTmpl struct {
	Dst  string     `json:"dst"`
	Tmpl []TmplPart `json:"tmpl"`
}

// KV is a label extraction expression: Label="Expr".
type KV struct {
	Label string `json:"label"`
	Expr  string `json:"expr"`
}

// Stage is one pipeline stage.
type Stage struct {
	// Kind: linefilter | ipfilter | labelfilter | json | logfmt | regexp | pattern | unpack |
	// line_format | label_format | drop | keep | decolorize | distinct
	Kind string `json:"kind"`
	// line filter: Op in |= != |~ !~ ; Value needle/regex/ip pattern
	Op    string `json:"op,omitempty"`
	Value BS     `json:"value,omitempty"`
	Pred  *Pred  `json:"pred,omitempty"`
	// json/logfmt field list, drop/keep names, distinct labels
	Labels    []string    `json:"labels,omitempty"`
	Exprs     []KV        `json:"exprs,omitempty"`
	Regex     string      `json:"regex,omitempty"`
	Pattern   string      `json:"pattern,omitempty"`
	Tmpl      []TmplPart  `json:"tmpl,omitempty"`
	Renames   []Rename    `json:"renames,omitempty"`
	Templates []LabelTmpl `json:"templates,omitempty"`
	Matchers  []Matcher   `json:"matchers,omitempty"`
	// RawTmpl, when set, is printed instead of Tmpl (C05/C17 use templates outside the
	// mini-grammar; they are never expanded by the model).
	RawTmpl string `json:"raw_tmpl,omitempty"`
}

// LogQuery is a log query: selector + pipeline.
type LogQuery struct {
	Sel    []Matcher `json:"sel"`
	Stages []Stage   `json:"stages,omitempty"`
	// SelParens is the number of redundant parentheses around the selector.
	SelParens int `json:"sel_parens,omitempty"`
}

// Unwrap is the unwrap clause of a range aggregation.
type Unwrap struct {
	Label   string    `json:"label"`
	Conv    string    `json:"conv,omitempty"` // "", bytes, duration, duration_seconds
	Filters []Matcher `json:"filters,omitempty"`
}

// Grouping is by(...) / without(...).
type Grouping struct {
	Without bool     `json:"without,omitempty"`
	Labels  []string `json:"labels"`
}

// Metric is a metric expression.
type Metric struct {
	// Kind: range | vecagg | binop | literal | vector | label_replace
	Kind string `json:"kind"`
	// Op: range function, vector aggregation operator or binary operator.
	Op string `json:"op,omitempty"`

	// range
	Log        *LogQuery `json:"log,omitempty"`
	RangeNs    int64     `json:"range_ns,omitempty"`
	RangeText  string    `json:"range_text,omitempty"`
	HasOffset  bool      `json:"has_offset,omitempty"`
	OffsetNs   int64     `json:"offset_ns,omitempty"`
	OffsetText string    `json:"offset_text,omitempty"`
	Unwrap     *Unwrap   `json:"unwrap,omitempty"`
	HasParam   bool      `json:"has_param,omitempty"`
	Param      float64   `json:"param,omitempty"`
	ParamText  string    `json:"param_text,omitempty"`
	Grouping   *Grouping `json:"grouping,omitempty"`
	// RangeLast prints the range after the pipeline: {sel} | stages [5m] instead of {sel}[5m] | stages.
	RangeLast bool `json:"range_last,omitempty"`

	// vecagg
	HasK bool `json:"has_k,omitempty"`
	K    int  `json:"k,omitempty"`
	// KText, when set, is how k is spelled (leading zeros are still decimal).
	KText string  `json:"k_text,omitempty"`
	Inner *Metric `json:"inner,omitempty"`
	// GroupingFirst prints "sum by (a) (expr)" instead of "sum(expr) by (a)".
	GroupingFirst bool `json:"grouping_first,omitempty"`

	// binop
	L        *Metric  `json:"l,omitempty"`
	R        *Metric  `json:"r,omitempty"`
	Bool     bool     `json:"bool,omitempty"`
	OnOp     string   `json:"on_op,omitempty"` // "", on, ignoring
	OnLabels []string `json:"on_labels,omitempty"`
	Group    string   `json:"group,omitempty"` // "", left, right
	// HasInclude distinguishes group_left from group_left().
	HasInclude bool     `json:"has_include,omitempty"`
	Include    []string `json:"include,omitempty"`

	// literal / vector
	Value     float64 `json:"value,omitempty"`
	ValueText string  `json:"value_text,omitempty"`

	// label_replace
	Dst   string `json:"dst,omitempty"`
	Repl  string `json:"repl,omitempty"`
	Src   string `json:"src,omitempty"`
	Regex string `json:"regex,omitempty"`

	// Parens is the number of redundant parentheses around this expression.
	Parens int `json:"parens,omitempty"`
}

// Query is a whole query: exactly one of Log / Metric is set.
type Query struct {
	Log    *LogQuery `json:"log,omitempty"`
	Metric *Metric   `json:"metric,omitempty"`
	// LogParens is the number of redundant parentheses around a whole log query.
	LogParens int `json:"log_parens,omitempty"`
}
