// Package gen holds generators and the harness's own query model.
package gen

import (
	"encoding/base64"
	"encoding/json"
	"unicode/utf8"
)

// BS is a byte string that survives a JSON round trip even when it is not valid UTF-8.
type BS string

type bsWire struct {
	B64 string `json:"b64"`
}

// MarshalJSON implements json.Marshaler.
func (b BS) MarshalJSON() ([]byte, error) {
	if utf8.ValidString(string(b)) {
		return json.Marshal(string(b))
	}
	return json.Marshal(bsWire{B64: base64.StdEncoding.EncodeToString([]byte(b))})
}

// UnmarshalJSON implements json.Unmarshaler.
func (b *BS) UnmarshalJSON(data []byte) error {
	if len(data) > 0 && data[0] == '{' {
		var w bsWire
		if err := json.Unmarshal(data, &w); err != nil {
			return err
		}
		raw, err := base64.StdEncoding.DecodeString(w.B64)
		if err != nil {
			return err
		}
		*b = BS(raw)
		return nil
	}
	var s string
	if err := json.Unmarshal(data, &s); err != nil {
		return err
	}
	*b = BS(s)
	return nil
}
