package main

import (
	"bytes"
	"context"
	"fmt"
	"testing"

	"pgregory.net/rapid"

	"github.com/tdakkota/docker-logql/verifharness/dl"
	"github.com/tdakkota/docker-logql/verifharness/evid"
	"github.com/tdakkota/docker-logql/verifharness/fakedocker"
)

// C18RenderCase is a rendering-determinism case: the real command is run repeatedly against
// the same container logs (distinct timestamps) under different completion orders.
type C18RenderCase struct {
	Ctrs  [][]dl.Line `json:"ctrs"`
	Query string      `json:"query"`
	Reps  int         `json:"reps"`
}

func perms(n int) [][]int {
	if n == 0 {
		return [][]int{{}}
	}
	var out [][]int
	var rec func(cur []int, used []bool)
	rec = func(cur []int, used []bool) {
		if len(cur) == n {
			out = append(out, append([]int(nil), cur...))
			return
		}
		for i := 0; i < n; i++ {
			if !used[i] {
				used[i] = true
				rec(append(cur, i), used)
				used[i] = false
			}
		}
	}
	rec(nil, make([]bool, n))
	return out
}

func c18RenderCheck(c C18RenderCase) (r evid.Result) {
	n := len(c.Ctrs)
	var first []byte
	total := 0
	for _, l := range c.Ctrs {
		total += len(l)
	}
	for _, order := range perms(n) {
		for rep := 0; rep < c.Reps; rep++ {
			d := &fakedocker.Daemon{}
			for i, lines := range c.Ctrs {
				d.Containers = append(d.Containers, dl.Ctr(fmt.Sprintf("id%d", i), fmt.Sprintf("c%d", i), map[string]string{"tier": fmt.Sprint(i % 2)}, lines))
			}
			wave := n
			if c.Query == `{tier="0"}` {
				wave = (n + 1) / 2 // containers with an even index
			}
			if wave > 1 {
				d.Waves, d.Order = []int{wave}, [][]int{order}
			}
			cmd := queryCmd(&fakeCli{d: d})
			var out bytes.Buffer
			cmd.SetArgs([]string{"--color=false", "--start=1699999990", "--end=1700000100", c.Query})
			cmd.SetOut(&out)
			cmd.SetErr(&out)
			cmd.SilenceUsage, cmd.SilenceErrors = true, true
			err := cmd.ExecuteContext(context.Background())
			d.Done()
			r.Evals++
			if err != nil {
				r.Violation = evid.Viol("C18/render-error", "docker logql query %q failed: %v", c.Query, err)
				return r
			}
			if first == nil {
				first = append([]byte{}, out.Bytes()...)
				continue
			}
			if !bytes.Equal(first, out.Bytes()) {
				r.Violation = evid.Viol("C18/render-differs", "query %q, completion order %v repetition %d: rendered output differs:\n--- first\n%s\n--- now\n%s", c.Query, order, rep, trunc(string(first), 800), trunc(out.String(), 800))
				return r
			}
		}
	}
	r.Class(true, fmt.Sprintf("containers=%d", n))
	r.NonTrivial = n >= 3 && total >= 4
	return r
}

func c18RenderGen(t *rapid.T) C18RenderCase {
	var c C18RenderCase
	n := rapid.SampledFrom([]int{1, 2, 3, 3, 4}).Draw(t, "containers")
	ts := int64(1700000000) * 1e9
	for i := 0; i < n; i++ {
		m := rapid.IntRange(0, 6).Draw(t, "lines")
		var lines []dl.Line
		for j := 0; j < m; j++ {
			lines = append(lines, dl.Line{})
		}
		c.Ctrs = append(c.Ctrs, lines)
	}
	// Distinct timestamps across all containers, interleaved.
	idx := make([]int, n)
	for {
		var cands []int
		for i := range c.Ctrs {
			if idx[i] < len(c.Ctrs[i]) {
				cands = append(cands, i)
			}
		}
		if len(cands) == 0 {
			break
		}
		i := rapid.SampledFrom(cands).Draw(t, "next")
		ts += rapid.Int64Range(1, 500).Draw(t, "gap") * 1e6
		c.Ctrs[i][idx[i]] = dl.Line{TS: ts, Msg: rapid.SampledFrom([]string{"GET /a", "err x", "ok\n", "w\r\n"}).Draw(t, "msg")}
		idx[i]++
	}
	c.Query = rapid.SampledFrom([]string{`{}`, `{} |= "e"`, `{} | drop msg`, `{tier="0"}`, `{} | keep container`}).Draw(t, "query")
	c.Reps = 3
	return c
}

// TestC18Render decides the rendering part of C18.
func TestC18Render(t *testing.T) {
	evid.Run(t, "C18", c18RenderGen, c18RenderCheck)
}
