package main

import (
	"bytes"
	"context"
	"fmt"
	"math"
	"strconv"
	"strings"
	"testing"
	"time"

	"github.com/docker/cli/cli/command"
	"github.com/docker/docker/client"
	"pgregory.net/rapid"

	"github.com/tdakkota/docker-logql/internal/lokiapi"
	"github.com/tdakkota/docker-logql/verifharness/dl"
	"github.com/tdakkota/docker-logql/verifharness/evid"
	"github.com/tdakkota/docker-logql/verifharness/fakedocker"
)

// C16Flag is one command line flag: its text and, by construction, what it denotes.
type C16Flag struct {
	Set   bool   `json:"set"`
	Text  string `json:"text"`
	Valid bool   `json:"valid"`
	// Value is the denoted instant (unix ns) or duration (ns) when Valid.
	Value int64 `json:"value"`
	// Tiny marks a positive step that is below one nanosecond (error or >0 are both fine).
	Tiny bool `json:"tiny,omitempty"`
}

// C16Case is one case of property C16.
type C16Case struct {
	Now   int64   `json:"now"`
	Start C16Flag `json:"start"`
	End   C16Flag `json:"end"`
	Since C16Flag `json:"since"`
	Step  C16Flag `json:"step"`
	// E2E runs the cobra command against the fake daemon instead of calling the parsers.
	E2E bool `json:"e2e,omitempty"`
}

func optTime(f C16Flag) (o lokiapi.OptLokiTime) {
	if f.Set {
		o.SetTo(lokiapi.LokiTime(f.Text))
	}
	return o
}

func optDur(f C16Flag) (o lokiapi.OptPrometheusDuration) {
	if f.Set {
		o.SetTo(lokiapi.PrometheusDuration(f.Text))
	}
	return o
}

// c16Ref is the reference resolution written from the statement.
func c16Ref(c C16Case, now int64) (start, end int64, step time.Duration, rangeErr, stepErr bool) {
	since := int64(6 * time.Hour)
	if c.Since.Set {
		if !c.Since.Valid {
			rangeErr = true
		}
		since = c.Since.Value
	}
	end = now
	if c.End.Set {
		if !c.End.Valid {
			rangeErr = true
		}
		end = c.End.Value
	}
	base := end
	if now < base {
		base = now
	}
	start = base - since
	if c.Start.Set {
		if !c.Start.Valid {
			rangeErr = true
		}
		start = c.Start.Value
	}
	if c.Step.Set {
		if !c.Step.Valid {
			stepErr = true
		}
		step = time.Duration(c.Step.Value)
	} else {
		// Integer arithmetic: floor((end-start)/250s) seconds, at least one second.
		secs := int64(1)
		if span := end - start; span >= 500e9 {
			secs = span / 250e9
		}
		step = time.Duration(secs) * time.Second
	}
	return
}

// c16StepClose states the tolerance of the step oracle: a step written as fractional plain
// seconds may be off by one nanosecond (binary floating point), and a default step may be
// either neighbour when the span is within a microsecond of a multiple of 250 s.
func c16StepClose(c C16Case, got, want time.Duration, span int64) bool {
	if c.Step.Set {
		if strings.Contains(c.Step.Text, ".") {
			d := got - want
			return d >= -1 && d <= 1
		}
		return false
	}
	if span < 500e9 {
		return false
	}
	rem := span % 250e9
	if rem < 1000 {
		return got == want-time.Second
	}
	if rem > 250e9-1000 {
		return got == want+time.Second
	}
	return false
}

type fakeCli struct {
	command.Cli
	d *fakedocker.Daemon
}

func (f *fakeCli) Client() client.APIClient { return f.d }

func c16Check(c C16Case) (r evid.Result) {
	set := 0
	for _, f := range []C16Flag{c.Start, c.End, c.Since, c.Step} {
		if f.Set {
			set++
		}
	}
	malformed := (c.Start.Set && !c.Start.Valid) || (c.End.Set && !c.End.Valid) || (c.Since.Set && !c.Since.Valid) || (c.Step.Set && !c.Step.Valid)
	r.Class(true, fmt.Sprintf("flags-set=%d", set))
	r.Class(malformed, "malformed")
	r.Class(c.E2E, "e2e")
	r.Class(c.End.Set && c.End.Valid && c.End.Value > c.Now, "end-after-now")
	r.Class(c.Step.Tiny, "tiny-step")
	r.NonTrivial = (set >= 1 && set <= 3) || malformed

	if c.E2E {
		return c16E2E(c, r)
	}

	now := time.Unix(0, c.Now)
	wantStart, wantEnd, wantStep, wantRangeErr, wantStepErr := c16Ref(c, c.Now)
	start, end, err := parseTimeRange(now, optTime(c.Start), optTime(c.End), optDur(c.Since))
	if wantRangeErr {
		if err == nil {
			r.Violation = evid.Viol("C16/malformed-range-accepted", "start=%+v end=%+v since=%+v accepted as [%v, %v]", c.Start, c.End, c.Since, start, end)
		}
		return r
	}
	if err != nil {
		r.Violation = evid.Viol("C16/range-rejected", "start=%+v end=%+v since=%+v rejected: %v", c.Start, c.End, c.Since, err)
		return r
	}
	if start.UnixNano() != wantStart || end.UnixNano() != wantEnd {
		r.Violation = evid.Viol("C16/range", "now=%d start=%+v end=%+v since=%+v resolved to [%d, %d], want [%d, %d]",
			c.Now, c.Start, c.End, c.Since, start.UnixNano(), end.UnixNano(), wantStart, wantEnd)
		return r
	}
	// Fractional seconds go through a float, and which (second, millisecond) pairs round badly
	// cannot be guessed: when --start is written that way, every millisecond of its second is
	// tried in the same spelling.
	if c.Start.Set && c.Start.Valid && strings.Contains(c.Start.Text, ".") && !strings.ContainsAny(c.Start.Text, "TZ:") {
		sec := c.Start.Value / 1e9
		for ms := int64(0); ms < 1000; ms++ {
			text := fmt.Sprintf("%d.%03d", sec, ms)
			f := C16Flag{Set: true, Valid: true, Text: text}
			got, _, err := parseTimeRange(now, optTime(f), optTime(c.End), optDur(c.Since))
			r.Evals++
			if err != nil || got.UnixNano() != sec*1e9+ms*1e6 {
				r.Violation = evid.Viol("C16/range", "--start=%s resolved to %d (err=%v), want %d", text, got.UnixNano(), err, sec*1e9+ms*1e6)
				return r
			}
		}
		r.Class(true, "millisecond-sweep")
	}
	step, err := parseStep(optDur(c.Step), start, end)
	switch {
	case c.Step.Set && c.Step.Tiny:
		if err == nil && step <= 0 {
			r.Violation = evid.Viol("C16/non-positive-step", "step %q resolved to %v without an error", c.Step.Text, step)
		}
	case wantStepErr:
		if err == nil {
			r.Violation = evid.Viol("C16/malformed-step-accepted", "step %q accepted as %v", c.Step.Text, step)
		}
	case err != nil:
		r.Violation = evid.Viol("C16/step-rejected", "step %+v rejected: %v", c.Step, err)
	case step != wantStep && c16StepClose(c, step, wantStep, wantEnd-wantStart):
		// within the stated tolerance
	case step != wantStep:
		r.Violation = evid.Viol("C16/step", "step %+v over [%d, %d] resolved to %v, want %v", c.Step, wantStart, wantEnd, step, wantStep)
	case step <= 0:
		r.Violation = evid.Viol("C16/non-positive-step", "step resolved to %v", step)
	}
	return r
}

func c16E2E(c C16Case, r evid.Result) evid.Result {
	d := &fakedocker.Daemon{}
	d.Containers = append(d.Containers, dl.Ctr("id0", "c0", nil, []dl.Line{{TS: 1700000000e9, Msg: "hello"}}))
	cmd := queryCmd(&fakeCli{d: d})
	var args []string
	if c.Start.Set {
		args = append(args, "--start="+c.Start.Text)
	}
	if c.End.Set {
		args = append(args, "--end="+c.End.Text)
	}
	if c.Since.Set {
		args = append(args, "--since="+c.Since.Text)
	}
	if c.Step.Set {
		args = append(args, "--step="+c.Step.Text)
	}
	args = append(args, "--color=false", "{}")
	var out bytes.Buffer
	cmd.SetArgs(args)
	cmd.SetOut(&out)
	cmd.SetErr(&out)
	cmd.SilenceUsage = true
	cmd.SilenceErrors = true
	before := time.Now()
	err := cmd.ExecuteContext(context.Background())
	after := time.Now()
	rep := d.Done()
	// A malformed value must stop the command: through the flag layer as well as in the parsers.
	if _, _, _, rangeErr, stepErr := c16Ref(c, before.UnixNano()); rangeErr || stepErr {
		r.Class(true, "e2e-malformed")
		if err == nil {
			r.Violation = evid.Viol("C16/e2e-malformed-accepted", "docker logql query %q ran (%d ContainerLogs calls) although a value is malformed", args, len(rep.Calls))
		}
		return r
	}
	if c.Step.Set && c.Step.Tiny && err != nil {
		return r
	}
	if err != nil {
		r.Violation = evid.Viol("C16/e2e-error", "docker logql query %v failed: %v", args, err)
		return r
	}
	if len(rep.Calls) < 1 {
		r.Violation = evid.Viol("C16/e2e-calls", "docker logql query %v made no ContainerLogs call", args)
		return r
	}
	opts := rep.Calls[0].Opts
	// The wall clock is bracketed by two reads; every expected value is computed for both
	// ends of the bracket and the observed one must lie in between.
	lo0, hiEnd0, _, _, _ := c16Ref(c, before.UnixNano())
	lo1, hiEnd1, _, _, _ := c16Ref(c, after.UnixNano())
	// read the way the client library and the daemon read them (seconds, maybe with a fraction)
	sinceT, err1 := fakedocker.WindowBound(opts.Since)
	untilT, err2 := fakedocker.WindowBound(opts.Until)
	since, until := sinceT.Unix(), untilT.Unix()
	if err1 != nil || err2 != nil || opts.Since == "" || opts.Until == "" {
		r.Violation = evid.Viol("C16/e2e-window-format", "daemon was asked for since=%q until=%q", opts.Since, opts.Until)
		return r
	}
	floor := func(ns int64) int64 { return ns / 1e9 } // instants are positive
	// How the window is rounded to the daemon's whole seconds is C02's subject: here the
	// resolved instants only have to be the ones asked for, give or take a few seconds of
	// rounding on the safe (wider) side - never later than the resolved start (to the
	// nanosecond, whatever fraction the option carries), never earlier than the whole second
	// of the resolved end.
	const slack = 5
	if since < floor(lo0)-slack || sinceT.UnixNano() > lo1 {
		r.Violation = evid.Viol("C16/e2e-since", "args %v: daemon was asked since=%q (%d ns), want within [%d s, %d ns]", args, opts.Since, sinceT.UnixNano(), floor(lo0), lo1)
		return r
	}
	if until < floor(hiEnd0) || until > floor(hiEnd1)+slack {
		r.Violation = evid.Viol("C16/e2e-until", "args %v: daemon was asked until=%q, want within [%d, %d]", args, opts.Until, floor(hiEnd0), floor(hiEnd1))
		return r
	}
	if !opts.ShowStdout || !opts.ShowStderr || !opts.Timestamps || opts.Follow {
		r.Violation = evid.Viol("C16/e2e-options", "daemon was asked with options %+v", opts)
	}
	return r
}

// ---- generators ----

const (
	c16Lo = int64(978307200)  // 2001-01-01
	c16Hi = int64(7258118400) // 2200-01-01
)

// c16GenInstant generates an instant and one spelling of it.
func c16GenInstant(t *rapid.T, label string) C16Flag {
	sec := rapid.Int64Range(c16Lo, c16Hi-1).Draw(t, label+"-sec")
	gran := rapid.SampledFrom([]string{"s", "ms", "ns"}).Draw(t, label+"-gran")
	var ns int64
	switch gran {
	case "ms":
		ns = rapid.Int64Range(0, 999).Draw(t, label+"-ms") * 1e6
	case "ns":
		ns = rapid.Int64Range(0, 999999999).Draw(t, label+"-ns")
	}
	f := C16Flag{Set: true, Valid: true, Value: sec*1e9 + ns}
	spellings := []string{"unixns", "rfc3339z", "rfc3339zone"}
	if ns == 0 {
		spellings = append(spellings, "unixs", "unixs")
	}
	if ns%1e6 == 0 {
		spellings = append(spellings, "frac", "frac")
	}
	if ns%1e6 == 0 && ns != 0 {
		// Fractional seconds go through a float: most (second, millisecond) pairs are not exactly
		// representable, so this spelling gets the largest share.
		spellings = append(spellings, "frac", "frac", "frac", "frac")
	}
	tm := time.Unix(sec, ns)
	switch rapid.SampledFrom(spellings).Draw(t, label+"-spelling") {
	case "unixs":
		f.Text = strconv.FormatInt(sec, 10)
	case "unixns":
		f.Text = strconv.FormatInt(sec*1e9+ns, 10)
	case "frac":
		digits := rapid.IntRange(1, 3).Draw(t, label+"-digits")
		ms := ns / 1e6
		switch digits {
		case 1:
			ms = ms / 100 * 100
		case 2:
			ms = ms / 10 * 10
		}
		f.Value = sec*1e9 + ms*1e6
		f.Text = fmt.Sprintf("%d.%0*d", sec, digits, ms/int64(math.Pow10(3-digits)))
	case "rfc3339z":
		f.Text = tm.UTC().Format(time.RFC3339Nano)
	default:
		off := rapid.SampledFrom([]int{-8 * 3600, 3600, 5*3600 + 1800, 9 * 3600}).Draw(t, label+"-zone")
		f.Text = tm.In(time.FixedZone("", off)).Format(time.RFC3339Nano)
	}
	return f
}

func c16BadInstant(t *rapid.T, label string) C16Flag {
	text := rapid.SampledFrom([]string{
		"yesterday", "2024-13-01T00:00:00Z", "2024-02-30T10:00:00Z", "1.2.3", "12:00", "17e",
		"2024-01-01", "2024-01-01 10:00:00", "0x10", "1700000000s", "--", "1_700_000_000",
	}).Draw(t, label+"-bad")
	return C16Flag{Set: true, Text: text}
}

var c16Units = []struct {
	name string
	ns   int64
}{
	{"y", 365 * 24 * 3600e9}, {"w", 7 * 24 * 3600e9}, {"d", 24 * 3600e9}, {"h", 3600e9}, {"m", 60e9}, {"s", 1e9}, {"ms", 1e6},
}

// c16GenPromDuration generates a Prometheus duration (units in descending order, each once).
func c16GenPromDuration(t *rapid.T, label string, maxNs int64) C16Flag {
	for {
		var (
			sb    strings.Builder
			total int64
		)
		first := rapid.IntRange(0, len(c16Units)-1).Draw(t, label+"-unit")
		parts := rapid.IntRange(1, 3).Draw(t, label+"-parts")
		for i, n := first, 0; i < len(c16Units) && n < parts; i++ {
			if n > 0 && rapid.Bool().Draw(t, label+"-skip") {
				continue
			}
			k := rapid.Int64Range(1, 90).Draw(t, label+"-k")
			sb.WriteString(strconv.FormatInt(k, 10) + c16Units[i].name)
			total += k * c16Units[i].ns
			n++
		}
		if total > 0 && total <= maxNs {
			return C16Flag{Set: true, Valid: true, Text: sb.String(), Value: total}
		}
	}
}

func c16BadDuration(t *rapid.T, label string) C16Flag {
	// A flag given without a value (an unset shell variable) is the malformed spelling most
	// likely to be met.
	if rapid.IntRange(0, 3).Draw(t, label+"-empty") == 0 {
		return C16Flag{Set: true, Text: ""}
	}
	text := rapid.SampledFrom([]string{"abc", "5x", "1m1h", "-5m", "1.5h", "m", "5 m", "1h 30m", "1hh", "5min", "", " ", "s"}).Draw(t, label+"-bad")
	return C16Flag{Set: true, Text: text}
}

func c16GenStep(t *rapid.T) C16Flag {
	switch rapid.IntRange(0, 9).Draw(t, "step-kind") {
	case 0, 1, 2:
		return c16GenPromDuration(t, "step", 400*24*3600e9)
	case 3, 4:
		n := rapid.Int64Range(1, 100000).Draw(t, "step-secs")
		return C16Flag{Set: true, Valid: true, Text: strconv.FormatInt(n, 10), Value: n * 1e9}
	case 5:
		ms := rapid.Int64Range(1, 99999).Draw(t, "step-ms")
		return C16Flag{Set: true, Valid: true, Text: fmt.Sprintf("%d.%03d", ms/1000, ms%1000), Value: ms * 1e6}
	case 8:
		// plain seconds with more decimals than a millisecond has: still the number written
		digits := rapid.IntRange(4, 9).Draw(t, "step-decimals")
		pow := int64(1)
		for i := 0; i < digits; i++ {
			pow *= 10
		}
		frac := rapid.Int64Range(1, pow-1).Draw(t, "step-frac")
		whole := rapid.Int64Range(0, 3).Draw(t, "step-whole")
		return C16Flag{Set: true, Valid: true, Text: fmt.Sprintf("%d.%0*d", whole, digits, frac), Value: whole*1e9 + frac*(1e9/pow)}
	case 6:
		// Not strictly positive, or not a number: must be rejected.
		text := rapid.SampledFrom([]string{"0", "0.0", "-1", "-0.5", "-15", "nan", "NaN", "inf", "+Inf", "-inf", "0s", "0ms", "0h"}).Draw(t, "step-nonpositive")
		return C16Flag{Set: true, Text: text}
	case 7:
		return C16Flag{Set: true, Text: rapid.SampledFrom([]string{"1e-12", "0.0000000001", "1e-10"}).Draw(t, "step-tiny"), Tiny: true}
	default:
		return c16BadDuration(t, "step")
	}
}

func c16Gen(t *rapid.T) C16Case {
	var c C16Case
	c.Now = rapid.Int64Range(c16Lo, c16Hi-1).Draw(t, "now-sec")*1e9 + rapid.Int64Range(0, 999999999).Draw(t, "now-ns")
	mask := rapid.IntRange(0, 15).Draw(t, "flags")
	bad := rapid.IntRange(0, 5).Draw(t, "bad") == 0
	badWhich := rapid.IntRange(0, 3).Draw(t, "bad-which")
	if mask&1 != 0 {
		if bad && badWhich == 0 {
			c.Start = c16BadInstant(t, "start")
		} else {
			c.Start = c16GenInstant(t, "start")
		}
	}
	if mask&2 != 0 {
		if bad && badWhich == 1 {
			c.End = c16BadInstant(t, "end")
		} else if rapid.IntRange(0, 3).Draw(t, "end-near-now") == 0 {
			// An end close to now, before or after it.
			delta := rapid.Int64Range(-7200, 7200).Draw(t, "end-delta")
			v := (c.Now/1e9 + delta)
			c.End = C16Flag{Set: true, Valid: true, Value: v * 1e9, Text: strconv.FormatInt(v, 10)}
		} else {
			c.End = c16GenInstant(t, "end")
		}
	}
	if mask&4 != 0 {
		if bad && badWhich == 2 {
			c.Since = c16BadDuration(t, "since")
		} else {
			c.Since = c16GenPromDuration(t, "since", 20*365*24*3600e9)
			if rapid.IntRange(0, 7).Draw(t, "since-zero") == 0 {
				// An explicit zero is a value like any other: start = min(end, now).
				c.Since = C16Flag{Set: true, Valid: true, Text: rapid.SampledFrom([]string{"0", "0s", "0ms", "0h0m0s", "0d"}).Draw(t, "since-zero-text"), Value: 0}
			}
		}
	}
	if mask&8 != 0 {
		c.Step = c16GenStep(t)
		if bad && badWhich == 3 && c.Step.Valid {
			c.Step = c16BadDuration(t, "step")
		}
	}
	// The default step is a staircase in the length of the range: explicit start and end whose
	// distance is a multiple of 250 s give or take a fraction of a second, no explicit step.
	if !bad && rapid.IntRange(0, 9).Draw(t, "range-at-a-step-boundary") == 0 {
		startNs := rapid.Int64Range(c16Lo, c16Hi-400000).Draw(t, "sb-start-sec")*1e9 + rapid.Int64Range(0, 999).Draw(t, "sb-start-ms")*1e6
		k := rapid.Int64Range(1, 1200).Draw(t, "sb-k")
		delta := rapid.SampledFrom([]int64{0, 1e6, -1e6, 200e6, -200e6, 999e6, -999e6, 500e6, -500e6}).Draw(t, "sb-delta")
		endNs := startNs + k*250e9 + delta
		spell := func(ns int64, label string) C16Flag {
			f := C16Flag{Set: true, Valid: true, Value: ns}
			switch rapid.IntRange(0, 2).Draw(t, label) {
			case 0:
				f.Text = strconv.FormatInt(ns, 10)
			case 1:
				f.Text = fmt.Sprintf("%d.%03d", ns/1e9, ns%1e9/1e6)
			default:
				f.Text = time.Unix(0, ns).UTC().Format(time.RFC3339Nano)
			}
			return f
		}
		c.Start, c.End, c.Step = spell(startNs, "sb-start-spelling"), spell(endNs, "sb-end-spelling"), C16Flag{}
		c.Now = endNs + rapid.Int64Range(0, 3600).Draw(t, "sb-now")*1e9
	}
	return c
}

func c16GenE2E(t *rapid.T) C16Case {
	for {
		c := c16Gen(t)
		c.E2E = true
		c.Now = 0
		// Malformed values go through the command as well.
		bad := 0
		for _, f := range []C16Flag{c.Start, c.End, c.Since, c.Step} {
			if f.Set && !f.Valid && !f.Tiny {
				bad++
			}
		}
		if bad <= 1 {
			return c
		}
	}
}

// TestC16 decides C16 on the parsers directly (generated clock).
func TestC16(t *testing.T) {
	evid.Run(t, "C16", c16Gen, c16Check)
}

// TestC16E2E decides C16 end to end: flags -> cobra command -> engine -> fake daemon.
func TestC16E2E(t *testing.T) {
	evid.Run(t, "C16", c16GenE2E, c16Check)
}
