package main

import (
	"bytes"
	"fmt"
	"sort"
	"strings"
	"testing"
	"time"

	"pgregory.net/rapid"

	"github.com/tdakkota/docker-logql/internal/lokiapi"
	"github.com/tdakkota/docker-logql/verifharness/evid"
	"github.com/tdakkota/docker-logql/verifharness/gen"
)

// C15Entry is one log entry of a generated result.
type C15Entry struct {
	Ctr int    `json:"ctr"` // index into Names, -1 = stream without a container label
	Sub int    `json:"sub"` // several streams may belong to one container
	TS  uint64 `json:"ts"`
	Msg gen.BS `json:"msg"`
}

// C15Case is one case of property C15.
type C15Case struct {
	Names     []string   `json:"names"`
	Entries   []C15Entry `json:"entries"`
	Timestamp bool       `json:"timestamp"`
	Container bool       `json:"container"`
	Color     bool       `json:"color"`
}

func c15Data(c C15Case) lokiapi.QueryResponseData {
	type key struct{ ctr, sub int }
	idx := map[key]int{}
	var streams lokiapi.Streams
	for _, e := range c.Entries {
		k := key{e.Ctr, e.Sub}
		i, ok := idx[k]
		if !ok {
			labels := lokiapi.LabelSet{"sub": fmt.Sprint(e.Sub)}
			if e.Ctr >= 0 {
				labels["container"] = c.Names[e.Ctr]
			}
			streams = append(streams, lokiapi.Stream{Stream: lokiapi.NewOptLabelSet(labels)})
			i = len(streams) - 1
			idx[k] = i
		}
		streams[i].Values = append(streams[i].Values, lokiapi.LogEntry{T: e.TS, V: string(e.Msg)})
	}
	var data lokiapi.QueryResponseData
	data.SetStreamsResult(lokiapi.StreamsResult{Result: streams})
	return data
}

func c15Name(c C15Case, e C15Entry) string {
	if e.Ctr < 0 {
		return ""
	}
	return c.Names[e.Ctr]
}

// c15MatchLine tries to read the expected output line of e at out[pos:]. It returns the new
// position and the colour code seen for the container name ("" when none).
func c15MatchLine(c C15Case, e C15Entry, out []byte, pos int) (int, string, bool) {
	rest := out[pos:]
	code := ""
	if c.Container {
		name := c15Name(c, e)
		if c.Color {
			if !bytes.HasPrefix(rest, []byte("\x1b[")) {
				return 0, "", false
			}
			end := bytes.IndexByte(rest, 'm')
			if end < 0 || end > 8 {
				return 0, "", false
			}
			code = string(rest[2:end])
			rest = rest[end+1:]
		}
		if !bytes.HasPrefix(rest, []byte(name)) {
			return 0, "", false
		}
		rest = rest[len(name):]
		if c.Color {
			if !bytes.HasPrefix(rest, []byte("\x1b[0m")) {
				return 0, "", false
			}
			rest = rest[4:]
		}
		if !bytes.HasPrefix(rest, []byte(" ")) {
			return 0, "", false
		}
		rest = rest[1:]
	}
	if c.Timestamp {
		if c.Color && bytes.HasPrefix(rest, []byte("\x1b[")) {
			// The statement does not say whether the timestamp is coloured: accept one SGR
			// sequence before it and a reset after it.
			end := bytes.IndexByte(rest, 'm')
			if end < 0 || end > 8 {
				return 0, "", false
			}
			rest = rest[end+1:]
		}
		stop := bytes.IndexAny(rest, " \x1b")
		if stop < 0 {
			return 0, "", false
		}
		ts, err := time.Parse(time.RFC3339Nano, string(rest[:stop]))
		if err != nil || uint64(ts.UnixNano()) != e.TS {
			return 0, "", false
		}
		rest = rest[stop:]
		if c.Color && bytes.HasPrefix(rest, []byte("\x1b[0m")) {
			rest = rest[4:]
		}
		if !bytes.HasPrefix(rest, []byte(" ")) {
			return 0, "", false
		}
		rest = rest[1:]
	}
	msg := strings.TrimRight(string(e.Msg), "\r\n")
	if !bytes.HasPrefix(rest, []byte(msg+"\n")) {
		return 0, "", false
	}
	rest = rest[len(msg)+1:]
	return len(out) - len(rest), code, true
}

var c15Palette = map[string]bool{}

func init() {
	// Any foreground colour counts as a palette colour: the eight standard ones, their bright
	// variants, with or without bold, and the 256-colour form.
	for _, base := range []int{30, 90} {
		for i := base; i <= base+7; i++ {
			c15Palette[fmt.Sprint(i)] = true
			c15Palette[fmt.Sprint(i)+";1"] = true
			c15Palette["1;"+fmt.Sprint(i)] = true
		}
	}
	for i := 0; i < 256; i++ {
		c15Palette["38;5;"+fmt.Sprint(i)] = true
	}
}

func c15Check(c C15Case) (r evid.Result) {
	distinct := map[string]bool{}
	for _, e := range c.Entries {
		distinct[c15Name(c, e)] = true
	}
	ties := false
	seenTS := map[uint64]bool{}
	embedded := false
	for _, e := range c.Entries {
		if seenTS[e.TS] {
			ties = true
		}
		seenTS[e.TS] = true
		trimmed := strings.TrimRight(string(e.Msg), "\r\n")
		if strings.ContainsAny(trimmed, "\r\n") {
			embedded = true
		}
	}
	r.Class(len(distinct) >= 9, "containers>=9")
	r.Class(len(distinct) == 8, "containers==8")
	r.Class(ties, "ties")
	r.Class(embedded, "embedded-linebreak")
	r.Class(c.Color, "color")
	r.Class(c.Container, "container")
	r.Class(c.Timestamp, "timestamp")
	r.Class(len(c.Entries) == 0, "empty")
	r.NonTrivial = (len(distinct) >= 9 && c.Color) || ties || embedded

	var buf bytes.Buffer
	err := renderResult(&buf, renderOptions{timestamp: c.Timestamp, container: c.Container, color: c.Color}, c15Data(c))
	if err != nil {
		r.Violation = evid.Viol("C15/error", "renderResult failed: %v", err)
		return r
	}
	out := buf.Bytes()

	// Group entries by timestamp, ascending; inside a tie group any order is allowed.
	sorted := append([]C15Entry(nil), c.Entries...)
	sort.SliceStable(sorted, func(i, j int) bool { return sorted[i].TS < sorted[j].TS })
	type group []C15Entry
	var groups []group
	for _, e := range sorted {
		if n := len(groups); n > 0 && groups[n-1][0].TS == e.TS {
			groups[n-1] = append(groups[n-1], e)
		} else {
			groups = append(groups, group{e})
		}
	}
	type seen struct{ name, code string }
	var (
		pairs []seen
		steps int
	)
	var walk func(gi int, used []bool, left int, pos int) bool
	walk = func(gi int, used []bool, left int, pos int) bool {
		steps++
		if steps > 200000 {
			return false
		}
		if gi == len(groups) {
			return pos == len(out)
		}
		g := groups[gi]
		if left == 0 {
			if gi+1 < len(groups) {
				return walk(gi+1, make([]bool, len(groups[gi+1])), len(groups[gi+1]), pos)
			}
			return walk(gi+1, nil, 0, pos)
		}
		for i, e := range g {
			if used[i] {
				continue
			}
			np, code, ok := c15MatchLine(c, e, out, pos)
			if !ok {
				continue
			}
			used[i] = true
			pairs = append(pairs, seen{c15Name(c, e), code})
			if walk(gi, used, left-1, np) {
				return true
			}
			pairs = pairs[:len(pairs)-1]
			used[i] = false
		}
		return false
	}
	var ok bool
	if len(groups) == 0 {
		ok = len(out) == 0
	} else {
		ok = walk(0, make([]bool, len(groups[0])), len(groups[0]), 0)
	}
	if !ok {
		r.Violation = evid.Viol("C15/output", "output is not one line per entry in timestamp order (options t=%v c=%v color=%v): %q", c.Timestamp, c.Container, c.Color, trunc(string(out), 600))
		return r
	}
	if c.Color && c.Container {
		byName := map[string]string{}
		for _, p := range pairs {
			if !c15Palette[p.code] {
				r.Violation = evid.Viol("C15/not-a-palette-colour", "container %q is wrapped in SGR code %q", p.name, p.code)
				return r
			}
			if prev, ok := byName[p.name]; ok && prev != p.code {
				r.Violation = evid.Viol("C15/inconsistent-colour", "container %q is coloured %q and %q", p.name, prev, p.code)
				return r
			}
			byName[p.name] = p.code
		}
	}
	if !c.Color {
		// No escape byte that does not come from a message or a container name.
		want := 0
		for _, e := range c.Entries {
			want += strings.Count(strings.TrimRight(string(e.Msg), "\r\n"), "\x1b")
			if c.Container {
				want += strings.Count(c15Name(c, e), "\x1b")
			}
		}
		if got := bytes.Count(out, []byte("\x1b")); got != want {
			r.Violation = evid.Viol("C15/escape-without-colour", "colour off: output has %d ESC bytes, input has %d", got, want)
		}
	}
	return r
}

func trunc(s string, n int) string {
	if len(s) > n {
		return s[:n] + "…"
	}
	return s
}

func c15Gen(t *rapid.T) C15Case {
	var c C15Case
	nNames := rapid.SampledFrom([]int{0, 1, 2, 3, 7, 8, 9, 10, 17, 40, 40, 255, 256, 257, 300}).Draw(t, "containers")
	for i := 0; i < nNames; i++ {
		c.Names = append(c.Names, fmt.Sprintf("ctr-%d", i))
	}
	if nNames > 0 && rapid.IntRange(0, 2).Draw(t, "oddname") == 0 {
		// The container column prints the label "container", which a pipeline may have rewritten
		// (| logfmt, | label_format container=...): it is any text, not only a Docker name.
		c.Names[rapid.IntRange(0, nNames-1).Draw(t, "oddname-index")] = rapid.SampledFrom([]string{"", "a b", "web_1", "x/y", "cpu 50%", "100%done", "%s", "%d%%", "%!v(MISSING)", "ünï", "{}", "tab\there", `back\slash`, "quote\"d"}).Draw(t, "name")
	}
	nEntries := rapid.IntRange(0, 12).Draw(t, "entries")
	if nNames >= 7 || rapid.IntRange(0, 3).Draw(t, "many") == 0 {
		nEntries = rapid.IntRange(nNames, nNames+12).Draw(t, "entries-many")
	}
	const base = uint64(1700000000) * 1e9
	span := rapid.SampledFrom([]uint64{2, 5, 1000}).Draw(t, "span")
	for i := 0; i < nEntries; i++ {
		e := C15Entry{Ctr: -1}
		if nNames > 0 {
			if i < nNames {
				e.Ctr = i // make sure every container appears
			} else {
				e.Ctr = rapid.IntRange(-1, nNames-1).Draw(t, "ctr")
			}
		}
		e.Sub = rapid.IntRange(0, 1).Draw(t, "sub")
		switch rapid.IntRange(0, 3).Draw(t, "tskind") {
		case 0:
			e.TS = base + rapid.Uint64Range(0, span).Draw(t, "ts")*1e6
		case 1:
			e.TS = base + rapid.Uint64Range(0, span).Draw(t, "ts-ns")
		default:
			e.TS = uint64(rapid.Int64Range(978307200, 7258118400).Draw(t, "sec"))*1e9 + rapid.Uint64Range(0, 999999999).Draw(t, "ns")
		}
		switch rapid.IntRange(0, 7).Draw(t, "msgkind") {
		case 7:
			// A line about as long as a buffer a writer may use (the daemon splits records only at
			// 16 KiB): whatever is batched, the lines come out in time order.
			n := rapid.SampledFrom([]int{512, 1024, 4096, 8192, 16384, 32768, 65536}).Draw(t, "long-size") + rapid.IntRange(-40, 40).Draw(t, "long-delta")
			e.Msg = gen.BS(strings.Repeat(rapid.SampledFrom([]string{"x", "ab", "é"}).Draw(t, "long-fill"), n)[:n] + rapid.SampledFrom([]string{"", "\n", "\r\n"}).Draw(t, "long-end"))
		case 0:
			e.Msg = gen.BS(rapid.SampledFrom([]string{"", "\n", "\r\n", "x\n", "x\r\n\r\n", "a\nb", "a\r\nb\n", "\nlead", " trail \n", "tab\t"}).Draw(t, "lb"))
		case 1:
			e.Msg = gen.BS(rapid.SliceOfN(rapid.Byte(), 0, 16).Draw(t, "bytes"))
		case 2:
			e.Msg = gen.BS("\x1b[31mred\x1b[0m " + rapid.StringMatching(`[a-z]{0,5}`).Draw(t, "w"))
		default:
			e.Msg = gen.BS(rapid.StringMatching(`[ -~]{0,30}`).Draw(t, "text"))
		}
		c.Entries = append(c.Entries, e)
	}
	// Cap tie groups at 4 entries so that the matcher stays cheap.
	count := map[uint64]int{}
	for i := range c.Entries {
		for count[c.Entries[i].TS] >= 4 {
			c.Entries[i].TS++
		}
		count[c.Entries[i].TS]++
	}
	c.Timestamp = rapid.Bool().Draw(t, "timestamp")
	c.Container = rapid.Bool().Draw(t, "container")
	c.Color = rapid.Bool().Draw(t, "color")
	return c
}

// TestC15 decides C15.
func TestC15(t *testing.T) {
	evid.Run(t, "C15", c15Gen, c15Check)
}
