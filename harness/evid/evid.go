// Package evid drives one property check: it runs Gen+Check under rapid (or replays a
// saved case), collects coverage statistics and writes them where the driver expects them.
//
// Environment (all set by /verif/run.py):
//
//	VERIF_STATS   path of the JSON statistics file to write (one per process)
//	VERIF_REPLAYS directory where shrunk failing cases are written
//	VERIF_REPLAY  path of a saved case: replay it instead of generating
//	VERIF_KNOWN   path of known_findings.json
//	VERIF_REGRESS directory of saved cases (<dir>/<TestName>/*.json) that are checked, without
//	              the library, before anything is generated
package evid

import (
	"crypto/sha1"
	"encoding/hex"
	"encoding/json"
	"fmt"
	"os"
	"path/filepath"
	"runtime/debug"
	"sort"
	"sync"
	"testing"

	"pgregory.net/rapid"
)

// Violation describes a failed oracle.
type Violation struct {
	// Sig is a deterministic classification of what failed. Known findings are matched by it.
	Sig string `json:"sig"`
	// Msg is a human readable explanation with the minimal evidence.
	Msg string `json:"msg"`
}

// Viol builds a violation.
func Viol(sig, format string, args ...any) *Violation {
	return &Violation{Sig: sig, Msg: fmt.Sprintf(format, args...)}
}

// Result is what one evaluation of a case reports.
type Result struct {
	// Classes label the case for the distribution histogram.
	Classes []string
	// NonTrivial tells whether the case satisfies the property's non-triviality rule.
	NonTrivial bool
	// Violation is nil when the oracle held.
	Violation *Violation
	// Evals is the number of executions of the code under test this case stands for
	// (e.g. several completion orders); 0 means 1.
	Evals int
}

// Class is a small helper to append a class when cond holds.
func (r *Result) Class(cond bool, name string) {
	if cond {
		r.Classes = append(r.Classes, name)
	}
}

type knownFinding struct {
	Property string `json:"property"`
	ID       string `json:"id"`
	Status   string `json:"status"`
	Sig      string `json:"signature"`
	What     string `json:"what"`
}

type violationRec struct {
	Sig    string `json:"sig"`
	Msg    string `json:"msg"`
	Replay string `json:"replay"`
}

// Stats is the content of the statistics file.
type Stats struct {
	Property    string `json:"property"`
	Mode        string `json:"mode"`
	Evaluations int    `json:"evaluations"`
	Cases       int    `json:"cases"`
	NonTrivial  int    `json:"nontrivial"`
	// BulkNonTrivial is the part of NonTrivial that was enumerated (distinct by construction)
	// and is therefore not in Hashes.
	BulkNonTrivial int               `json:"bulk_nontrivial"`
	Hashes         []string          `json:"nontrivial_hashes"`
	Classes        map[string]int    `json:"classes"`
	Samples        []json.RawMessage `json:"samples"`
	Violations     []violationRec    `json:"violations"`
	KnownHits      map[string]int    `json:"known_hits"`
	KnownSample    map[string]string `json:"known_samples"`
	Extra          map[string]any    `json:"extra,omitempty"`
	Completed      bool              `json:"completed"`
	// Regress is the number of saved regression cases checked before generation.
	Regress int `json:"regress,omitempty"`
}

// Collector accumulates statistics for one property in one process.
type Collector struct {
	mu       sync.Mutex
	prop     string
	test     string // name of the test function: written into replay files
	st       Stats
	hashes   map[string]struct{}
	known    map[string]knownFinding
	failed   bool
	lastFail []byte
	lastViol *Violation
	ntSample int
	bulkNT   int
}

// NewCollector creates a collector for property prop.
func NewCollector(prop string) *Collector {
	c := &Collector{
		prop:   prop,
		hashes: map[string]struct{}{},
		known:  map[string]knownFinding{},
	}
	c.st.Property = prop
	c.st.Classes = map[string]int{}
	c.st.KnownHits = map[string]int{}
	c.st.KnownSample = map[string]string{}
	c.st.Extra = map[string]any{}
	if p := os.Getenv("VERIF_KNOWN"); p != "" {
		if data, err := os.ReadFile(p); err == nil {
			var file struct {
				Findings []knownFinding `json:"findings"`
			}
			if err := json.Unmarshal(data, &file); err == nil {
				for _, f := range file.Findings {
					if f.Property == prop && f.Status == "known" {
						c.known[f.Sig] = f
					}
				}
			}
		}
	}
	return c
}

// SetExtra records an additional coverage key.
func (c *Collector) SetExtra(k string, v any) {
	c.mu.Lock()
	defer c.mu.Unlock()
	c.st.Extra[k] = v
}

// AddBulk accounts evals cases enumerated outside rapid (all distinct by construction), of
// which nontrivial satisfy the non-triviality rule.
func (c *Collector) AddBulk(evals, nontrivial int, class string) {
	c.mu.Lock()
	defer c.mu.Unlock()
	c.st.Evaluations += evals
	c.st.Cases += evals
	c.bulkNT += nontrivial
	c.st.Classes[class] += evals
	c.st.Classes["nontrivial"] += nontrivial
}

// IsKnown reports whether sig is a listed known finding for this property.
func (c *Collector) IsKnown(sig string) bool {
	_, ok := c.known[sig]
	return ok
}

func hashOf(b []byte) string {
	h := sha1.Sum(b)
	return hex.EncodeToString(h[:8])
}

// Record accounts one evaluated case. It returns the violation that must fail the run
// (nil if none, or if the violation is a listed known finding).
func (c *Collector) Record(caseJSON []byte, r Result) *Violation {
	c.mu.Lock()
	defer c.mu.Unlock()

	if r.Violation != nil {
		if _, ok := c.known[r.Violation.Sig]; ok {
			if !c.failed {
				c.st.KnownHits[r.Violation.Sig]++
				if _, ok := c.st.KnownSample[r.Violation.Sig]; !ok {
					c.st.KnownSample[r.Violation.Sig] = r.Violation.Msg
				}
			}
			r.Violation = nil
			// A case inside a known finding's domain is counted but is not
			// counted as covering the property.
			if !c.failed {
				c.st.Cases++
				c.st.Classes["in-known-finding-domain"]++
			}
			return nil
		}
	}

	if !c.failed {
		c.st.Cases++
		ev := r.Evals
		if ev <= 0 {
			ev = 1
		}
		c.st.Evaluations += ev
		for _, cl := range r.Classes {
			c.st.Classes[cl]++
		}
		if r.NonTrivial {
			c.st.Classes["nontrivial"]++
			h := hashOf(caseJSON)
			if _, ok := c.hashes[h]; !ok {
				c.hashes[h] = struct{}{}
				if c.ntSample < 4 && len(caseJSON) < 6000 {
					c.ntSample++
					c.st.Samples = append(c.st.Samples, json.RawMessage(caseJSON))
				}
			}
		} else if len(c.st.Samples) < 1 && len(caseJSON) < 6000 {
			c.st.Samples = append(c.st.Samples, json.RawMessage(caseJSON))
		}
	}
	if r.Violation != nil {
		c.failed = true
		c.lastFail = append(c.lastFail[:0], caseJSON...)
		v := *r.Violation
		c.lastViol = &v
	}
	return r.Violation
}

// Flush writes the statistics file and, if a violation was seen, the replay file of the
// last (= minimal, after shrinking) failing case.
func (c *Collector) Flush(mode string, completed bool) {
	c.mu.Lock()
	defer c.mu.Unlock()
	c.st.Mode = mode
	c.st.Completed = completed

	if c.lastViol != nil {
		dir := os.Getenv("VERIF_REPLAYS")
		if dir == "" {
			dir = os.TempDir()
		}
		dir = filepath.Join(dir, c.prop)
		_ = os.MkdirAll(dir, 0o755)
		path := filepath.Join(dir, hashOf(c.lastFail)+".json")
		if mode == "replay" {
			path = os.Getenv("VERIF_REPLAY")
		} else {
			_ = os.WriteFile(path, withTestName(c.lastFail, c.test), 0o644)
		}
		c.st.Violations = append(c.st.Violations, violationRec{
			Sig:    c.lastViol.Sig,
			Msg:    c.lastViol.Msg,
			Replay: path,
		})
		c.lastViol = nil
	}

	c.st.Hashes = c.st.Hashes[:0]
	for h := range c.hashes {
		c.st.Hashes = append(c.st.Hashes, h)
	}
	sort.Strings(c.st.Hashes)
	c.st.NonTrivial = len(c.st.Hashes) + c.bulkNT
	c.st.BulkNonTrivial = c.bulkNT

	if p := os.Getenv("VERIF_STATS"); p != "" {
		data, err := json.Marshal(c.st)
		if err == nil {
			tmp := p + ".tmp"
			if err := os.WriteFile(tmp, data, 0o644); err == nil {
				_ = os.Rename(tmp, p)
			}
		}
	}
}

// Run drives property prop: replay mode when VERIF_REPLAY is set, rapid otherwise.
//
// gen must draw every random choice from t; check must be a pure function of the case and
// the code under test.
func Run[C any](t *testing.T, prop string, gen func(t *rapid.T) C, check func(c C) Result) {
	col := NewCollector(prop)
	RunWith(t, col, gen, check)
}

// RunWith is Run with a caller-provided collector (to add extra coverage keys).
func RunWith[C any](t *testing.T, col *Collector, gen func(t *rapid.T) C, check func(c C) Result) {
	col.test = t.Name()
	if p := os.Getenv("VERIF_REPLAY"); p != "" {
		data, err := os.ReadFile(p)
		if err != nil {
			t.Fatalf("read replay: %v", err)
		}
		var c C
		if err := json.Unmarshal(data, &c); err != nil {
			t.Fatalf("decode replay: %v", err)
		}
		r := safeCheck(col.prop, check, c)
		v := col.Record(data, r)
		col.Flush("replay", true)
		if v != nil {
			t.Fatalf("replayed violation [%s]: %s", v.Sig, v.Msg)
		}
		if r.Violation != nil {
			t.Logf("replayed known finding [%s]: %s", r.Violation.Sig, r.Violation.Msg)
		}
		return
	}

	completed := false
	defer func() {
		col.Flush("rapid", completed)
	}()
	// Saved cases first: shrunk inputs of repaired defects and of the seeded changes, checked
	// as plain regression cases that do not depend on what the generator happens to draw.
	if dir := os.Getenv("VERIF_REGRESS"); dir != "" {
		files, _ := filepath.Glob(filepath.Join(dir, t.Name(), "*.json"))
		sort.Strings(files)
		for _, f := range files {
			data, err := os.ReadFile(f)
			if err != nil {
				t.Fatalf("read regression case: %v", err)
			}
			var c C
			if err := json.Unmarshal(data, &c); err != nil {
				t.Fatalf("decode regression case %s: %v", f, err)
			}
			if cur := os.Getenv("VERIF_CURRENT"); cur != "" {
				_ = os.WriteFile(cur, data, 0o644)
			}
			r := safeCheck(col.prop, check, c)
			col.st.Regress++
			if v := col.Record(data, r); v != nil {
				t.Fatalf("regression case %s: violation [%s]: %s", f, v.Sig, v.Msg)
			}
		}
	}
	rapid.Check(t, func(rt *rapid.T) {
		c := gen(rt)
		data, err := json.Marshal(c)
		if err != nil {
			rt.Fatalf("case is not serialisable: %v", err)
		}
		if cur := os.Getenv("VERIF_CURRENT"); cur != "" {
			// Remember the case being evaluated: if the code under test kills the process
			// (fatal runtime error, out of memory) the driver reports this file as the replay.
			_ = os.WriteFile(cur, data, 0o644)
		}
		r := safeCheck(col.prop, check, c)
		if v := col.Record(data, r); v != nil {
			rt.Fatalf("violation [%s]: %s\ncase: %s", v.Sig, v.Msg, truncate(string(data), 4000))
		}
	})
	completed = true
}

// withTestName adds "_test": <name> to a JSON object (decoders of the case ignore it).
func withTestName(data []byte, test string) []byte {
	var m map[string]json.RawMessage
	if test == "" || json.Unmarshal(data, &m) != nil {
		return data
	}
	name, _ := json.Marshal(test)
	m["_test"] = name
	out, err := json.Marshal(m)
	if err != nil {
		return data
	}
	return out
}

func truncate(s string, n int) string {
	if len(s) <= n {
		return s
	}
	return s[:n] + "…"
}

// safeCheck turns a panic of the code under test (or of the oracle) into a violation so that
// rapid can shrink it and a replay file is written.
func safeCheck[C any](prop string, check func(c C) Result, c C) (r Result) {
	defer func() {
		if p := recover(); p != nil {
			r = Result{NonTrivial: true, Violation: Viol(prop+"/panic", "panic: %v\n%s", p, debug.Stack())}
		}
	}()
	return check(c)
}
