// Package fakedocker is an in-process stand-in for the Docker daemon: it implements the two
// client.APIClient methods docker-logql uses, records what it was asked, owns the completion
// order of concurrent ContainerLogs calls and accounts for every reader it hands out.
package fakedocker

import (
	"context"
	"encoding/binary"
	"errors"
	"fmt"
	"io"
	"strings"
	"sync"
	"sync/atomic"
	"time"

	"github.com/docker/docker/api/types"
	"github.com/docker/docker/api/types/container"
	timetypes "github.com/docker/docker/api/types/time"
	"github.com/docker/docker/client"
	"github.com/docker/docker/errdefs"
)

// Frame types of Docker's multiplexed stream.
const (
	Stdin     = 0
	Stdout    = 1
	Stderr    = 2
	Systemerr = 3
)

// ErrReadAfterClose is what a reader returns once it was closed.
var ErrReadAfterClose = errors.New("fakedocker: read on closed log stream")

// EncodeFrame encodes one frame of Docker's multiplexed log stream: 8-byte header (type, three
// zero bytes, big-endian payload length) followed by the payload.
func EncodeFrame(typ byte, payload []byte) []byte {
	out := make([]byte, 8, 8+len(payload))
	out[0] = typ
	binary.BigEndian.PutUint32(out[4:8], uint32(len(payload)))
	return append(out, payload...)
}

// EncodeRecord encodes a log record the way the daemon does with timestamps enabled:
// "<timestamp> <message>" as the payload of a stdout/stderr frame.
func EncodeRecord(typ byte, ts string, msg []byte) []byte {
	payload := make([]byte, 0, len(ts)+1+len(msg))
	payload = append(payload, ts...)
	payload = append(payload, ' ')
	payload = append(payload, msg...)
	return EncodeFrame(typ, payload)
}

// Container is one container of the fake inventory.
type Container struct {
	Summary types.Container
	// Log is the raw multiplexed stream served for this container.
	Log []byte
	// Frag is the cyclic plan of read sizes (0 = zero-length read, <0 = everything).
	Frag []int
	// OpenErr makes ContainerLogs fail for this container.
	OpenErr bool
	// ReadErrAt >= 0 makes the reader fail once that many bytes were delivered.
	ReadErrAt int
}

// Call records one ContainerLogs call.
type Call struct {
	ID   string
	Opts container.LogsOptions
}

// ErrInjected is the error returned by injected faults.
var ErrInjected = errors.New("injected fault")

// ErrKinds are the classes of error an injected fault can be (Daemon.ErrKind): the plain one, the
// classes the Docker client derives from HTTP status codes, the errors of a context and of a
// connection that went away.
var ErrKinds = []string{"", "notfound", "conflict", "unavailable", "forbidden", "canceled", "deadline", "unexpected-eof", "closed-pipe"}

func (d *Daemon) injected() error {
	switch d.ErrKind {
	case "notfound":
		return errdefs.NotFound(errors.New("Error response from daemon: No such container: injected fault"))
	case "conflict":
		return errdefs.Conflict(errors.New("Error response from daemon: container is being removed: injected fault"))
	case "unavailable":
		return errdefs.Unavailable(errors.New("Error response from daemon: injected fault"))
	case "forbidden":
		return errdefs.Forbidden(errors.New("Error response from daemon: injected fault"))
	case "canceled":
		return context.Canceled
	case "deadline":
		return context.DeadlineExceeded
	case "unexpected-eof":
		return io.ErrUnexpectedEOF
	case "closed-pipe":
		return io.ErrClosedPipe
	}
	return ErrInjected
}

// Daemon is the fake daemon.
type Daemon struct {
	client.APIClient // nil: any other method panics, which would be a finding of its own

	Containers []Container
	ListErr    bool
	// ErrKind is the class of every injected error (one of ErrKinds).
	ErrKind string
	// EndUnexpected makes every reader end with io.ErrUnexpectedEOF instead of io.EOF: that is
	// how net/http reports a response body whose connection went away.
	EndUnexpected bool
	// HonourWindow makes ContainerLogs behave like the daemon for the Since / Until options:
	// the value goes through the client's and the daemon's own parsers (seconds[.fraction], the
	// fraction scaled by its number of digits), frames older than since are skipped and the log
	// ends at the first frame newer than until. A frame that cannot be parsed ends the filtering
	// (the rest is served as it is).
	HonourWindow bool
	// IgnoreUntil, with HonourWindow, leaves the end of the log alone: the product asks for
	// until = the whole second of the end (C02 states that truncation), so the real daemon
	// withholds the last fraction of a second; checks of other properties look at the start only.
	IgnoreUntil bool

	// Waves gives, per ContainerList call, how many ContainerLogs calls are expected to
	// follow concurrently; Order gives, per wave, the completion order as a permutation of
	// arrival ranks sorted by container index. With no waves calls are not gated.
	Waves []int
	Order [][]int

	mu             sync.Mutex
	calls          []Call
	listCalls      int
	opened         int
	closed         int
	doubleClosed   int
	readAfterClose int
	readAfterDone  int
	done           bool
	scheduleBroken bool

	wave    int
	pending []*pendingCall
	waveCh  chan struct{}
}

type pendingCall struct {
	idx     int // container index
	release chan struct{}
	done    chan struct{}
}

// Report is what the daemon observed.
type Report struct {
	Calls          []Call
	ListCalls      int
	Opened         int
	Closed         int
	DoubleClosed   int
	ReadAfterClose int
	ReadAfterDone  int
	ScheduleBroken bool
}

// Done marks the end of evaluation: any later read is accounted as a read after return.
func (d *Daemon) Done() Report {
	d.mu.Lock()
	defer d.mu.Unlock()
	d.done = true
	return Report{
		Calls:          append([]Call(nil), d.calls...),
		ListCalls:      d.listCalls,
		Opened:         d.opened,
		Closed:         d.closed,
		DoubleClosed:   d.doubleClosed,
		ReadAfterClose: d.readAfterClose,
		ReadAfterDone:  d.readAfterDone,
		ScheduleBroken: d.scheduleBroken,
	}
}

// ContainerList implements client.APIClient.
func (d *Daemon) ContainerList(_ context.Context, opts container.ListOptions) ([]types.Container, error) {
	d.mu.Lock()
	defer d.mu.Unlock()
	wave := d.listCalls
	d.listCalls++
	if d.ListErr {
		return nil, d.injected()
	}
	if gatingOff.Load() {
		d.wave = -1
		d.scheduleBroken = true
	} else if wave < len(d.Waves) && d.Waves[wave] > 1 {
		d.wave = wave
		d.pending = nil
		go d.schedule(wave, d.Waves[wave])
	} else {
		d.wave = -1
	}
	// List filters are honoured the way the daemon does (daemon/list.go): id and name match
	// exactly or as an unanchored regular expression, label takes key or key=value, status is
	// exact; an unknown filter is an error.
	for _, k := range opts.Filters.Keys() {
		switch k {
		case "id", "name", "label", "status", "ancestor":
		default:
			return nil, fmt.Errorf("invalid filter '%s'", k)
		}
	}
	out := make([]types.Container, 0, len(d.Containers))
	for _, c := range d.Containers {
		s := c.Summary
		if !opts.All && s.State != "running" {
			continue // without All the daemon lists running containers only
		}
		if !opts.Filters.Match("id", s.ID) {
			continue
		}
		if opts.Filters.Contains("name") {
			ok := false
			for _, n := range s.Names {
				ok = ok || opts.Filters.Match("name", strings.TrimPrefix(n, "/"))
			}
			if !ok {
				continue
			}
		}
		if !opts.Filters.MatchKVList("label", s.Labels) || !opts.Filters.ExactMatch("status", s.State) {
			continue
		}
		if opts.Filters.Contains("ancestor") && !opts.Filters.ExactMatch("ancestor", s.Image) && !opts.Filters.ExactMatch("ancestor", s.ImageID) {
			continue
		}
		out = append(out, s)
	}
	return out, nil
}

// gatingOff is set for the rest of the process once a wave did not fill up: the code under test
// does not issue all ContainerLogs calls of a selection concurrently (a worker limit, sequential
// opening - neither is forbidden by any property), so the completion order cannot be owned and
// waiting for it again would only cost time. Reports carry ScheduleBroken so that the checks can
// say so in their statistics.
var gatingOff atomic.Bool

// GatingOff tells whether completion-order gating was given up in this process.
func GatingOff() bool { return gatingOff.Load() }

// schedule waits until n calls of the wave have arrived, then lets them complete one at a
// time in the planned order.
func (d *Daemon) schedule(wave, n int) {
	deadline := time.Now().Add(2 * time.Second)
	for {
		d.mu.Lock()
		if d.wave != wave {
			d.mu.Unlock()
			return
		}
		arrived := len(d.pending)
		d.mu.Unlock()
		if arrived >= n {
			break
		}
		if time.Now().After(deadline) {
			d.mu.Lock()
			d.scheduleBroken = true
			d.mu.Unlock()
			gatingOff.Store(true)
			break
		}
		time.Sleep(50 * time.Microsecond)
	}

	d.mu.Lock()
	pend := append([]*pendingCall(nil), d.pending...)
	d.wave = -1
	var order []int
	if wave < len(d.Order) {
		order = d.Order[wave]
	}
	d.mu.Unlock()

	// Sort arrivals by container index so that the plan does not depend on arrival order.
	for i := 1; i < len(pend); i++ {
		for j := i; j > 0 && pend[j-1].idx > pend[j].idx; j-- {
			pend[j-1], pend[j] = pend[j], pend[j-1]
		}
	}
	released := make([]bool, len(pend))
	for _, k := range order {
		if k < 0 || k >= len(pend) || released[k] {
			continue
		}
		released[k] = true
		close(pend[k].release)
		<-pend[k].done
	}
	for k, p := range pend {
		if !released[k] {
			close(p.release)
			<-p.done
		}
	}
}

// ContainerLogs implements client.APIClient.
func (d *Daemon) ContainerLogs(ctx context.Context, id string, opts container.LogsOptions) (io.ReadCloser, error) {
	d.mu.Lock()
	d.calls = append(d.calls, Call{ID: id, Opts: opts})
	idx := -1
	for i := range d.Containers {
		if d.Containers[i].Summary.ID == id {
			idx = i
			break
		}
	}
	var p *pendingCall
	if d.wave >= 0 {
		p = &pendingCall{idx: idx, release: make(chan struct{}), done: make(chan struct{})}
		d.pending = append(d.pending, p)
	}
	d.mu.Unlock()

	if p != nil {
		select {
		case <-p.release:
		case <-ctx.Done():
		}
		defer close(p.done)
	}

	if idx < 0 {
		return nil, errdefs.NotFound(errors.New("Error response from daemon: No such container"))
	}
	c := &d.Containers[idx]
	if c.OpenErr {
		return nil, d.injected()
	}
	data := c.Log
	if d.HonourWindow {
		since, err1 := WindowBound(opts.Since)
		until, err2 := WindowBound(opts.Until)
		if err1 != nil || err2 != nil {
			return nil, errdefs.InvalidParameter(fmt.Errorf("Error response from daemon: invalid since/until %q/%q", opts.Since, opts.Until))
		}
		data = filterLog(data, since, until, opts.Until != "" && !d.IgnoreUntil)
	}
	d.mu.Lock()
	d.opened++
	d.mu.Unlock()
	return &reader{d: d, data: data, frag: c.Frag, errAt: c.ReadErrAt}, nil
}

// WindowBound is what the daemon makes of a Since / Until option: the client library turns the
// value into "seconds.nanoseconds" (GetTimestamp), the daemon reads that back (ParseTimestamps).
// An empty value is the zero instant.
func WindowBound(value string) (time.Time, error) {
	if value == "" {
		return time.Time{}, nil
	}
	ts, err := timetypes.GetTimestamp(value, time.Unix(4102444800, 0))
	if err != nil {
		return time.Time{}, err
	}
	sec, nsec, err := timetypes.ParseTimestamps(ts, 0)
	if err != nil {
		return time.Time{}, err
	}
	return time.Unix(sec, nsec), nil
}

func filterLog(log []byte, since, until time.Time, hasUntil bool) []byte {
	var out []byte
	for len(log) > 0 {
		if len(log) < 8 {
			return append(out, log...)
		}
		size := int(binary.BigEndian.Uint32(log[4:8]))
		if log[0] > Stderr || 8+size > len(log) {
			return append(out, log...)
		}
		payload := log[8 : 8+size]
		sp := strings.IndexByte(string(payload), ' ')
		if sp < 0 {
			return append(out, log...)
		}
		ts, err := time.Parse(time.RFC3339Nano, string(payload[:sp]))
		if err != nil {
			return append(out, log...)
		}
		if hasUntil && ts.After(until) {
			return out
		}
		if !ts.Before(since) {
			out = append(out, log[:8+size]...)
		}
		log = log[8+size:]
	}
	return out
}

type reader struct {
	d      *Daemon
	data   []byte
	pos    int
	frag   []int
	step   int
	errAt  int
	closed bool

	lastZero bool
}

func (r *reader) Read(p []byte) (int, error) {
	r.d.mu.Lock()
	closed := r.closed
	if closed {
		r.d.readAfterClose++
	}
	if r.d.done {
		r.d.readAfterDone++
	}
	r.d.mu.Unlock()
	if closed {
		// like net/http: "http: read on closed response body"
		return 0, ErrReadAfterClose
	}

	if len(p) == 0 {
		return 0, nil
	}
	n := len(p)
	if len(r.frag) > 0 {
		want := r.frag[r.step%len(r.frag)]
		r.step++
		if want == 0 && !r.lastZero {
			// A zero-length read is legal for an io.Reader, but never twice in a row
			// (a reader that stalls forever is outside any contract).
			r.lastZero = true
			return 0, nil
		}
		r.lastZero = false
		if want == 0 {
			want = -1
		}
		if want > 0 && want < n {
			n = want
		}
	}
	limit := len(r.data)
	if r.errAt >= 0 && r.errAt < limit {
		limit = r.errAt
	}
	if r.pos >= limit {
		if r.errAt >= 0 && r.errAt <= len(r.data) && r.pos >= r.errAt {
			return 0, r.d.injected()
		}
		if r.d.EndUnexpected {
			return 0, io.ErrUnexpectedEOF
		}
		return 0, io.EOF
	}
	if n > limit-r.pos {
		n = limit - r.pos
	}
	copy(p, r.data[r.pos:r.pos+n])
	r.pos += n
	return n, nil
}

func (r *reader) Close() error {
	r.d.mu.Lock()
	defer r.d.mu.Unlock()
	if r.closed {
		r.d.doubleClosed++
		return nil
	}
	r.closed = true
	r.d.closed++
	return nil
}

// NewReader returns a stand-alone reader with the daemon's fragmentation and fault behaviour.
func NewReader(data []byte, frag []int, errAt int) (io.ReadCloser, *Daemon) {
	return NewReaderEnding(data, frag, errAt, false)
}

// NewReaderEnding is NewReader with the way the stream ends (see Daemon.EndUnexpected).
func NewReaderEnding(data []byte, frag []int, errAt int, endUnexpected bool) (io.ReadCloser, *Daemon) {
	d := &Daemon{EndUnexpected: endUnexpected}
	d.opened++
	return &reader{d: d, data: data, frag: frag, errAt: errAt}, d
}
