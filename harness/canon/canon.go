// Package canon turns API results into order-free values that can be compared with a model.
package canon

import (
	"fmt"
	"math"
	"sort"
	"strconv"
	"strings"

	"github.com/tdakkota/docker-logql/internal/lokiapi"
)

// LabelKey is an injective rendering of a label map.
func LabelKey(m map[string]string) string {
	keys := make([]string, 0, len(m))
	for k := range m {
		keys = append(keys, k)
	}
	sort.Strings(keys)
	var sb strings.Builder
	for _, k := range keys {
		sb.WriteString(strconv.Quote(k))
		sb.WriteByte('=')
		sb.WriteString(strconv.Quote(m[k]))
		sb.WriteByte(',')
	}
	return sb.String()
}

// Entry is a flattened log entry.
type Entry struct {
	TS     uint64
	Line   string
	Labels map[string]string
}

// Key renders the entry injectively.
func (e Entry) Key() string {
	return fmt.Sprintf("%d|%q|%s", e.TS, e.Line, LabelKey(e.Labels))
}

// Stream is one stream of a log result.
type Stream struct {
	Labels  map[string]string
	Entries []Entry
}

// Streams extracts streams from a result.
func Streams(data lokiapi.QueryResponseData) ([]Stream, error) {
	if data.Type != lokiapi.StreamsResultQueryResponseData {
		return nil, fmt.Errorf("result type is %q, want streams", data.Type)
	}
	var out []Stream
	for _, s := range data.StreamsResult.Result {
		labels := map[string]string{}
		for k, v := range s.Stream.Value {
			labels[k] = v
		}
		st := Stream{Labels: labels}
		for _, e := range s.Values {
			st.Entries = append(st.Entries, Entry{TS: e.T, Line: e.V, Labels: labels})
		}
		out = append(out, st)
	}
	return out, nil
}

// Flatten returns all entries of all streams.
func Flatten(streams []Stream) []Entry {
	var out []Entry
	for _, s := range streams {
		out = append(out, s.Entries...)
	}
	return out
}

// Multiset counts entries by key.
func Multiset(entries []Entry) map[string]int {
	m := map[string]int{}
	for _, e := range entries {
		m[e.Key()]++
	}
	return m
}

// DiffMultiset describes the difference between two multisets ("" when equal).
func DiffMultiset(got, want map[string]int) string {
	var missing, extra []string
	for k, n := range want {
		if got[k] < n {
			missing = append(missing, fmt.Sprintf("%s x%d", k, n-got[k]))
		}
	}
	for k, n := range got {
		if want[k] < n {
			extra = append(extra, fmt.Sprintf("%s x%d", k, n-want[k]))
		}
	}
	if len(missing) == 0 && len(extra) == 0 {
		return ""
	}
	sort.Strings(missing)
	sort.Strings(extra)
	return fmt.Sprintf("missing=%v extra=%v", trunc(missing), trunc(extra))
}

func trunc(s []string) []string {
	if len(s) > 6 {
		return append(s[:6:6], fmt.Sprintf("… (%d more)", len(s)-6))
	}
	return s
}

// Point is one metric point.
type Point struct {
	TMs int64
	V   float64
}

// Series is one metric series.
type Series struct {
	Labels map[string]string
	Points []Point
}

// Metric is a canonical metric result.
type Metric struct {
	Kind   string // scalar, vector, matrix
	Series []Series
}

func parsePoint(p lokiapi.FPoint) (Point, error) {
	v, err := strconv.ParseFloat(p.V, 64)
	if err != nil {
		return Point{}, fmt.Errorf("unparsable sample value %q", p.V)
	}
	return Point{TMs: int64(math.Round(p.T * 1000)), V: v}, nil
}

// MetricOf extracts a metric result. The order of series in a vector is preserved.
func MetricOf(data lokiapi.QueryResponseData) (Metric, error) {
	var m Metric
	switch data.Type {
	case lokiapi.ScalarResultQueryResponseData:
		m.Kind = "scalar"
		p, err := parsePoint(data.ScalarResult.Result)
		if err != nil {
			return m, err
		}
		m.Series = []Series{{Labels: map[string]string{}, Points: []Point{p}}}
	case lokiapi.VectorResultQueryResponseData:
		m.Kind = "vector"
		for _, s := range data.VectorResult.Result {
			p, err := parsePoint(s.Value)
			if err != nil {
				return m, err
			}
			m.Series = append(m.Series, Series{Labels: copyMap(s.Metric.Value), Points: []Point{p}})
		}
	case lokiapi.MatrixResultQueryResponseData:
		m.Kind = "matrix"
		for _, s := range data.MatrixResult.Result {
			ser := Series{Labels: copyMap(s.Metric.Value)}
			for _, fp := range s.Values {
				p, err := parsePoint(fp)
				if err != nil {
					return m, err
				}
				ser.Points = append(ser.Points, p)
			}
			m.Series = append(m.Series, ser)
		}
	default:
		return m, fmt.Errorf("result type is %q, want a metric result", data.Type)
	}
	return m, nil
}

func copyMap(m map[string]string) map[string]string {
	out := make(map[string]string, len(m))
	for k, v := range m {
		out[k] = v
	}
	return out
}

// FloatEq compares with tolerance |a-b| <= 1e-9*max(1,|a|,|b|); NaN equals NaN, infinities
// equal themselves.
func FloatEq(a, b float64) bool {
	if math.IsNaN(a) || math.IsNaN(b) {
		return math.IsNaN(a) && math.IsNaN(b)
	}
	if math.IsInf(a, 0) || math.IsInf(b, 0) {
		return a == b
	}
	scale := math.Max(1, math.Max(math.Abs(a), math.Abs(b)))
	return math.Abs(a-b) <= 1e-9*scale
}

// FloatEqTol is FloatEq with an additional absolute allowance e.
func FloatEqTol(a, b, e float64) bool {
	if FloatEq(a, b) {
		return true
	}
	if math.IsNaN(a) || math.IsNaN(b) || math.IsInf(a, 0) || math.IsInf(b, 0) {
		return false
	}
	scale := math.Max(1, math.Max(math.Abs(a), math.Abs(b)))
	return math.Abs(a-b) <= 1e-9*scale+e
}

// PointMap indexes a metric result as labelKey -> T -> value. Duplicate label sets or duplicate
// timestamps inside a series are reported in dups.
func PointMap(m Metric) (pm map[string]map[int64]float64, labels map[string]map[string]string, dups []string) {
	pm = map[string]map[int64]float64{}
	labels = map[string]map[string]string{}
	for _, s := range m.Series {
		k := LabelKey(s.Labels)
		if _, ok := pm[k]; ok {
			dups = append(dups, "duplicate series {"+k+"}")
		} else {
			pm[k] = map[int64]float64{}
			labels[k] = s.Labels
		}
		for _, p := range s.Points {
			if _, ok := pm[k][p.TMs]; ok {
				dups = append(dups, fmt.Sprintf("duplicate point {%s}@%d", k, p.TMs))
			}
			pm[k][p.TMs] = p.V
		}
	}
	return pm, labels, dups
}

// DiffPointMaps compares got with want ("" when equal within tolerance).
func DiffPointMaps(got, want map[string]map[int64]float64) string {
	return DiffPointMapsTol(got, want, nil)
}

// DiffPointMapsTol is DiffPointMaps with a per-point allowance: tol returns the absolute error
// bound of the wanted point and whether its value is undecidable (then only its presence is
// compared).
func DiffPointMapsTol(got, want map[string]map[int64]float64, tol func(k string, t int64) (float64, bool)) string {
	var diffs []string
	for k, wpts := range want {
		gpts, ok := got[k]
		if !ok {
			if len(wpts) > 0 {
				diffs = append(diffs, fmt.Sprintf("missing series {%s} (want %d points)", k, len(wpts)))
			}
			continue
		}
		for t, wv := range wpts {
			gv, ok := gpts[t]
			if !ok {
				diffs = append(diffs, fmt.Sprintf("{%s}@%d missing, want %v", k, t, wv))
			} else if tol != nil {
				e, unc := tol(k, t)
				switch {
				case unc:
				case e == 0:
					// an exactly computable point: the same float (or NaN on both sides)
					if gv != wv && !(math.IsNaN(gv) && math.IsNaN(wv)) {
						diffs = append(diffs, fmt.Sprintf("{%s}@%d = %v, want exactly %v", k, t, gv, wv))
					}
				case !FloatEqTol(gv, wv, e):
					diffs = append(diffs, fmt.Sprintf("{%s}@%d = %v, want %v", k, t, gv, wv))
				}
			} else if !FloatEq(gv, wv) {
				diffs = append(diffs, fmt.Sprintf("{%s}@%d = %v, want %v", k, t, gv, wv))
			}
		}
		for t, gv := range gpts {
			if _, ok := wpts[t]; !ok {
				diffs = append(diffs, fmt.Sprintf("{%s}@%d = %v, want no point", k, t, gv))
			}
		}
	}
	for k, gpts := range got {
		if _, ok := want[k]; !ok && len(gpts) > 0 {
			diffs = append(diffs, fmt.Sprintf("extra series {%s} (%d points)", k, len(gpts)))
		}
	}
	if len(diffs) == 0 {
		return ""
	}
	sort.Strings(diffs)
	return strings.Join(trunc(diffs), "; ")
}
