package props

import (
	"os"
	"strconv"
)

func replaying() bool { return os.Getenv("VERIF_REPLAY") != "" }

func envInt(name string, def int) int {
	if v := os.Getenv(name); v != "" {
		if n, err := strconv.Atoi(v); err == nil {
			return n
		}
	}
	return def
}
