package props

import (
	"fmt"
	"strconv"
	"testing"
	"time"

	"pgregory.net/rapid"

	"github.com/tdakkota/docker-logql/verifharness/canon"
	"github.com/tdakkota/docker-logql/verifharness/dl"
	"github.com/tdakkota/docker-logql/verifharness/evid"
	"github.com/tdakkota/docker-logql/verifharness/fakedocker"
)

// C14Case is one case of property C14.
type C14Case struct {
	// Lines per container; container i is named c<i>.
	Ctrs [][]dl.Line `json:"ctrs"`
	// Shape: log | log-limit | range | vecagg | binop | binop-literal | binop-literal-bool(-left) | binop-right-unsupported |
	// binop-right-bad-template | vecagg-unsupported | label-replace | bad-template | bad-regex-stage
	Shape string `json:"shape"`
	// Selected is how many containers (c0..c<Selected-1>) the selector picks.
	Selected int `json:"selected"`
	// Fault: "" | list | open | read | truncate-body | badts | nosep | syserr
	Fault    string `json:"fault,omitempty"`
	FaultCtr int    `json:"fault_ctr,omitempty"`
	FaultPos int    `json:"fault_pos,omitempty"`
	// ErrKind is the class of the injected error of list / open / read faults (fakedocker.ErrKinds).
	ErrKind string `json:"err_kind,omitempty"`
	// Orders are the completion orders of the waves of concurrent opens.
	Orders [][]int `json:"orders,omitempty"`
	Frag   []int   `json:"frag,omitempty"`
	// Instant evaluates a metric query at one instant (start = end, no step) instead of a grid.
	Instant bool `json:"instant,omitempty"`
	// BadPath is the malformed JSON path of shape bad-regex-stage ("a[" when empty).
	BadPath string `json:"bad_path,omitempty"`
}

const c14Base = int64(1700000000) * 1e9

func c14Selector(c C14Case) string {
	if c.Selected >= len(c.Ctrs) {
		return "{}"
	}
	if c.Selected == 0 {
		return `{container="none"}`
	}
	return fmt.Sprintf(`{container=~"c[0-%d]"}`, c.Selected-1)
}

// c14Query returns the query of a case, the number of selections it resolves and whether it is
// invalid (must fail). Queries over constructs the engine does not implement today
// (absent_over_time, label_replace) are not invalid: they may fail or, once implemented, succeed -
// only the reader accounting and the fault reporting are checked for them (mayFail).
func c14Query(c C14Case) (q string, waves int, mustFail bool) {
	q, waves, mustFail, _ = c14QueryX(c)
	return q, waves, mustFail
}

func c14QueryX(c C14Case) (q string, waves int, mustFail, mayFail bool) {
	q, waves, fails := c14QueryBase(c)
	switch c.Shape {
	case "binop-right-unsupported", "vecagg-unsupported", "label-replace", "binop-literal-bool", "binop-literal-bool-left":
		// (bool on an arithmetic operator: this parser takes it, Loki refuses it - either is fine,
		// as long as what was opened is closed)
		return q, waves, false, true
	}
	return q, waves, fails, false
}

func c14QueryBase(c C14Case) (q string, waves int, mustFail bool) {
	sel := c14Selector(c)
	rng := "count_over_time(" + sel + "[5s])"
	switch c.Shape {
	case "log", "log-limit":
		return sel + ` |= "line"`, 1, false
	case "range":
		return rng, 1, false
	case "vecagg":
		return "sum by (container) (" + rng + ")", 1, false
	case "binop":
		return rng + " + bytes_over_time(" + sel + "[5s])", 2, false
	case "binop-literal":
		return rng + " * 2", 1, false
	case "binop-literal-bool":
		return rng + " + bool 2", 1, false
	case "binop-literal-bool-left":
		return "2 * bool sum by (container) (" + rng + ")", 1, false
	case "binop-right-unsupported":
		return rng + " + absent_over_time(" + sel + "[5s])", 2, true
	case "binop-right-bad-template":
		return rng + " + count_over_time(" + sel + ` | line_format "{{ .foo | nosuchfunction }}" [5s])`, 1, true
	case "vecagg-unsupported":
		return "sum(absent_over_time(" + sel + "[5s]))", 1, true
	case "label-replace":
		return "label_replace(" + rng + `, "a", "b", "c", "d")`, 0, true
	case "bad-template":
		return sel + ` | line_format "{{ .foo | nosuchfunction }}"`, 0, true
	case "bad-regex-stage":
		path := c.BadPath
		if path == "" {
			path = "a["
		}
		return sel + ` | json x=` + strconv.Quote(path) + ` `, 0, true
	}
	return sel, 1, false
}

func c14Check(c C14Case) (r evid.Result) {
	d := &fakedocker.Daemon{ErrKind: c.ErrKind}
	r.Class(c.ErrKind != "" && (c.Fault == "list" || c.Fault == "open" || c.Fault == "read"), "error-class="+c.ErrKind)
	selected := c.Selected
	if selected > len(c.Ctrs) {
		selected = len(c.Ctrs)
	}
	faultApplied := c.Fault
	faultInSelection := false
	// faultAtStart: the fault sits in front of the first record of its container (or at its
	// open): even a query that needs a single record has to look there to know which is first.
	faultAtStart := c.Fault == "list"
	totalLines := 0
	for i, lines := range c.Ctrs {
		ct := dl.Ctr(fmt.Sprintf("id%d", i), fmt.Sprintf("c%d", i), nil, lines)
		ct.Frag = c.Frag
		if i < selected {
			totalLines += len(lines)
		}
		if c.Fault != "" && c.Fault != "list" && i == c.FaultCtr {
			switch c.Fault {
			case "open":
				ct.OpenErr = true
				faultAtStart = true
			case "read":
				ct.ReadErrAt = 0
				if len(ct.Log) > 0 {
					ct.ReadErrAt = c.FaultPos % (len(ct.Log) + 1)
				}
				faultAtStart = ct.ReadErrAt == 0
			default:
				if len(lines) == 0 {
					ct.OpenErr = true
					faultApplied = "open"
					faultAtStart = true
					break
				}
				k := c.FaultPos % len(lines)
				faultAtStart = k == 0
				var stream []byte
				for j, l := range lines {
					ts := time.Unix(0, l.TS).UTC().Format(time.RFC3339Nano)
					frame := fakedocker.EncodeRecord(fakedocker.Stdout, ts, []byte(l.Msg))
					if j == k {
						switch c.Fault {
						case "badts":
							frame = fakedocker.EncodeRecord(fakedocker.Stdout, "not-a-timestamp", []byte(l.Msg))
						case "nosep":
							frame = fakedocker.EncodeFrame(fakedocker.Stdout, []byte("nospacehere"))
						case "syserr":
							frame = fakedocker.EncodeFrame(fakedocker.Systemerr, []byte("daemon error"))
						case "truncate-body":
							cut := 8 + (c.FaultPos/7)%(len(frame)-8)
							stream = append(stream, frame[:cut]...)
						}
						if c.Fault == "truncate-body" {
							break
						}
					}
					stream = append(stream, frame...)
				}
				ct.Log = stream
			}
			faultInSelection = i < selected
		}
		d.Containers = append(d.Containers, ct)
	}
	if c.Fault == "list" {
		d.ListErr = true
		faultInSelection = true
	}
	query, waves, mustFail, mayFail := c14QueryX(c)
	if selected > 1 {
		for w := 0; w < waves; w++ {
			d.Waves = append(d.Waves, selected)
			if w < len(c.Orders) {
				d.Order = append(d.Order, c.Orders[w])
			}
		}
	}
	limit := -1
	if c.Shape == "log-limit" {
		limit = 1
	}
	params := dl.Params{Start: c14Base, End: c14Base + 10e9, Step: 1e9, Limit: limit}
	if c.Instant && c.Shape != "log" && c.Shape != "log-limit" {
		params = dl.Params{Start: c14Base + 10e9, End: c14Base + 10e9, Step: 0, Limit: limit}
	}
	r.Class(params.Step == 0, "instant")
	data, err := dl.Eval(d, query, params)
	rep := d.Done()

	r.Class(true, "shape="+c.Shape)
	r.Class(true, "fault="+faultApplied)
	r.Class(faultInSelection, "fault-in-selection")
	r.Class(selected >= 2, "selected>=2")
	r.Class(rep.Opened >= 2, "opened>=2")
	metric := c.Shape != "log" && c.Shape != "log-limit" && c.Shape != "bad-template" && c.Shape != "bad-regex-stage"
	r.NonTrivial = (faultInSelection && selected >= 2 && c.Fault != "list") || (metric && rep.Opened >= 2)
	what := fmt.Sprintf("query %s over %d containers (%d selected), fault %s (error class %q) in container %d at %d", query, len(c.Ctrs), selected, faultApplied, c.ErrKind, c.FaultCtr, c.FaultPos)

	// (c) every opened reader is closed, none is read after Eval returned.
	if rep.Opened != rep.Closed {
		r.Violation = evid.Viol("C14/reader-leak", "%s: %d readers opened, %d closed (err=%v)", what, rep.Opened, rep.Closed, err)
		return r
	}
	if rep.ReadAfterDone > 0 {
		r.Violation = evid.Viol("C14/read-after-return", "%s: %d reads after Eval returned", what, rep.ReadAfterDone)
		return r
	}
	// (a) a fault inside the data the query must read surfaces as an error.
	// A construct that is not implemented fails before any data is read; were it implemented,
	// the fault would have to surface. Either way an error is fine, success only without a fault.
	mustReach := faultInSelection && (c.Shape != "log-limit" || faultAtStart) && !mustFail
	r.Class(c.Shape == "log-limit" && faultInSelection && faultAtStart, "limited-query-fault-before-the-first-record")
	switch {
	case mustFail && err == nil:
		r.Violation = evid.Viol("C14/invalid-query-accepted", "%s: evaluation succeeded", what)
	case mustReach && err == nil:
		r.Violation = evid.Viol("C14/fault-swallowed", "%s: evaluation succeeded (result type %s)", what, data.Type)
	case !faultInSelection && !mustFail && !mayFail && err != nil:
		r.Violation = evid.Viol("C14/spurious-error", "%s: %v", what, err)
	}
	if r.Violation != nil {
		return r
	}
	// (b) fault-free log query: nothing is lost.
	if !faultInSelection && c.Shape == "log" && err == nil {
		streams, serr := canon.Streams(data)
		if serr != nil {
			r.Violation = evid.Viol("C14/result-type", "%s: %v", what, serr)
			return r
		}
		if n := len(canon.Flatten(streams)); n != totalLines {
			r.Violation = evid.Viol("C14/lost-lines", "%s: %d lines returned, %d written", what, n, totalLines)
		}
	}
	return r
}

func c14Gen(t *rapid.T) C14Case {
	var c C14Case
	n := rapid.SampledFrom([]int{1, 2, 2, 3, 3, 4, 5}).Draw(t, "containers")
	for i := 0; i < n; i++ {
		m := rapid.IntRange(0, 6).Draw(t, "lines")
		if rapid.IntRange(0, 5).Draw(t, "long") == 0 {
			m = rapid.IntRange(6, 20).Draw(t, "lines-long")
		}
		var lines []dl.Line
		for j := 0; j < m; j++ {
			lines = append(lines, dl.Line{TS: c14Base + int64(j)*400e6 + int64(i)*1e6, Msg: fmt.Sprintf("line %d of c%d", j, i)})
		}
		c.Ctrs = append(c.Ctrs, lines)
	}
	c.Shape = rapid.SampledFrom([]string{"log", "log", "log-limit", "range", "range", "vecagg", "binop", "binop", "binop-literal", "binop-literal-bool", "binop-literal-bool-left",
		"binop-right-unsupported", "binop-right-bad-template", "vecagg-unsupported", "label-replace", "bad-template", "bad-regex-stage"}).Draw(t, "shape")
	c.Selected = rapid.IntRange(0, n).Draw(t, "selected")
	if rapid.IntRange(0, 2).Draw(t, "select-all") != 0 {
		c.Selected = n
	}
	c.Fault = rapid.SampledFrom([]string{"", "", "list", "open", "open", "read", "read", "truncate-body", "badts", "nosep", "syserr"}).Draw(t, "fault")
	c.FaultCtr = rapid.IntRange(0, n-1).Draw(t, "fault-ctr")
	if rapid.IntRange(0, 3).Draw(t, "fault-before-the-first-record") == 0 {
		c.FaultPos = 0
	}
	if rapid.Bool().Draw(t, "classified-error") {
		// What fails is not always a plain error: a 404 of the daemon, a cancelled context, a
		// connection that went away. None of them is "nothing to read".
		c.ErrKind = rapid.SampledFrom(fakedocker.ErrKinds).Draw(t, "err-kind")
		// A reader that ends with io.ErrUnexpectedEOF says "the stream was cut": inside a frame
		// header that is a clean end (C03, as docker-cli does), so it is not a fault of its own.
		if c.Fault == "read" && c.ErrKind == "unexpected-eof" {
			c.ErrKind = "closed-pipe"
		}
	}
	c.FaultPos = rapid.IntRange(0, 1<<16).Draw(t, "fault-pos")
	for w := 0; w < 2; w++ {
		c.Orders = append(c.Orders, rapid.Permutation(identity(n)).Draw(t, "order"))
	}
	c.Frag = genFrag(t)
	c.Instant = rapid.IntRange(0, 2).Draw(t, "instant") == 0
	if c.Shape == "bad-regex-stage" {
		// unbalanced brackets, a dangling dot, nothing at all: malformed beyond doubt
		c.BadPath = rapid.SampledFrom([]string{"a[", "a[1", `["k`, "a.", "[", "a[0", `["k"`, "a..b", "a[x]"}).Draw(t, "bad-path")
	}
	return c
}

// TestC14 decides C14.
func TestC14(t *testing.T) {
	evid.Run(t, "C14", c14Gen, c14Check)
}
