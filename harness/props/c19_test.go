package props

import (
	"fmt"
	"regexp"
	"testing"
	"unicode/utf8"

	"pgregory.net/rapid"

	"github.com/tdakkota/docker-logql/internal/lokiapi"
	"github.com/tdakkota/docker-logql/verifharness/canon"
	"github.com/tdakkota/docker-logql/verifharness/datagen"
	"github.com/tdakkota/docker-logql/verifharness/dl"
	"github.com/tdakkota/docker-logql/verifharness/eng"
	"github.com/tdakkota/docker-logql/verifharness/evid"
	"github.com/tdakkota/docker-logql/verifharness/fakedocker"
	"github.com/tdakkota/docker-logql/verifharness/gen"
	"github.com/tdakkota/docker-logql/verifharness/mockstore"
	"github.com/tdakkota/docker-logql/verifharness/model"
)

// C19Case is one case of property C19: data, a prefix query q and two filters f and g given
// as stages (line filter or string label matcher).
type C19Case struct {
	Recs []model.Rec  `json:"recs"`
	Q    gen.LogQuery `json:"q"`
	F    gen.Stage    `json:"f"`
	G    gen.Stage    `json:"g"`
	// A and B are label predicates for the and/or relations.
	A    gen.Stage      `json:"a"`
	B    gen.Stage      `json:"b"`
	Caps mockstore.Caps `json:"caps"`
	// Conj is how the conjunction of A and B is spelled: "and" (default), "," or " ".
	Conj string `json:"conj,omitempty"`
	// Docker evaluates over the product's own storage: the records are the logs of the containers
	// named by their "container" label (the other labels of a container's first record are its
	// Docker labels). What the engine hands to that backend as a pre-selection meets labels that
	// exist only on records (msg, extracted fields), not on containers.
	Docker bool `json:"docker,omitempty"`
}

func negate(s gen.Stage) gen.Stage {
	n := s
	flip := map[string]string{"|=": "!=", "!=": "|=", "|~": "!~", "!~": "|~", "=": "!=", "=~": "!~"}
	if s.Kind == "linefilter" {
		n.Op = flip[s.Op]
		return n
	}
	p := *s.Pred
	switch p.Op {
	case "=":
		p.Op = "!="
	case "!=":
		p.Op = "="
	case "=~":
		p.Op = "!~"
	case "!~":
		p.Op = "=~"
	}
	n.Pred = &p
	return n
}

// hasNegation: the line filters and the string label matchers come in pairs of a filter and
// its negation; the typed comparisons do not (a missing label fails both > and <=).
func hasNegation(s gen.Stage) bool {
	return s.Kind == "linefilter" || (s.Pred != nil && s.Pred.Kind == "match")
}

func withStages(q gen.LogQuery, extra ...gen.Stage) gen.LogQuery {
	out := q
	out.Stages = append(append([]gen.Stage(nil), q.Stages...), extra...)
	return out
}

type c19Runner struct {
	c     C19Case
	recs  []model.Rec
	evals int
	err   *evid.Violation
}

// run evaluates q and returns the multiset of (timestamp, line).
func (r *c19Runner) run(q gen.LogQuery) map[string]int {
	if r.err != nil {
		return nil
	}
	text := gen.PrintLog(&q, gen.Plain{})
	var (
		data lokiapi.QueryResponseData
		err  error
	)
	if r.c.Docker {
		d := &fakedocker.Daemon{}
		index := map[string]int{}
		for _, rec := range r.recs {
			name := rec.Labels["container"]
			i, ok := index[name]
			if !ok {
				i = len(d.Containers)
				index[name] = i
				labels := map[string]string{}
				for k, v := range rec.Labels {
					if k != "container" {
						labels[k] = v
					}
				}
				d.Containers = append(d.Containers, dl.Ctr("id-"+name, name, labels, nil))
			}
			d.Containers[i].Log = append(d.Containers[i].Log, dl.EncodeLog([]dl.Line{{TS: rec.TS, Msg: string(rec.Line)}})...)
		}
		p := eng.CoverAll(r.recs)
		data, err = dl.Eval(d, text, dl.Params{Start: p.Start, End: p.End, Step: p.Step, Limit: -1})
		d.Done()
	} else {
		store := mockstore.New(r.recs, r.c.Caps)
		data, err = eng.Eval(store, text, eng.CoverAll(r.recs))
	}
	r.evals++
	if err != nil {
		r.err = evid.Viol("C19/eval-error", "query %s failed: %v", text, err)
		return nil
	}
	streams, err := canon.Streams(data)
	if err != nil {
		r.err = evid.Viol("C19/result-type", "%v", err)
		return nil
	}
	m := map[string]int{}
	for _, e := range canon.Flatten(streams) {
		m[fmt.Sprintf("%d|%q", e.TS, e.Line)]++
	}
	return m
}

func msSub(a, b map[string]int) bool {
	for k, n := range a {
		if b[k] < n {
			return false
		}
	}
	return true
}

func msEq(a, b map[string]int) bool { return msSub(a, b) && msSub(b, a) }

func msAdd(a, b map[string]int) map[string]int {
	out := map[string]int{}
	for k, n := range a {
		out[k] += n
	}
	for k, n := range b {
		out[k] += n
	}
	return out
}

func msInter(a, b map[string]int) map[string]int {
	out := map[string]int{}
	for k, n := range a {
		if m := b[k]; m > 0 {
			if m < n {
				n = m
			}
			out[k] = n
		}
	}
	return out
}

func msUnion(a, b map[string]int) map[string]int {
	out := map[string]int{}
	for k, n := range a {
		out[k] = n
	}
	for k, n := range b {
		if n > out[k] {
			out[k] = n
		}
	}
	return out
}

func msSize(a map[string]int) int {
	n := 0
	for _, c := range a {
		n += c
	}
	return n
}

func stageText(s gen.Stage) string {
	return gen.PrintLog(&gen.LogQuery{Stages: []gen.Stage{s}}, gen.Plain{})
}

func c19Check(c C19Case) (res evid.Result) {
	recs := append([]model.Rec(nil), c.Recs...)
	model.SortRecs(recs)
	r := &c19Runner{c: c, recs: recs}
	qText := gen.PrintLog(&c.Q, gen.Plain{})
	f, g := c.F, c.G

	base := r.run(c.Q)
	qf := r.run(withStages(c.Q, f))
	var qnf map[string]int
	if hasNegation(f) {
		qnf = r.run(withStages(c.Q, negate(f)))
	}
	qfg := r.run(withStages(c.Q, f, g))
	qgf := r.run(withStages(c.Q, g, f))
	qff := r.run(withStages(c.Q, f, f))
	qTrue := r.run(withStages(c.Q, gen.Stage{Kind: "linefilter", Op: "|=", Value: ""}))
	res.Evals = r.evals
	if r.err != nil {
		res.Violation = r.err
		return res
	}
	what := fmt.Sprintf("q = %s, f = %s, g = %s, caps %+v", qText, stageText(f), stageText(g), c.Caps)
	switch {
	case !msSub(qf, base):
		res.Violation = evid.Viol("C19/filter-adds", "%s: q|f is not a sub-multiset of q", what)
	case hasNegation(f) && !msEq(msAdd(qf, qnf), base):
		res.Violation = evid.Viol("C19/negation-partition", "%s: q|f (%d) and q|not f (%d) do not partition q (%d)", what, msSize(qf), msSize(qnf), msSize(base))
	case !msEq(qfg, qgf):
		res.Violation = evid.Viol("C19/not-commutative", "%s: q|f|g (%d) differs from q|g|f (%d)", what, msSize(qfg), msSize(qgf))
	case !msEq(qff, qf):
		res.Violation = evid.Viol("C19/not-idempotent", "%s: q|f|f (%d) differs from q|f (%d)", what, msSize(qff), msSize(qf))
	case !msEq(qTrue, base):
		res.Violation = evid.Viol("C19/true-filter", "%s: q |= \"\" (%d) differs from q (%d)", what, msSize(qTrue), msSize(base))
	}
	if res.Violation != nil {
		return res
	}
	// and / or of two label predicates.
	if c.A.Pred != nil && c.B.Pred != nil {
		f, g := c.A, c.B
		qf := r.run(withStages(c.Q, f))
		qg := r.run(withStages(c.Q, g))
		and := r.run(withStages(c.Q, gen.Stage{Kind: "labelfilter", Pred: &gen.Pred{Kind: "and", L: f.Pred, R: g.Pred, Conj: c.Conj}}))
		or := r.run(withStages(c.Q, gen.Stage{Kind: "labelfilter", Pred: &gen.Pred{Kind: "or", L: f.Pred, R: g.Pred}}))
		what := fmt.Sprintf("q = %s, a = %s, b = %s, caps %+v", qText, stageText(f), stageText(g), c.Caps)
		res.Evals = r.evals
		if r.err != nil {
			res.Violation = r.err
			return res
		}
		switch {
		case !msEq(and, msInter(qf, qg)):
			res.Violation = evid.Viol("C19/and-not-intersection", "%s: q|(a and b) (%d) is not (q|a) ∩ (q|b) (%d)", what, msSize(and), msSize(msInter(qf, qg)))
		case !msEq(or, msUnion(qf, qg)):
			res.Violation = evid.Viol("C19/or-not-union", "%s: q|(a or b) (%d) is not (q|a) ∪ (q|b) (%d)", what, msSize(or), msSize(msUnion(qf, qg)))
		}
		// a and (b or c), (a or b) and c - with the third predicate taken from g when it is one:
		// parentheses group, whatever binds tighter without them.
		if res.Violation == nil && c.G.Pred != nil && c.G.Kind == "labelfilter" {
			h := c.G
			qh := r.run(withStages(c.Q, h))
			orGroup := &gen.Pred{Kind: "or", L: g.Pred, R: h.Pred, Paren: true}
			conj := c.Conj
			if conj == " " {
				conj = "and" // juxtaposition is only part of the grammar in front of an identifier
			}
			andGroup := r.run(withStages(c.Q, gen.Stage{Kind: "labelfilter", Pred: &gen.Pred{Kind: "and", L: f.Pred, R: orGroup, Conj: conj}}))
			orFirst := r.run(withStages(c.Q, gen.Stage{Kind: "labelfilter", Pred: &gen.Pred{Kind: "and", L: &gen.Pred{Kind: "or", L: f.Pred, R: g.Pred, Paren: true}, R: h.Pred}}))
			res.Evals = r.evals
			if r.err != nil {
				res.Violation = r.err
				return res
			}
			switch {
			case !msEq(andGroup, msInter(qf, msUnion(qg, qh))):
				res.Violation = evid.Viol("C19/and-of-or-group", "%s, c = %s: q|(a and (b or c)) (%d) is not (q|a) ∩ ((q|b) ∪ (q|c)) (%d)", what, stageText(h), msSize(andGroup), msSize(msInter(qf, msUnion(qg, qh))))
			case !msEq(orFirst, msInter(msUnion(qf, qg), qh)):
				res.Violation = evid.Viol("C19/and-of-or-group", "%s, c = %s: q|((a or b) and c) (%d) is not ((q|a) ∪ (q|b)) ∩ (q|c) (%d)", what, stageText(h), msSize(orFirst), msSize(msInter(msUnion(qf, qg), qh)))
			}
			res.Class(true, "and-of-a-parenthesised-or")
		}
		res.Class(true, "and/or-checked")
		res.Class(f.Pred.Label == g.Pred.Label && f.Pred.Label != "" && f.Pred.Kind != "match" && f.Pred.Kind == g.Pred.Kind, "a-and-b-bound-one-label")
		res.Class(msSize(and) > 0 && msSize(and) < msSize(or), "and<or")
	}
	res.Class(c.Docker, "docker-backend")
	res.Class(f.Kind == "linefilter", "f=linefilter")
	res.Class(f.Kind == "labelfilter", "f=labelfilter")
	typed := func(s gen.Stage) bool { return s.Pred != nil && s.Pred.Kind != "match" }
	res.Class(typed(f) || typed(g), "typed-comparison")
	res.Class(typed(f) && typed(g), "two-typed-comparisons")
	res.Class(typed(c.A) || typed(c.B), "typed-in-and/or")
	res.Class(len(c.Q.Stages) > 0, "prefix-pipeline")
	res.Class(msSize(base) == 0, "empty-q")
	res.NonTrivial = msSize(qf) > 0 && msSize(qf) < msSize(base)
	res.Class(res.NonTrivial, "f-splits-q")
	return res
}

func c19GenFilter(t *rapid.T, s datagen.Schema, recs []model.Rec, label string) gen.Stage {
	// A typed comparison (number, duration, bytes, ip); often over a label whose value does
	// not convert, which keeps the record and marks it with __error__.
	if rapid.IntRange(0, 4).Draw(t, label+"-typed") == 0 {
		for i := 0; i < 8; i++ {
			if p := datagen.GenLeafPred(t, s, 3); p.Kind != "match" {
				return gen.Stage{Kind: "labelfilter", Pred: p}
			}
		}
	}
	if rapid.IntRange(0, 2).Draw(t, label+"-kind") == 0 {
		var fields []datagen.Field
		fields = append(fields, s.Labels...)
		fields = append(fields, s.Fields...)
		fields = append(fields, datagen.Field{Name: "msg", Type: "str", Pool: []string{"", "x"}})
		if len(recs) > 0 && rapid.Bool().Draw(t, label+"-anchored") {
			as, _ := datagen.AnchorSchema(s, recs[rapid.IntRange(0, len(recs)-1).Draw(t, label+"-anchor")])
			fields = append(append([]datagen.Field{}, as.Labels...), as.Fields...)
		}
		m := datagen.GenMatcher(t, fields, label+"-m")
		return gen.Stage{Kind: "labelfilter", Pred: &gen.Pred{Kind: "match", Label: m.Label, Op: m.Op, Str: m.Value}}
	}
	st := gen.Stage{Kind: "linefilter", Op: rapid.SampledFrom([]string{"|=", "!=", "|~", "!~"}).Draw(t, label+"-op")}
	var needle string
	switch rapid.IntRange(0, 3).Draw(t, label+"-needle") {
	case 0:
		needle = string(rapid.SliceOfN(rapid.Byte(), 0, 3).Draw(t, label+"-bytes"))
	default:
		if len(recs) > 0 {
			line := string(recs[rapid.IntRange(0, len(recs)-1).Draw(t, label+"-rec")].Line)
			if len(line) > 0 {
				lo := rapid.IntRange(0, len(line)-1).Draw(t, label+"-lo")
				hi := rapid.IntRange(lo, min(len(line), lo+6)).Draw(t, label+"-hi")
				needle = line[lo:hi]
				if rapid.IntRange(0, 3).Draw(t, label+"-whole") == 0 {
					needle = line // the whole line: "^line$" matches, "line" inside a longer one must not
				}
			}
		}
	}
	if st.Op == "|~" || st.Op == "!~" {
		if rapid.Bool().Draw(t, label+"-re-pool") {
			needle = rapid.SampledFrom([]string{"err", "^e", "[0-9]+", "o{2}", "(?i)get", ".", "^$", "a|b", "\\d\\.\\d", "[^a-z]",
				// case-insensitive literals next to characters with special case folding
				"(?i)info", "(?i)status", "(?i)οσ", "(?i)k", "(?i)ss", "(?i)error", "(?i)İ", "(?i)straße"}).Draw(t, label+"-re")
		} else {
			needle = datagen.AnchorVariant(t, quoteMetaBytes(needle), label)
		}
	}
	st.Value = gen.BS(needle)
	return st
}

// quoteMetaBytes escapes a byte string for use as an RE2 pattern that matches it literally
// (bytes that are not valid UTF-8 are written as \xhh; RE2 then matches the byte in Go's
// string matching only when the pattern is compiled in Latin-1 mode, so such needles are
// replaced by a plain dot).
func quoteMetaBytes(s string) string {
	out := ""
	for i := 0; i < len(s); i++ {
		c := s[i]
		switch {
		case c >= 0x80 || c < 0x20 || c == 0x7f:
			out += "."
		case (c >= 'a' && c <= 'z') || (c >= 'A' && c <= 'Z') || (c >= '0' && c <= '9') || c == ' ' || c == '_':
			out += string(c)
		default:
			out += `\` + string(c)
		}
	}
	return out
}

// c19GenDocker draws a case over the Docker backend: containers with a few Docker labels, logfmt
// lines, and filters that name what only a record has (msg, __error__, extracted fields) next to
// what a container has (container, tier). (No matcher names __error__: a typed comparison writes
// that label, so the two would not commute - they are not both "stateless filters".)
func c19GenDocker(t *rapid.T) C19Case {
	var c C19Case
	c.Docker = true
	texts := []string{"hello", "level=info n=1", "level=error n=2 dur=5s", "level=warn n=x", "GET /a 200", "hello world", "tier=db level=warn n=3", "tier=web n=4"}
	ts := datagen.BaseTS
	for i, n := 0, rapid.IntRange(1, 3).Draw(t, "dk-containers"); i < n; i++ {
		labels := model.LabelMap{"container": fmt.Sprintf("c%d", i)}
		if rapid.Bool().Draw(t, "dk-tier") {
			labels["tier"] = rapid.SampledFrom([]string{"web", "db"}).Draw(t, "dk-tier-value")
		}
		for j, m := 0, rapid.IntRange(0, 5).Draw(t, "dk-lines"); j < m; j++ {
			ts += 1e6
			l := model.LabelMap{}
			for k, v := range labels {
				l[k] = v
			}
			c.Recs = append(c.Recs, model.Rec{TS: ts, Line: gen.BS(rapid.SampledFrom(texts).Draw(t, "dk-text")), Labels: l})
		}
	}
	if rapid.Bool().Draw(t, "dk-selector") {
		c.Q.Sel = []gen.Matcher{{Label: "tier", Op: rapid.SampledFrom([]string{"=", "!=", "=~"}).Draw(t, "dk-sel-op"), Value: "web"}}
	}
	if rapid.IntRange(0, 3).Draw(t, "dk-parser") == 0 {
		c.Q.Stages = append(c.Q.Stages, gen.Stage{Kind: "logfmt"})
	}
	matcher := func(label string) gen.Stage {
		name := rapid.SampledFrom([]string{"msg", "msg", "container", "tier", "nosuch", "level"}).Draw(t, label+"-label")
		op := rapid.SampledFrom([]string{"=", "!=", "=~", "!~"}).Draw(t, label+"-op")
		pool := map[string][]string{"msg": texts, "container": {"c0", "c1", ""}, "tier": {"web", "db", ""}, "nosuch": {"", "x"}, "level": {"info", "error", ""}}[name]
		val := rapid.SampledFrom(pool).Draw(t, label+"-value")
		if op == "=~" || op == "!~" {
			val = rapid.SampledFrom([]string{"h.*", "hello", ".*", ".+", "c[01]", "web|db", "level=.*", ""}).Draw(t, label+"-re")
		}
		return gen.Stage{Kind: "labelfilter", Pred: &gen.Pred{Kind: "match", Label: name, Op: op, Str: gen.BS(val)}}
	}
	filter := func(label string) gen.Stage {
		switch rapid.IntRange(0, 3).Draw(t, label+"-kind") {
		case 0:
			return gen.Stage{Kind: "linefilter", Op: rapid.SampledFrom([]string{"|=", "!=", "|~", "!~"}).Draw(t, label+"-lf-op"), Value: gen.BS(rapid.SampledFrom([]string{"hello", "level", "n=", "o", ""}).Draw(t, label+"-needle"))}
		case 1:
			return gen.Stage{Kind: "labelfilter", Pred: &gen.Pred{Kind: "num", Label: "n", Op: rapid.SampledFrom([]string{"==", ">", "<="}).Draw(t, label+"-num-op"), Text: "1", Num: 1}}
		}
		return matcher(label)
	}
	c.F, c.G = filter("dk-f"), filter("dk-g")
	// The selector's own matcher once more as a filter, behind a parser that may have put
	// another value under that name: a filter like any other, not one "the selector guarantees".
	if len(c.Q.Sel) > 0 && rapid.Bool().Draw(t, "dk-repeat-selector") {
		if len(c.Q.Stages) == 0 {
			c.Q.Stages = append(c.Q.Stages, gen.Stage{Kind: "logfmt"})
		}
		m := c.Q.Sel[0]
		c.F = gen.Stage{Kind: "labelfilter", Pred: &gen.Pred{Kind: "match", Label: m.Label, Op: m.Op, Str: m.Value}}
	}
	c.A, c.B = matcher("dk-a"), matcher("dk-b")
	c.Conj = rapid.SampledFrom([]string{"and", ",", " "}).Draw(t, "dk-conj")
	return c
}

func c19Gen(t *rapid.T) C19Case {
	if rapid.IntRange(0, 4).Draw(t, "docker-backend") == 0 {
		return c19GenDocker(t)
	}
	s := datagen.GenSchema(t, []string{"plain", "plain", "json", "logfmt", "delim", "packed"})
	var c C19Case
	c.Recs = datagen.GenRecs(t, s, 20, true) // unique timestamps identify records
	// Arbitrary bytes in some lines and label values.
	for i := range c.Recs {
		if s.Format == "plain" && rapid.IntRange(0, 4).Draw(t, "rawline") == 0 {
			c.Recs[i].Line = gen.BS(rapid.SliceOfN(rapid.Byte(), 0, 12).Draw(t, "rawbytes"))
		}
		if s.Format == "plain" && rapid.IntRange(0, 5).Draw(t, "foldline") == 0 {
			// Characters whose case folding differs between Unicode simple folding and ToLower/ToUpper.
			c.Recs[i].Line = gen.BS(rapid.SampledFrom([]string{"İNFO started", "ſtatus ok", "λόγος", "STRASSE straße", "temp 300K", "ERROR Error error", "ǅ ǆ Ǆ", "İ", "info INFO"}).Draw(t, "foldtext"))
		}
		if len(s.Labels) > 0 && rapid.IntRange(0, 9).Draw(t, "rawlabel") == 0 {
			c.Recs[i].Labels[s.Labels[0].Name] = string(rapid.SliceOfN(rapid.Byte(), 0, 5).Draw(t, "rawlabelbytes"))
		}
	}
	sorted := append([]model.Rec(nil), c.Recs...)
	model.SortRecs(sorted)
	for attempt := 0; attempt < 3; attempt++ {
		c.Q = datagen.GenLogQueryFor(t, s, c.Recs, datagen.QueryOpts{MaxStages: 4, AllowDistinct: true, AllowParsers: true, AllowRewrite: true, Light: rapid.Bool().Draw(t, "light")})
		want, err := model.EvalLog(&c.Q, sorted)
		if err != nil || len(want) > 0 || len(c.Recs) == 0 || rapid.IntRange(0, 3).Draw(t, "accept-empty") == 0 {
			break
		}
	}
	// "| drop a" directly followed by a line filter "!= x" reads as the matcher a!="x":
	// q never ends with a bare drop/keep.
	for n := len(c.Q.Stages); n > 0; n = len(c.Q.Stages) {
		last := c.Q.Stages[n-1]
		if (last.Kind == "drop" || last.Kind == "keep") && len(last.Matchers) == 0 {
			c.Q.Stages = c.Q.Stages[:n-1]
			continue
		}
		break
	}
	c.F = c19GenFilter(t, s, c.Recs, "f")
	c.G = c19GenFilter(t, s, c.Recs, "g")
	// The same regular expression once as a line filter (a search) and once as a label matcher
	// (anchored), with a label value that contains the text without being it.
	if c.F.Kind == "linefilter" && (c.F.Op == "|~" || c.F.Op == "!~") && len(s.Labels) > 0 && len(c.Recs) > 0 && rapid.IntRange(0, 2).Draw(t, "same-regexp-twice") == 0 {
		if _, err := regexp.Compile("^(?:" + string(c.F.Value) + ")$"); err == nil && utf8.ValidString(string(c.F.Value)) {
			label := s.Labels[rapid.IntRange(0, len(s.Labels)-1).Draw(t, "same-regexp-label")].Name
			c.G = gen.Stage{Kind: "labelfilter", Pred: &gen.Pred{Kind: "match", Label: label, Op: rapid.SampledFrom([]string{"=~", "!~"}).Draw(t, "same-regexp-op"), Str: c.F.Value}}
			// some record carries a value the expression finds but does not cover, another one a
			// value it covers exactly (where the needle is a plain literal)
			if lit := string(c.F.Value); regexp.QuoteMeta(lit) == lit && lit != "" {
				c.Recs[rapid.IntRange(0, len(c.Recs)-1).Draw(t, "same-regexp-rec")].Labels[label] = "x" + lit + "y"
				c.Recs[rapid.IntRange(0, len(c.Recs)-1).Draw(t, "same-regexp-rec2")].Labels[label] = lit
			}
		}
	}
	// A case-insensitive literal filter meets a line with the characters whose case folding is
	// special for exactly that literal.
	if s.Format == "plain" && len(c.Recs) > 0 {
		pairs := map[string][]string{
			"(?i)info": {"İNFO started", "info INFO", "ınfo"}, "(?i)status": {"ſtatus ok", "STATUS"}, "(?i)οσ": {"λόγος", "ΛΟΓΟΣ"},
			"(?i)k": {"temp 300K", "300K"}, "(?i)ss": {"STRASSE straße", "ſs"}, "(?i)error": {"ERROR Error error"}, "(?i)İ": {"İ", "i̇"}, "(?i)straße": {"STRASSE straße", "STRAẞE"},
		}
		for _, f := range []gen.Stage{c.F, c.G} {
			if lines, ok := pairs[string(f.Value)]; ok && f.Kind == "linefilter" {
				c.Recs[rapid.IntRange(0, len(c.Recs)-1).Draw(t, "fold-rec")].Line = gen.BS(rapid.SampledFrom(lines).Draw(t, "fold-line"))
			}
		}
	}
	for _, dst := range []*gen.Stage{&c.A, &c.B} {
		for {
			st := c19GenFilter(t, s, c.Recs, "ab")
			if st.Kind == "labelfilter" {
				*dst = st
				break
			}
		}
	}
	// Two typed comparisons of one label - the bounds of an interval, in either order, strict or
	// not - over records whose values sit on the bounds, next to them and nowhere near.
	if len(c.Recs) > 0 && rapid.IntRange(0, 3).Draw(t, "bounds-of-one-label") == 0 {
		kind := rapid.SampledFrom([]string{"num", "num", "dur", "bytes"}).Draw(t, "bounds-kind")
		suffix := map[string]string{"num": "", "dur": "s", "bytes": "KB"}[kind]
		for i := range c.Recs {
			v := rapid.SampledFrom([]string{"0", "1", "2", "3", "4", "5", "6", "1.5", "x", ""}).Draw(t, "bounds-value")
			if v != "" && v != "x" {
				v += suffix
			}
			if c.Recs[i].Labels == nil {
				c.Recs[i].Labels = model.LabelMap{}
			}
			c.Recs[i].Labels["rng"] = v
		}
		mk := func(label string) gen.Stage {
			k := rapid.IntRange(0, 6).Draw(t, label+"-bound")
			p := &gen.Pred{Kind: kind, Label: "rng", Op: rapid.SampledFrom([]string{"==", "!=", ">", ">=", "<", "<=", ">=", "<="}).Draw(t, label+"-op"), Text: fmt.Sprintf("%d%s", k, suffix)}
			p.Num, p.Dur, p.Bytes = float64(k), int64(k)*1e9, uint64(k)*1000
			return gen.Stage{Kind: "labelfilter", Pred: p}
		}
		c.A, c.B = mk("bounds-a"), mk("bounds-b")
		c.Conj = rapid.SampledFrom([]string{"and", ",", " "}).Draw(t, "bounds-conj")
	}
	// Labels holding composite values (nested JSON objects / arrays exposed by "| json").
	hasMeta := false
	for _, f := range s.Fields {
		hasMeta = hasMeta || f.Name == "meta"
	}
	if hasMeta && rapid.IntRange(0, 2).Draw(t, "composite-label") != 0 {
		parsed := false
		for _, st := range c.Q.Stages {
			parsed = parsed || (st.Kind == "json" && len(st.Labels) == 0 && len(st.Exprs) == 0)
		}
		if !parsed {
			c.Q.Stages = append([]gen.Stage{{Kind: "json"}}, c.Q.Stages...)
		}
		mk := func(label string) gen.Stage {
			op := rapid.SampledFrom([]string{"=", "!=", "=~", "!~"}).Draw(t, label+"-op")
			val := rapid.SampledFrom([]string{"x", "", `{"user":"bob"}`, "[1,2]"}).Draw(t, label+"-val")
			if op == "=~" || op == "!~" {
				val = rapid.SampledFrom([]string{".+", ".*", "x", `\{.*`, ""}).Draw(t, label+"-re")
			}
			return gen.Stage{Kind: "labelfilter", Pred: &gen.Pred{Kind: "match", Label: "meta", Op: op, Str: gen.BS(val)}}
		}
		c.F = mk("cf")
		if rapid.Bool().Draw(t, "composite-a") {
			c.A = mk("ca")
		}
	}
	// A burst at one instant: the same record twice with another one between them (a retry, a
	// message, the retry again - a log rotated in mid-write). Equal records are told apart by
	// how often they occur, not at all by a filter.
	rewrites := false // a stage that rewrites lines may make different records of one instant look alike
	for _, st := range c.Q.Stages {
		rewrites = rewrites || st.Kind == "unpack" || st.Kind == "line_format" || st.Kind == "decolorize"
	}
	if len(c.Recs) > 0 && !rewrites && rapid.IntRange(0, 4).Draw(t, "burst-at-one-instant") == 0 {
		a := c.Recs[rapid.IntRange(0, len(c.Recs)-1).Draw(t, "burst-a")]
		b := c.Recs[rapid.IntRange(0, len(c.Recs)-1).Draw(t, "burst-b")]
		ts := c.Recs[len(c.Recs)-1].TS + 1e9
		for _, r := range c.Recs {
			if r.TS >= ts {
				ts = r.TS + 1e9
			}
		}
		for _, r := range []model.Rec{a, b, a, a} {
			cp := r
			cp.TS = ts
			cp.Labels = model.LabelMap{}
			for k, v := range a.Labels { // one stream: the labels of a, whatever the line
				cp.Labels[k] = v
			}
			c.Recs = append(c.Recs, cp)
		}
	}
	c.Caps = mockstore.Caps{Label: rapid.IntRange(0, 15).Draw(t, "caps-label"), Line: rapid.IntRange(0, 15).Draw(t, "caps-line")}
	return c
}

// TestC19 decides C19.
func TestC19(t *testing.T) {
	evid.Run(t, "C19", c19Gen, c19Check)
}
