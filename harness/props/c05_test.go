package props

import (
	"regexp"
	"strings"
	"testing"

	"pgregory.net/rapid"

	"github.com/tdakkota/docker-logql/internal/logql"
	"github.com/tdakkota/docker-logql/verifharness/datagen"
	"github.com/tdakkota/docker-logql/verifharness/evid"
	"github.com/tdakkota/docker-logql/verifharness/gen"
	"github.com/tdakkota/docker-logql/verifharness/repoast"
)

// C05Case is one case of property C05.
type C05Case struct {
	// Positive case: the query model and two renderings of it.
	Query *gen.Query `json:"query,omitempty"`
	Text  string     `json:"text"`
	Plain string     `json:"plain,omitempty"`
	// Negative case: Text must be rejected; Rule names the violated grammar rule.
	Rule string `json:"rule,omitempty"`
}

func c05Check(c C05Case) (r evid.Result) {
	if c.Rule != "" {
		r.Class(true, "negative")
		r.Class(true, "rule="+c.Rule)
		r.NonTrivial = true
		expr, err := logql.Parse(c.Text, logql.ParseOptions{})
		if err == nil {
			r.Violation = evid.Viol("C05/invalid-accepted", "rule %q: %s was accepted as %s", c.Rule, c.Text, repoast.Dump(expr))
		}
		return r
	}
	want := repoast.Dump(repoast.Query(*c.Query))
	n := datagen.CountConstructs(*c.Query)
	nonDefault := c.Text != c.Plain
	r.Class(c.Query.Log != nil, "log-query")
	r.Class(c.Query.Metric != nil, "metric-query")
	r.Class(strings.Contains(c.Text, "#"), "has-#")
	r.Class(strings.Contains(c.Text, "`"), "raw-string")
	r.Class(strings.Contains(c.Text, "\n"), "newline")
	r.Class(n >= 6, "constructs>=6")
	r.NonTrivial = n >= 3 && nonDefault
	for i, text := range []string{c.Text, c.Plain} {
		if text == "" {
			continue
		}
		expr, err := logql.Parse(text, logql.ParseOptions{})
		r.Evals++
		if err != nil {
			sig := "C05/valid-rejected"
			r.Violation = evid.Viol(sig, "layout %d: %s was rejected: %v (denotes %s)", i, text, err, want)
			return r
		}
		if got := repoast.Dump(expr); got != want {
			r.Violation = evid.Viol("C05/wrong-structure", "layout %d: %s\n parsed as %s\n denotes   %s", i, text, got, want)
			return r
		}
	}
	return r
}

// ---- negative catalogue ----

func c05Negative(t *rapid.T) C05Case {
	sel := gen.PrintLog(datagen.GenGrammarLog(t, 0), gen.Plain{})
	log2 := gen.PrintLog(datagen.GenGrammarLog(t, 2), gen.Plain{})
	rng := "count_over_time(" + sel + "[5m])"
	type neg struct{ rule, text string }
	cands := []neg{
		{"quantile_over_time needs a parameter", "quantile_over_time(" + sel + " | unwrap x [5m])"},
		{"count_over_time takes no parameter", "count_over_time(0.5, " + sel + "[5m])"},
		{"avg_over_time takes no parameter", "avg_over_time(0.5, " + sel + " | unwrap x [5m])"},
		{"no grouping on sort", "sort by (a) (" + rng + ")"},
		{"no grouping on sort_desc", "sort_desc(" + rng + ") without (a)"},
		{"no grouping on count_over_time", rng + " by (a)"},
		{"no grouping on rate", "rate(" + sel + "[1m]) without (a)"},
		{"no grouping on sum_over_time", "sum_over_time(" + sel + " | unwrap x [1m]) by (a)"},
		{"label_format target only once", sel + " | label_format a=b, a=c"},
		{"label_format target only once", sel + ` | label_format a="x", a=c`},
		{"duplicate regexp capture", sel + ` | regexp "(?P<a>x)(?P<a>y)"`},
		{"invalid capture name", sel + ` | regexp "(?P<0a>x)"`},
		{"invalid regex in selector", `{a=~"("}`},
		{"invalid regex in selector", `{a!~"[z-a]"}`},
		{"invalid regex in line filter", sel + ` |~ "("`},
		{"invalid regex in line filter", sel + ` !~ "*a"`},
		{"invalid regex in label filter", sel + ` | a =~ ")"`},
		{"invalid regex in regexp stage", sel + ` | regexp "(?P<a"`},
		{"invalid regex in label_replace", "label_replace(" + rng + `, "a", "b", "c", "(")`},
		{"invalid regex in drop matcher", sel + ` | drop a=~"("`},
		{"invalid regex in unwrap filter", "sum_over_time(" + sel + ` | unwrap x | a=~"(" [5m])`},
		{"unwrap only in range aggregations", log2 + " | unwrap x"},
		{"sum_over_time needs unwrap", "sum_over_time(" + sel + "[5m])"},
		{"max_over_time needs unwrap", "max_over_time(" + log2 + "[5m])"},
		{"count_over_time takes no unwrap", "count_over_time(" + sel + " | unwrap x [5m])"},
		{"bytes_rate takes no unwrap", "bytes_rate(" + sel + " | unwrap x [5m])"},
		{"topk needs k", "topk(" + rng + ")"},
		{"topk needs positive k", "topk(0, " + rng + ")"},
		{"bottomk needs positive k", "bottomk(-1, " + rng + ")"},
		{"sum takes no parameter", "sum(2, " + rng + ")"},
		{"k is a decimal integer", "topk(0x10, " + rng + ")"},
		{"k is a decimal integer", "bottomk(0b11, " + rng + ")"},
		{"k is a decimal integer", "topk(1_0, " + rng + ")"},
		{"k is a decimal integer", "topk(1.5, " + rng + ")"},
		{"k is a decimal integer", "topk(1e1, " + rng + ")"},
		{"string literal only with = != =~ !~", sel + ` | a > "x"`},
		{"string literal only with = != =~ !~", sel + ` | a <= "x"`},
		{"number literal not with =", sel + ` | a = 5`},
		{"number literal not with =~", sel + ` | a =~ 5`},
		{"duration literal not with !~", sel + ` | a !~ 5s`},
		{"bytes literal not with =", sel + ` | a = 5KB`},
		{"ip() only with == !=", sel + ` | a =~ ip("1.1.1.1")`},
		{"ip() only with == !=", sel + ` | a > ip("1.1.1.1")`},
		{"ip() line filter only with |= !=", sel + ` |~ ip("1.1.1.1")`},
		{"ip() line filter only with |= !=", sel + ` !~ ip("1.1.1.1")`},
		{"no scalar operand of and", "1 and " + rng},
		{"no scalar operand of or", rng + " or 2"},
		{"no scalar operand of unless", rng + " unless 0.5"},
		{"unbalanced brace", strings.TrimSuffix(sel, "}")},
		{"unbalanced brace", "{" + sel},
		{"unbalanced parenthesis", "sum(" + rng},
		{"unbalanced parenthesis", rng + ")"},
		{"unbalanced bracket", "count_over_time(" + sel + "[5m)"},
		{"unbalanced bracket", "count_over_time(" + sel + "5m])"},
		{"missing matcher value", `{a=}`},
		{"missing matcher value", `{a}`},
		{"missing matcher operator", `{a "x"}`},
		{"trailing tokens", log2 + " {}"},
		{"trailing tokens", rng + " " + rng},
		{"trailing tokens", sel + ` "x"`},
		{"range needs a duration", "count_over_time(" + sel + "[5])"},
		{"unknown unit", "count_over_time(" + sel + "[5x])"},
		{"range needs a duration", "count_over_time(" + sel + "[5KB])"},
		{"offset needs a duration", "count_over_time(" + sel + "[5m] offset 5)"},
		{"unterminated string", `{a="x}`},
		{"empty query", ""},
		{"selector needs braces", `a="x"`},
		{"stage needs a name", sel + " |"},
		{"unknown stage", sel + " | nosuchstage"},
		{"line filter needs a string", sel + " |= x"},
		{"json expression needs a string", sel + " | json a=b"},
		{"pattern needs a string", sel + " | pattern"},
		{"vector needs a number", `vector("x")`},
		{"label_replace needs five arguments", "label_replace(" + rng + `, "a", "b", "c")`},
		{"grouping needs parentheses", "sum by a (" + rng + ")"},
		{"binary operator needs a right operand", rng + " +"},
		{"binary operator needs a left operand", "* " + rng},
		{"unwrap conversion needs a label", "sum_over_time(" + sel + " | unwrap bytes() [5m])"},
		{"distinct needs a label", sel + " | distinct"},
		{"keep needs a label", sel + " | keep"},
		{"log query cannot be an operand", sel + " + 1"},
	}
	n := rapid.SampledFrom(cands).Draw(t, "negative")
	return C05Case{Text: n.text, Rule: n.rule}
}

func c05Gen(t *rapid.T) C05Case {
	if rapid.IntRange(0, 4).Draw(t, "negative-case") == 0 {
		return c05Negative(t)
	}
	q := datagen.GenGrammarQuery(t, envInt("VERIF_C05_YEAR", 1) == 1)
	layout := datagen.RapidLayout{T: t, Heavy: true, Comments: rapid.IntRange(0, 2).Draw(t, "comments") == 0, RawOK: true}
	c := C05Case{Query: &q, Text: gen.Print(q, layout), Plain: gen.Print(q, gen.Plain{})}
	// A comment that runs to the end of the text, a final line break: still the same query.
	if rapid.IntRange(0, 9).Draw(t, "trailing-comment") == 0 {
		c.Text += rapid.SampledFrom([]string{" # the end", "#", "\n# x", " # a\n# b", "\n", "\r\n", "\t"}).Draw(t, "ending")
	}
	// A long query: a leading comment pushes the text beyond one or two KiB (scanners read in
	// 1024-byte chunks), mostly so that some word - by / without first of all - ends exactly on a
	// chunk boundary.
	if rapid.IntRange(0, 5).Draw(t, "long-query") == 0 {
		ends := c05WordEnds.FindAllStringIndex(c.Plain, -1)
		if kw := c05GroupingWord.FindAllStringIndex(c.Plain, -1); len(kw) > 0 && rapid.IntRange(0, 3).Draw(t, "align-any-word") != 0 {
			ends = kw
		}
		pad := rapid.IntRange(1000, 2200).Draw(t, "pad")
		if len(ends) > 0 && rapid.IntRange(0, 4).Draw(t, "unaligned") != 0 {
			end := ends[rapid.IntRange(0, len(ends)-1).Draw(t, "aligned-word")][1]
			m := rapid.IntRange(1, 2).Draw(t, "chunks")
			if rapid.Bool().Draw(t, "word-starts-on-boundary") {
				end = ends[0][0]
			}
			if p := 1024*m - end - 2; p >= 0 {
				pad = p
			}
		}
		c.Plain = "#" + strings.Repeat("-", pad) + "\n" + c.Plain
	}
	return c
}

var (
	c05WordEnds     = regexp.MustCompile(`[A-Za-z_]+`)
	c05GroupingWord = regexp.MustCompile(`\b(?:by|without)\b`)
)

// TestC05 decides C05.
func TestC05(t *testing.T) {
	evid.Run(t, "C05", c05Gen, c05Check)
}
