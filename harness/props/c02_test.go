package props

import (
	"fmt"
	"sort"
	"strconv"
	"strings"
	"testing"

	"github.com/docker/docker/api/types"
	"pgregory.net/rapid"

	"github.com/tdakkota/docker-logql/verifharness/canon"
	"github.com/tdakkota/docker-logql/verifharness/datagen"
	"github.com/tdakkota/docker-logql/verifharness/dl"
	"github.com/tdakkota/docker-logql/verifharness/evid"
	"github.com/tdakkota/docker-logql/verifharness/fakedocker"
	"github.com/tdakkota/docker-logql/verifharness/gen"
	"github.com/tdakkota/docker-logql/verifharness/model"
)

// C02Ctr is one container of the generated inventory.
type C02Ctr struct {
	ID      string            `json:"id"`
	Names   []string          `json:"names"`
	Image   string            `json:"image"`
	ImageID string            `json:"image_id"`
	Command string            `json:"command"`
	State   string            `json:"state"`
	Status  string            `json:"status"`
	Created int64             `json:"created"`
	Labels  map[string]gen.BS `json:"labels,omitempty"`
	Lines   int               `json:"lines"`
}

// C02Case is one case of property C02.
type C02Case struct {
	Ctrs []C02Ctr      `json:"ctrs"`
	Sel  []gen.Matcher `json:"sel"`
	// Metric wraps the selector in count_over_time({sel}[range] offset o).
	Metric   bool         `json:"metric,omitempty"`
	RangeNs  int64        `json:"range_ns,omitempty"`
	OffsetNs int64        `json:"offset_ns,omitempty"`
	Params   model.Params `json:"params"`
	// Stage: "" | logfmt | regexp | label_format - a stage that, on some lines, writes a label
	// named like one of the container's own labels.
	Stage string `json:"stage,omitempty"`
	// Sel2, when set (metric queries), is the selector of a second range aggregation added
	// to the first: two selections are resolved by one Querier.
	Sel2    []gen.Matcher `json:"sel2,omitempty"`
	UseSel2 bool          `json:"use_sel2,omitempty"`
	// RawSel writes the selector values as raw `...` strings where that is possible: what is
	// between the backquotes is the value, carriage returns and quotes included.
	RawSel bool `json:"raw_sel,omitempty"`
}

// c02Labels is the reference label derivation of a container: the documented built-in labels
// plus its Docker labels under sanitised names.
func c02Labels(c C02Ctr) map[string]string {
	name := ""
	if len(c.Names) > 0 {
		name = strings.TrimPrefix(c.Names[0], "/")
	}
	m := map[string]string{
		"container":          name,
		"container_id":       c.ID,
		"container_name":     name,
		"container_image":    c.Image,
		"container_image_id": c.ImageID,
		"container_command":  c.Command,
		"container_created":  strconv.FormatInt(c.Created, 10),
		"container_state":    c.State,
		"container_status":   c.Status,
	}
	for k, v := range c.Labels {
		m[model.KeyToLabel(k)] = string(v)
	}
	return m
}

func c02Query(c C02Case) string {
	var layout gen.Layout = gen.Plain{}
	if c.RawSel {
		layout = gen.PlainRaw{}
	}
	sel := gen.PrintLog(&gen.LogQuery{Sel: c.Sel}, layout)
	if !c.Metric {
		switch c.Stage {
		case "logfmt":
			return sel + " | logfmt"
		case "regexp":
			return sel + ` | regexp "container=(?P<container>\\S+) container_state=(?P<container_state>\\S+)"`
		case "label_format":
			return sel + ` | logfmt n, origin | label_format container_image="{{ .n }}"`
		case "filter-state":
			// a label filter right behind the selector: it filters lines, it selects no containers
			return sel + ` | container_state="running"`
		case "filter-msg":
			return sel + ` | msg=~"n=[0-9]+ .*"`
		case "filter-absent":
			return sel + ` | zz_nosuch=""`
		}
		return sel
	}
	rng := func(sel string) string {
		q := "count_over_time(" + sel + "[" + strconv.FormatInt(c.RangeNs/1e6, 10) + "ms]"
		if c.OffsetNs > 0 {
			q += " offset " + strconv.FormatInt(c.OffsetNs/1e6, 10) + "ms"
		}
		return q + ")"
	}
	if c.UseSel2 {
		return rng(sel) + " + " + rng(gen.PrintLog(&gen.LogQuery{Sel: c.Sel2}, layout))
	}
	return rng(sel)
}

// c02Line is line i of container id: logfmt, every third line also writes labels that shadow
// the container's own ones.
func c02Line(id string, i int) (string, map[string]string) {
	pairs := map[string]string{"n": strconv.Itoa(i), "origin": id}
	line := fmt.Sprintf("n=%d origin=%s", i, id)
	if i%3 == 1 {
		line += " container=sidecar container_state=restarting tier=shadow"
		pairs["container"], pairs["container_state"], pairs["tier"] = "sidecar", "restarting", "shadow"
	}
	return line, pairs
}

func c02Check(c C02Case) (r evid.Result) {
	d := &fakedocker.Daemon{}
	want := map[string]bool{}
	labelsOf := map[string]map[string]string{}
	absent := false
	mid := c.Params.Start + (c.Params.End-c.Params.Start)/2
	for _, ct := range c.Ctrs {
		var lines []dl.Line
		for i := 0; i < ct.Lines; i++ {
			text, _ := c02Line(ct.ID, i)
			lines = append(lines, dl.Line{TS: mid + int64(i), Msg: text})
		}
		labels := map[string]string{}
		for k, v := range ct.Labels {
			labels[k] = string(v)
		}
		fc := dl.Ctr(ct.ID, "", labels, lines)
		fc.Summary = types.Container{ID: ct.ID, Names: ct.Names, Image: ct.Image, ImageID: ct.ImageID, Command: ct.Command,
			Created: ct.Created, State: ct.State, Status: ct.Status, Labels: labels}
		d.Containers = append(d.Containers, fc)
		ml := c02Labels(ct)
		labelsOf[ct.ID] = ml
		ok, err := model.MatchLabels(c.Sel, ml)
		if err != nil {
			r.Violation = evid.Viol("C02/harness-model-error", "%v", err)
			return r
		}
		if ok {
			want[ct.ID] = true
		}
		for _, m := range c.Sel {
			if _, has := ml[m.Label]; !has {
				absent = true
			}
		}
	}
	nWant := len(want)
	if nWant > 1 {
		d.Waves = []int{nWant}
	}
	want2 := map[string]bool{}
	if c.Metric && c.UseSel2 {
		for _, ct := range c.Ctrs {
			if ok, _ := model.MatchLabels(c.Sel2, labelsOf[ct.ID]); ok {
				want2[ct.ID] = true
			}
		}
		if nWant <= 1 {
			d.Waves = []int{nWant}
		}
		d.Waves = append(d.Waves, len(want2))
	}
	r.Class(c.UseSel2 && c.Metric, "two-selections")
	r.Class(c.Stage != "", "stage="+c.Stage)
	r.Class(absent, "matcher-on-absent-label")
	r.Class(nWant > 0 && nWant < len(c.Ctrs), "proper-subset")
	r.Class(nWant == 0, "none-selected")
	r.Class(c.Metric, "metric-query")
	r.Class(len(c.Sel) == 0, "empty-selector")
	for _, m := range c.Sel {
		r.Class(true, "op"+m.Op)
	}
	r.NonTrivial = (len(c.Ctrs) >= 2 && nWant > 0 && nWant < len(c.Ctrs)) || absent

	query := c02Query(c)
	data, err := dl.Eval(d, query, dl.Params{Start: c.Params.Start, End: c.Params.End, Step: c.Params.Step, Limit: -1})
	rep := d.Done()
	if err != nil {
		r.Violation = evid.Viol("C02/eval-error", "query %s failed: %v", query, err)
		return r
	}
	got := map[string]bool{}
	if c.Metric && c.UseSel2 {
		// Two selections: the multiset of reads is selection(1) + selection(2).
		gotN, wantN := map[string]int{}, map[string]int{}
		for _, call := range rep.Calls {
			gotN[call.ID]++
		}
		for id := range want {
			wantN[id]++
		}
		for id := range want2 {
			wantN[id]++
		}
		if fmt.Sprint(gotN) != fmt.Sprint(wantN) {
			r.Violation = evid.Viol("C02/wrong-containers-two-selections", "query %s read containers %v, want %v", query, gotN, wantN)
			return r
		}
		for id := range gotN {
			got[id] = true
		}
		for id := range want2 {
			want[id] = true
		}
	} else {
		for _, call := range rep.Calls {
			if got[call.ID] {
				r.Violation = evid.Viol("C02/read-twice", "query %s: container %s was read twice", query, call.ID)
				return r
			}
			got[call.ID] = true
		}
	}
	if fmt.Sprint(sortedKeys(got)) != fmt.Sprint(sortedKeys(want)) {
		r.Violation = evid.Viol("C02/wrong-containers", "query %s read containers %v, want %v (inventory labels: %v)", query, sortedKeys(got), sortedKeys(want), labelsOf)
		return r
	}
	// The requested window.
	for _, call := range rep.Calls {
		o := call.Opts
		if !o.ShowStdout || !o.ShowStderr || !o.Timestamps || o.Follow {
			r.Violation = evid.Viol("C02/log-options", "query %s: ContainerLogs options %+v", query, o)
			return r
		}
		// The options are read the way the client library and the daemon read them: seconds with
		// an optional fraction that is scaled by its number of digits.
		sinceT, err1 := fakedocker.WindowBound(o.Since)
		untilT, err2 := fakedocker.WindowBound(o.Until)
		if err1 != nil || err2 != nil || o.Since == "" || o.Until == "" {
			r.Violation = evid.Viol("C02/window-format", "query %s: since=%q until=%q", query, o.Since, o.Until)
			return r
		}
		since, until := sinceT.UnixNano(), untilT.UnixNano()
		lo, hi := c.Params.Start, c.Params.End
		if c.Metric {
			lo, hi = c.Params.Start-c.OffsetNs-c.RangeNs, c.Params.End-c.OffsetNs
		}
		floorSec := func(ns int64) int64 { return ns / 1e9 * 1e9 } // instants are positive
		// The requested window must cover the needed interval truncated to seconds (never be
		// narrower): it starts no later than the interval itself and ends no earlier than the
		// whole second its end lies in ...
		if since > lo || until < floorSec(hi) {
			r.Violation = evid.Viol("C02/window-too-narrow", "query %s over [%d, %d]: asked since=%q until=%q, i.e. [%d, %d]; need since<=%d until>=%d", query, c.Params.Start, c.Params.End, o.Since, o.Until, since, until, lo, floorSec(hi))
			return r
		}
		// ... and not be shifted or blown up: it stays within a minute of the needed interval
		// (the instant-query lookback is 30s; asking for a second more on either side to be on
		// the safe side is not a defect).
		if since < floorSec(lo)-61e9 || until > floorSec(hi)+61e9 {
			r.Violation = evid.Viol("C02/window-shifted", "query %s over [%d, %d]: asked since=%q until=%q, need about since=%d until=%d", query, c.Params.Start, c.Params.End, o.Since, o.Until, floorSec(lo), floorSec(hi))
			return r
		}
	}
	if c.Metric || strings.HasPrefix(c.Stage, "filter-") {
		return r
	}
	// Every line carries the labels of the container that produced it.
	streams, err := canon.Streams(data)
	if err != nil {
		r.Violation = evid.Viol("C02/result-type", "%v", err)
		return r
	}
	count := map[string]int{}
	for _, e := range canon.Flatten(streams) {
		id := ""
		lineNo := 0
		if _, err := fmt.Sscanf(e.Line, "n=%d origin=%s", &lineNo, &id); err != nil {
			id = ""
		}
		ml, ok := labelsOf[id]
		if !ok {
			r.Violation = evid.Viol("C02/unknown-line", "query %s returned line %q", query, e.Line)
			return r
		}
		count[id]++
		wantLabels := map[string]string{"msg": e.Line}
		for k, v := range ml {
			wantLabels[k] = v
		}
		_, pairs := c02Line(id, lineNo)
		switch c.Stage {
		case "logfmt":
			for k, v := range pairs {
				wantLabels[k] = v
			}
		case "regexp":
			if v, ok := pairs["container"]; ok {
				wantLabels["container"], wantLabels["container_state"] = v, pairs["container_state"]
			}
		case "label_format":
			wantLabels["n"], wantLabels["origin"] = pairs["n"], pairs["origin"]
			wantLabels["container_image"] = pairs["n"]
		}
		if canon.LabelKey(e.Labels) != canon.LabelKey(wantLabels) {
			r.Violation = evid.Viol("C02/wrong-origin-labels", "query %s: line %q carries labels {%s}, its container has {%s}", query, e.Line, canon.LabelKey(e.Labels), canon.LabelKey(wantLabels))
			return r
		}
	}
	for _, ct := range c.Ctrs {
		wantN := 0
		if want[ct.ID] {
			wantN = ct.Lines
		}
		if count[ct.ID] != wantN {
			r.Violation = evid.Viol("C02/line-count", "query %s: %d lines of container %s returned, want %d", query, count[ct.ID], ct.ID, wantN)
			return r
		}
	}
	return r
}

func sortedKeys(m map[string]bool) []string {
	out := make([]string, 0, len(m))
	for k := range m {
		out = append(out, k)
	}
	sort.Strings(out)
	return out
}

func c02Gen(t *rapid.T) C02Case {
	var c C02Case
	n := rapid.SampledFrom([]int{0, 1, 2, 2, 3, 3, 4, 5, 7}).Draw(t, "containers")
	names := []string{"web", "db", "web-1", "api", "web_1", "cache"}
	images := []string{"nginx:1.25", "postgres", "nginx", "redis:7"}
	states := []string{"running", "exited", "paused"}
	dockerKeys := []string{"com.docker.compose.service", "com.docker.compose.project", "env", "tier", "a-b", "a/b c", "1st", "maintainer", "org.label-schema.name", "ünï",
		// keys spelled like the daemon's own container attributes / list filters
		"id", "name", "image", "status", "label", "ancestor",
		// keys named like the labels the engine derives from a record itself
		"msg", "level", "trace_id", "span_id", "severity"}
	dockerVals := []string{"web", "db", "prod", "", "x y", "1", "prod-eu", "/srv/shop", "/", "/web", "web/", ".*", "web|db", "Web", " web", "web\n", "\t", " ",
		// a carriage return inside, next to the same text without it; quote characters at the ends
		"we\rb", "web\r", "web\r\n", "`web`", "\"web\"", "`"}
	usedID := map[string]bool{}
	for i := 0; i < n; i++ {
		ct := C02Ctr{ID: fmt.Sprintf("%x%02d", rapid.IntRange(0x100000, 0xffffff).Draw(t, "id"), i)}
		if usedID[ct.ID] {
			continue
		}
		usedID[ct.ID] = true
		name := rapid.SampledFrom(names).Draw(t, "name")
		switch rapid.IntRange(0, 7).Draw(t, "namekind") {
		case 0:
			ct.Names = nil
		case 1:
			ct.Names = []string{name} // no leading slash
		case 2:
			ct.Names = []string{"/" + name, "/alias"}
		default:
			ct.Names = []string{"/" + name}
		}
		ct.Image = rapid.SampledFrom(images).Draw(t, "image")
		ct.ImageID = "sha256:" + rapid.SampledFrom([]string{"aa11", "bb22", "cc33"}).Draw(t, "imageid")
		ct.Command = rapid.SampledFrom([]string{"nginx -g 'daemon off;'", "postgres", "/bin/sh -c run"}).Draw(t, "cmd")
		ct.State = rapid.SampledFrom(states).Draw(t, "state")
		ct.Status = rapid.SampledFrom([]string{"Up 2 hours", "Exited (0) 3 days ago", "Up 5 minutes (healthy)"}).Draw(t, "status")
		ct.Created = rapid.Int64Range(1600000000, 1700000000).Draw(t, "created")
		nl := rapid.IntRange(0, 4).Draw(t, "ndockerlabels")
		used := map[string]bool{}
		for j := 0; j < nl; j++ {
			k := rapid.SampledFrom(dockerKeys).Draw(t, "dockerkey")
			san := model.KeyToLabel(k)
			// Keys whose image collides with another key or a built-in label are not generated.
			if used[san] || strings.HasPrefix(san, "container") {
				continue
			}
			used[san] = true
			if ct.Labels == nil {
				ct.Labels = map[string]gen.BS{}
			}
			ct.Labels[k] = gen.BS(rapid.SampledFrom(dockerVals).Draw(t, "dockerval"))
		}
		ct.Lines = rapid.IntRange(0, 5).Draw(t, "lines")
		c.Ctrs = append(c.Ctrs, ct)
	}
	// Selector over built-in labels, sanitised Docker labels and absent labels.
	var fields []datagen.Field
	add := func(name string, pool []string) {
		fields = append(fields, datagen.Field{Name: name, Type: "str", Pool: pool})
	}
	valuesOf := func(label string) []string {
		seen := map[string]bool{}
		for _, ct := range c.Ctrs {
			if v, ok := c02Labels(ct)[label]; ok {
				seen[v] = true
			}
		}
		out := sortedKeys(seen)
		if len(out) == 0 {
			out = []string{"x"}
		}
		return out
	}
	for _, l := range []string{"container", "container_name", "container_image", "container_state", "container_id", "container_status"} {
		add(l, valuesOf(l))
	}
	for _, k := range dockerKeys {
		san := model.KeyToLabel(k)
		if !logqlKeywords[san] {
			add(san, valuesOf(san))
		}
	}
	nm := rapid.SampledFrom([]int{0, 1, 1, 1, 2, 2, 3}).Draw(t, "nmatchers")
	for i := 0; i < nm; i++ {
		m := datagen.GenMatcher(t, fields, "sel")
		if i > 0 && rapid.IntRange(0, 3).Draw(t, "same-label-again") == 0 {
			// The same label (and often the same operator) once more with another value.
			prev := c.Sel[rapid.IntRange(0, len(c.Sel)-1).Draw(t, "again-of")]
			for _, f := range fields {
				if f.Name == prev.Label {
					m = datagen.GenMatcher(t, []datagen.Field{f}, "sel-again")
				}
			}
			if rapid.Bool().Draw(t, "again-same-op") && (prev.Op == "=" || prev.Op == "!=") {
				m.Op = prev.Op
			}
		}
		if (m.Op == "=~" || m.Op == "!~") && rapid.IntRange(0, 2).Draw(t, "substring-re") == 0 {
			// A regex that matches only a proper substring of some value (anchoring).
			var f datagen.Field
			for _, cand := range fields {
				if cand.Name == m.Label {
					f = cand
				}
			}
			if len(f.Pool) > 0 {
				v := rapid.SampledFrom(f.Pool).Draw(t, "substring-of")
				if len(v) >= 2 {
					m.Value = gen.BS(regexpQuoteT(v[:len(v)-1]))
					if rapid.Bool().Draw(t, "suffix") {
						m.Value = gen.BS(regexpQuoteT(v[1:]))
					}
					if rapid.IntRange(0, 2).Draw(t, "own-anchors") == 0 {
						// The user's own anchors around an alternation: "^ab|yz$" still has to
						// match the whole value, not "starts with ab" or "ends with yz".
						w := rapid.SampledFrom(f.Pool).Draw(t, "substring-of-2")
						if len(w) >= 2 {
							m.Value = gen.BS("^" + regexpQuoteT(v[:len(v)-1]) + "|" + regexpQuoteT(w[1:]) + "$")
						}
					}
				}
			}
		}
		c.Sel = append(c.Sel, m)
	}
	// A value with a line break or blanks around it meets the patterns that "match anything":
	// "." does not match a line break, and an anchored pattern has to cover the blanks too.
	for _, ct := range c.Ctrs {
		keys := make([]string, 0, len(ct.Labels))
		for k := range ct.Labels {
			keys = append(keys, k)
		}
		sort.Strings(keys) // draws must not depend on map order
		for _, k := range keys {
			v := ct.Labels[k]
			if strings.Contains(string(v), "\r") && rapid.IntRange(0, 1).Draw(t, "exact-matcher-on-cr-value") == 0 {
				// the value itself, carriage return and all, in a raw string as often as not
				c.Sel = append(c.Sel, gen.Matcher{Label: model.KeyToLabel(k), Op: rapid.SampledFrom([]string{"=", "!="}).Draw(t, "cr-op"), Value: v})
				c.RawSel = rapid.Bool().Draw(t, "cr-raw")
				break
			}
			if strings.ContainsAny(string(v), "\n\t ") && rapid.IntRange(0, 1).Draw(t, "any-pattern-on-odd-value") == 0 {
				c.Sel = append(c.Sel, gen.Matcher{Label: model.KeyToLabel(k), Op: rapid.SampledFrom([]string{"=~", "!~"}).Draw(t, "any-op"),
					Value: gen.BS(rapid.SampledFrom([]string{".+", ".*", ".", "web.?", "\\S+", "[^x]+", ".+|"}).Draw(t, "any-pattern"))})
				break
			}
		}
		if len(c.Sel) > 3 {
			break
		}
	}
	// Time range at nanosecond granularity between 2001 and 2200.
	start := rapid.Int64Range(978307200, 7258118400-100000).Draw(t, "start-sec")*1e9 + rapid.Int64Range(0, 999999999).Draw(t, "start-ns")
	if rapid.IntRange(0, 3).Draw(t, "start-small-fraction") == 0 {
		// a fraction of a second whose decimal spelling starts with zeros, or is one digit long
		start = start/1e9*1e9 + rapid.SampledFrom([]int64{1, 5, 42, 5000000, 99999999, 10000000, 500000000, 0}).Draw(t, "start-fraction")
	}
	span := rapid.SampledFrom([]int64{1, 999999999, 1e9, 1500000000, 60e9, 3600e9, 86400e9}).Draw(t, "span")
	c.Params = model.Params{Start: start, End: start + span, Step: 1e9, Limit: -1}
	if !c.RawSel {
		c.RawSel = rapid.IntRange(0, 2).Draw(t, "raw-selector-values") == 0
	}
	c.Stage = rapid.SampledFrom([]string{"", "", "logfmt", "regexp", "label_format", "filter-state", "filter-msg", "filter-absent"}).Draw(t, "stage")
	if rapid.IntRange(0, 3).Draw(t, "metric") == 0 {
		c.Metric = true
		c.Stage = ""
		if rapid.Bool().Draw(t, "two-selections") {
			c.UseSel2 = true
			nm2 := rapid.SampledFrom([]int{0, 1, 1, 2}).Draw(t, "nmatchers2")
			for i := 0; i < nm2; i++ {
				c.Sel2 = append(c.Sel2, datagen.GenMatcher(t, fields, "sel2"))
			}
		}
		c.RangeNs = rapid.SampledFrom([]int64{1e9, 1500e6, 60e9, 250e6}).Draw(t, "range")
		c.OffsetNs = rapid.SampledFrom([]int64{0, 0, 1e9, 700e6, 3600e9}).Draw(t, "offset")
		steps := rapid.Int64Range(0, 5).Draw(t, "steps")
		c.Params.Step = rapid.SampledFrom([]int64{1e9, 1500e6, 10e9}).Draw(t, "step")
		c.Params.End = c.Params.Start + steps*c.Params.Step
		if rapid.IntRange(0, 3).Draw(t, "instant") == 0 {
			c.Params.End, c.Params.Step = c.Params.Start, 0
		}
	}
	return c
}

func regexpQuoteT(s string) string {
	out := ""
	for _, ch := range s {
		if strings.ContainsRune(`.+*?()[]{}^$|\`, ch) {
			out += `\`
		}
		out += string(ch)
	}
	return out
}

// TestC02 decides C02.
func TestC02(t *testing.T) {
	evid.Run(t, "C02", c02Gen, c02Check)
}
