package props

import (
	"strings"
	"testing"

	"pgregory.net/rapid"

	"github.com/tdakkota/docker-logql/verifharness/datagen"
	"github.com/tdakkota/docker-logql/verifharness/evid"
	"github.com/tdakkota/docker-logql/verifharness/gen"
	"github.com/tdakkota/docker-logql/verifharness/mockstore"
	"github.com/tdakkota/docker-logql/verifharness/model"
)

func c09Check(c MetricCase) (r evid.Result) {
	recs := sortedRecs(c.Recs)
	ev := model.NewEvaluator(recs)
	steps := c.Params.Steps()
	r.Class(true, "fn="+c.M.Op)
	r.Class(c.M.HasOffset, "offset")
	r.Class(c.M.HasOffset && c.M.OffsetNs > 0, "offset>0")
	r.Class(c.Params.Step < c.M.RangeNs, "step<range")
	r.Class(c.Params.Step == c.M.RangeNs, "step=range")
	r.Class(c.Params.Step > c.M.RangeNs, "step>range")
	r.Class(c.Superset, "storage-superset")
	r.Class(c.M.Grouping != nil, "grouping")
	r.Class(c.M.Unwrap != nil, "unwrap")
	for _, rec := range c.Recs {
		if strings.Contains(rec.Labels["val"], "Inf") {
			r.Class(true, "infinite-samples")
			break
		}
	}
	maxPts, edge, total, err := ev.WindowStats(&c.M, steps)
	if err != nil {
		if isUnsupported(err) {
			r.Class(true, "model-unsupported")
			return r
		}
		r.Violation = evid.Viol("C09/harness-model-error", "%v", err)
		return r
	}
	r.Class(edge, "point-on-window-edge")
	r.Class(maxPts >= 2, "window>=2pts")
	r.Class(total == 0, "all-windows-empty")
	r.NonTrivial = maxPts >= 2 && (edge || c.Params.Step < c.M.RangeNs)

	// (a) the drawn grid
	if v := compareMetric("C09", c, recs, ev, c.Params, "on the drawn grid"); v != nil {
		r.Violation = skipUnsupported(v, &r)
		return r
	}
	r.Evals = 1
	// (b) an instant query at every grid point
	for _, t := range steps {
		p := model.Params{Start: t, End: t, Step: 0, Limit: -1}
		if v := compareMetric("C09", c, recs, ev, p, "as an instant query"); v != nil {
			v.Sig += "-instant"
			r.Violation = skipUnsupported(v, &r)
			return r
		}
		r.Evals++
	}
	// (c) another grid that shares points with the first
	if c.Params2 != nil {
		if v := compareMetric("C09", c, recs, ev, *c.Params2, "on the second grid"); v != nil {
			v.Sig += "-grid2"
			r.Violation = skipUnsupported(v, &r)
			return r
		}
		r.Evals++
	}
	return r
}

func skipUnsupported(v *evid.Violation, r *evid.Result) *evid.Violation {
	return v
}

func c09Gen(t *rapid.T) MetricCase {
	var c MetricCase
	unwrap := rapid.IntRange(0, 2).Draw(t, "unwrap") != 0
	needDistinct := true // first/last need distinct timestamps per series; decided after the function is drawn
	d := datagen.GenMetricData(t, 40, false, rapid.Bool().Draw(t, "varied"), needDistinct && rapid.IntRange(0, 1).Draw(t, "distinct-ts") == 0)
	m := datagen.GenRange(t, d, datagen.RangeOpts{Grouping: true, KeepStage: true}, unwrap)
	if m.Op == "first_over_time" || m.Op == "last_over_time" {
		// Ties on the extreme timestamp would make several answers acceptable.
		for i := 1; i < len(d.Recs); i++ {
			if d.Recs[i].TS <= d.Recs[i-1].TS {
				d.Recs[i].TS = d.Recs[i-1].TS + datagen.Tick
			}
		}
	}
	if m.Unwrap != nil && m.Unwrap.Label == "val" && m.Unwrap.Conv == "" && m.Op != "quantile_over_time" && rapid.IntRange(0, 7).Draw(t, "special-floats") == 0 {
		// Infinities are floats like any other: their sums, extremes and averages do not depend
		// on the order of evaluation. NaN samples are left out: whether max(+Inf, NaN) is +Inf
		// (math.Max, Loki), NaN or "ignore NaN" (Prometheus) is not settled by the statement.
		for i := range d.Recs {
			if _, ok := d.Recs[i].Labels["val"]; ok && rapid.IntRange(0, 3).Draw(t, "special") == 0 {
				d.Recs[i].Labels["val"] = rapid.SampledFrom([]string{"+Inf", "-Inf", "Inf", "-Inf", "+Inf"}).Draw(t, "special-val")
			}
		}
	}
	c.Recs = d.Recs
	c.M = *m
	c.Text = gen.PrintMetric(m, datagen.RapidLayout{T: t})
	c.Params = datagen.GenGrid(t, c.Recs, 40)
	if rapid.Bool().Draw(t, "grid2") {
		// Second grid: starts on a point of the first one, other step.
		steps := c.Params.Steps()
		p2 := c.Params
		p2.Start = steps[rapid.IntRange(0, len(steps)-1).Draw(t, "grid2-start")]
		p2.Step = rapid.SampledFrom([]int64{1, 2, 3, 4, 8, 12}).Draw(t, "grid2-step") * datagen.Tick
		if n := (p2.End - p2.Start) / p2.Step; n > 50 {
			p2.End = p2.Start + 50*p2.Step
		}
		c.Params2 = &p2
	}
	c.Caps = mockstore.Caps{Label: rapid.IntRange(0, 15).Draw(t, "caps-label"), Line: rapid.IntRange(0, 15).Draw(t, "caps-line")}
	c.Superset = rapid.Bool().Draw(t, "superset")
	return c
}

// TestC09 decides C09.
func TestC09(t *testing.T) {
	evid.Run(t, "C09", c09Gen, c09Check)
}
