package props

import (
	"fmt"
	"sort"
	"strings"
	"testing"

	"pgregory.net/rapid"

	"github.com/tdakkota/docker-logql/verifharness/canon"
	"github.com/tdakkota/docker-logql/verifharness/datagen"
	"github.com/tdakkota/docker-logql/verifharness/dl"
	"github.com/tdakkota/docker-logql/verifharness/evid"
	"github.com/tdakkota/docker-logql/verifharness/fakedocker"
	"github.com/tdakkota/docker-logql/verifharness/gen"
	"github.com/tdakkota/docker-logql/verifharness/mockstore"
	"github.com/tdakkota/docker-logql/verifharness/model"
)

func c09Check(c MetricCase) (r evid.Result) {
	recs := sortedRecs(c.Recs)
	ev := model.NewEvaluator(recs)
	steps := c.Params.Steps()
	r.Class(true, "fn="+c.M.Op)
	r.Class(c.M.HasOffset, "offset")
	r.Class(c.M.HasOffset && c.M.OffsetNs > 0, "offset>0")
	r.Class(c.Params.Step < c.M.RangeNs, "step<range")
	r.Class(c.Params.Step == c.M.RangeNs, "step=range")
	r.Class(c.Params.Step > c.M.RangeNs, "step>range")
	r.Class(c.Superset, "storage-superset")
	r.Class(c.M.Grouping != nil, "grouping")
	r.Class(c.M.Unwrap != nil, "unwrap")
	for _, rec := range c.Recs {
		if strings.Contains(rec.Labels["val"], "Inf") {
			r.Class(true, "infinite-samples")
			break
		}
	}
	maxPts, edge, total, err := ev.WindowStats(&c.M, steps)
	if err != nil {
		if isUnsupported(err) {
			r.Class(true, "model-unsupported")
			return r
		}
		r.Violation = evid.Viol("C09/harness-model-error", "%v", err)
		return r
	}
	r.Class(edge, "point-on-window-edge")
	r.Class(maxPts >= 2, "window>=2pts")
	r.Class(total == 0, "all-windows-empty")
	r.NonTrivial = maxPts >= 2 && (edge || c.Params.Step < c.M.RangeNs)

	// (a) the drawn grid
	if v := compareMetric("C09", c, recs, ev, c.Params, "on the drawn grid"); v != nil {
		r.Violation = skipUnsupported(v, &r)
		return r
	}
	r.Evals = 1
	// (b) an instant query at every grid point
	for _, t := range steps {
		p := model.Params{Start: t, End: t, Step: 0, Limit: -1}
		if v := compareMetric("C09", c, recs, ev, p, "as an instant query"); v != nil {
			v.Sig += "-instant"
			r.Violation = skipUnsupported(v, &r)
			return r
		}
		r.Evals++
	}
	// (c) another grid that shares points with the first
	if c.Params2 != nil {
		if v := compareMetric("C09", c, recs, ev, *c.Params2, "on the second grid"); v != nil {
			v.Sig += "-grid2"
			r.Violation = skipUnsupported(v, &r)
			return r
		}
		r.Evals++
	}
	return r
}

func skipUnsupported(v *evid.Violation, r *evid.Result) *evid.Violation {
	return v
}

func c09Gen(t *rapid.T) MetricCase {
	var c MetricCase
	unwrap := rapid.IntRange(0, 2).Draw(t, "unwrap") != 0
	needDistinct := true // first/last need distinct timestamps per series; decided after the function is drawn
	d := datagen.GenMetricData(t, 40, false, rapid.Bool().Draw(t, "varied"), needDistinct && rapid.IntRange(0, 1).Draw(t, "distinct-ts") == 0)
	m := datagen.GenRange(t, d, datagen.RangeOpts{Grouping: true, KeepStage: true}, unwrap)
	if m.Op == "first_over_time" || m.Op == "last_over_time" {
		// Ties on the extreme timestamp would make several answers acceptable.
		for i := 1; i < len(d.Recs); i++ {
			if d.Recs[i].TS <= d.Recs[i-1].TS {
				d.Recs[i].TS = d.Recs[i-1].TS + datagen.Tick
			}
		}
	}
	if m.Unwrap != nil && m.Unwrap.Label == "val" && m.Unwrap.Conv == "" && m.Op != "quantile_over_time" && rapid.IntRange(0, 7).Draw(t, "special-floats") == 0 {
		// Infinities are floats like any other: their sums, extremes and averages do not depend
		// on the order of evaluation. NaN samples are left out: whether max(+Inf, NaN) is +Inf
		// (math.Max, Loki), NaN or "ignore NaN" (Prometheus) is not settled by the statement.
		for i := range d.Recs {
			if _, ok := d.Recs[i].Labels["val"]; ok && rapid.IntRange(0, 3).Draw(t, "special") == 0 {
				d.Recs[i].Labels["val"] = rapid.SampledFrom([]string{"+Inf", "-Inf", "Inf", "-Inf", "+Inf"}).Draw(t, "special-val")
			}
		}
	}
	c.Recs = d.Recs
	c.M = *m
	c.Text = gen.PrintMetric(m, datagen.RapidLayout{T: t})
	c.Params = datagen.GenGrid(t, c.Recs, 40)
	if rapid.Bool().Draw(t, "grid2") {
		// Second grid: starts on a point of the first one, other step.
		steps := c.Params.Steps()
		p2 := c.Params
		p2.Start = steps[rapid.IntRange(0, len(steps)-1).Draw(t, "grid2-start")]
		p2.Step = rapid.SampledFrom([]int64{1, 2, 3, 4, 8, 12}).Draw(t, "grid2-step") * datagen.Tick
		if n := (p2.End - p2.Start) / p2.Step; n > 50 {
			p2.End = p2.Start + 50*p2.Step
		}
		c.Params2 = &p2
	}
	c.Caps = mockstore.Caps{Label: rapid.IntRange(0, 15).Draw(t, "caps-label"), Line: rapid.IntRange(0, 15).Draw(t, "caps-line")}
	c.Superset = rapid.Bool().Draw(t, "superset")
	return c
}

// TestC09 decides C09.
func TestC09(t *testing.T) {
	evid.Run(t, "C09", c09Gen, c09Check)
}

// C09DockerCase: C09 over the product's own storage, where the samples of a window come out of
// the merge of several containers' logs.
type C09DockerCase struct {
	Ctrs    [][]int64 `json:"ctrs"` // per container: offsets of its lines from the base, odd milliseconds, ascending
	RangeMs int64     `json:"range_ms"`
	StartMs int64     `json:"start_ms"` // even milliseconds: no line lies on a window edge
	StepMs  int64     `json:"step_ms"`
	Steps   int       `json:"steps"`
	Fn      string    `json:"fn"` // count_over_time | rate | bytes_over_time
	// SubNs moves the whole grid by a fraction of a millisecond, JitterNs[i] the lines of
	// container i (both below a millisecond, so still no line on a window edge): instants are
	// nanoseconds, whatever precision results are reported with.
	SubNs    int64   `json:"sub_ns,omitempty"`
	JitterNs []int64 `json:"jitter_ns,omitempty"`
}

func (c C09DockerCase) lineTS(base int64, i int, off int64) int64 {
	ts := base + off*1e6
	if i < len(c.JitterNs) {
		ts += c.JitterNs[i]
	}
	return ts
}

func c09DockerCheck(c C09DockerCase) (r evid.Result) {
	const base = int64(1700000000e9)
	// the daemon cuts the logs at since as the real one does: what the engine asks for has to
	// cover the first window
	d := &fakedocker.Daemon{HonourWindow: true, IgnoreUntil: true}
	for i, offs := range c.Ctrs {
		var lines []dl.Line
		for j, o := range offs {
			lines = append(lines, dl.Line{TS: c.lineTS(base, i, o), Msg: fmt.Sprintf("c%d line %d", i, j)})
		}
		d.Containers = append(d.Containers, dl.Ctr(fmt.Sprintf("id%d", i), fmt.Sprintf("c%d", i), nil, lines))
	}
	query := fmt.Sprintf("sum by (container) (%s({}[%dms]))", c.Fn, c.RangeMs)
	start, step := base+c.StartMs*1e6+c.SubNs, c.StepMs*1e6
	end := start + int64(c.Steps)*step
	want := map[string]map[int64]float64{}
	ended := map[int]bool{}
	for k := 0; k <= c.Steps; k++ {
		T := start + int64(k)*step
		for i, offs := range c.Ctrs {
			n, bytes := 0, 0
			for j, o := range offs {
				if ts := c.lineTS(base, i, o); ts >= T-c.RangeMs*1e6 && ts <= T {
					n++
					bytes += len(fmt.Sprintf("c%d line %d", i, j))
				}
			}
			if len(offs) > 0 && c.lineTS(base, i, offs[len(offs)-1]) < T {
				ended[i] = true
			}
			if n == 0 {
				continue
			}
			key := canon.LabelKey(map[string]string{"container": fmt.Sprintf("c%d", i)})
			if want[key] == nil {
				want[key] = map[int64]float64{}
			}
			switch c.Fn {
			case "count_over_time":
				want[key][T/1e6] = float64(n)
			case "rate":
				want[key][T/1e6] = float64(n) / (float64(c.RangeMs) / 1000)
			default:
				want[key][T/1e6] = float64(bytes)
			}
		}
	}
	r.Class(true, fmt.Sprintf("containers=%d", len(c.Ctrs)))
	r.Class(len(ended) > 0 && len(ended) < len(c.Ctrs), "some-log-ends-inside-the-grid")
	r.NonTrivial = len(c.Ctrs) >= 3 && len(want) >= 2
	data, err := dl.Eval(d, query, dl.Params{Start: start, End: end, Step: step, Limit: -1})
	d.Done()
	if err != nil {
		r.Violation = evid.Viol("C09/docker-eval-error", "query %s failed: %v", query, err)
		return r
	}
	m, err := canon.MetricOf(data)
	if err != nil {
		r.Violation = evid.Viol("C09/docker-result", "%v", err)
		return r
	}
	got, _, dups := canon.PointMap(m)
	if len(dups) > 0 {
		r.Violation = evid.Viol("C09/docker-duplicate", "query %s: %v", query, dups)
		return r
	}
	if diff := canon.DiffPointMaps(got, want); diff != "" {
		r.Violation = evid.Viol("C09/docker-wrong-value", "query %s over %d containers (line offsets in ms %v), grid start=+%dms step=%dms steps=%d: %s", query, len(c.Ctrs), c.Ctrs, c.StartMs, c.StepMs, c.Steps, diff)
	}
	return r
}

func c09DockerGen(t *rapid.T) C09DockerCase {
	var c C09DockerCase
	n := rapid.SampledFrom([]int{1, 2, 3, 3, 4, 4, 5, 6}).Draw(t, "containers")
	for i := 0; i < n; i++ {
		m := rapid.IntRange(0, 6).Draw(t, "lines")
		// some logs are short and end early, others go on
		span := rapid.SampledFrom([]int64{10, 40, 200}).Draw(t, "span")
		offs := make([]int64, m)
		for j := range offs {
			offs[j] = rapid.Int64Range(0, span).Draw(t, "off")*2 + 1
		}
		sort.Slice(offs, func(a, b int) bool { return offs[a] < offs[b] })
		c.Ctrs = append(c.Ctrs, offs)
	}
	c.RangeMs = rapid.SampledFrom([]int64{2, 4, 10, 20, 100, 1000}).Draw(t, "range") // even
	c.StartMs = rapid.Int64Range(-5, 60).Draw(t, "start") * 2
	c.StepMs = rapid.SampledFrom([]int64{2, 4, 6, 10, 20, 50, 100}).Draw(t, "step")
	c.Steps = rapid.IntRange(0, 40).Draw(t, "steps")
	c.Fn = rapid.SampledFrom([]string{"count_over_time", "count_over_time", "rate", "bytes_over_time"}).Draw(t, "fn")
	if rapid.IntRange(0, 2).Draw(t, "sub-millisecond") == 0 {
		frac := []int64{0, 1, 300e3, 400e3, 500e3, 600e3, 999999}
		c.SubNs = rapid.SampledFrom(frac).Draw(t, "grid-fraction")
		for i := range c.Ctrs {
			j := rapid.SampledFrom(frac).Draw(t, "line-fraction")
			c.JitterNs = append(c.JitterNs, j)
			// With another fraction than the grid's, a line may sit on an even millisecond as well:
			// within a fraction of a millisecond of a window edge, never on it.
			if j != c.SubNs {
				for k := range c.Ctrs[i] {
					if rapid.Bool().Draw(t, "near-an-edge") {
						c.Ctrs[i][k]--
					}
				}
				sort.Slice(c.Ctrs[i], func(a, b int) bool { return c.Ctrs[i][a] < c.Ctrs[i][b] })
			}
		}
	}
	return c
}

// TestC09Docker decides C09's first sentence over the Docker backend: the windows are cut out of
// the merged logs of several containers.
func TestC09Docker(t *testing.T) {
	evid.Run(t, "C09", c09DockerGen, c09DockerCheck)
}
