package props

import (
	"fmt"
	"math"
	"sort"
	"strconv"
	"strings"
	"testing"

	"pgregory.net/rapid"

	"github.com/tdakkota/docker-logql/verifharness/canon"
	"github.com/tdakkota/docker-logql/verifharness/datagen"
	"github.com/tdakkota/docker-logql/verifharness/evid"
	"github.com/tdakkota/docker-logql/verifharness/gen"
	"github.com/tdakkota/docker-logql/verifharness/mockstore"
	"github.com/tdakkota/docker-logql/verifharness/model"
)

func aggDepth(m *gen.Metric) int {
	d := 0
	for m != nil && m.Kind == "vecagg" {
		d++
		m = m.Inner
	}
	return d
}

func c11Check(c MetricCase) (r evid.Result) {
	recs := sortedRecs(c.Recs)
	ev := model.NewEvaluator(recs)
	top := &c.M
	r.Class(true, "op="+top.Op)
	r.Class(top.Grouping == nil, "no-grouping-clause")
	r.Class(top.Grouping != nil && !top.Grouping.Without && len(top.Grouping.Labels) == 0, "by()")
	r.Class(top.Grouping != nil && top.Grouping.Without, "without")
	r.Class(c.Params.Instant(), "instant")
	depth := aggDepth(top)
	r.Class(true, fmt.Sprintf("depth=%d", depth))
	// Levels (range grouping included) that all name one label, and their by/without order.
	if top.Grouping != nil {
		for _, x := range top.Grouping.Labels {
			order, all := "", true
			for cur := top; cur != nil; cur = cur.Inner {
				if cur.Grouping == nil {
					if cur.Kind == "vecagg" {
						all = false
					}
					continue
				}
				named := false
				for _, l := range cur.Grouping.Labels {
					named = named || l == x
				}
				if !named {
					all = false
					continue
				}
				if cur.Grouping.Without {
					order += "w"
				} else {
					order += "b"
				}
			}
			if all && len(order) >= 3 {
				r.Class(true, "one-label-at-3-levels")
				r.Class(strings.Contains(order, "bwb"), "by-without-by(outer first)")
				break
			}
		}
	}

	// Group structure of the top-level aggregation at every step (from the model's input).
	groupsWith2, kBelowGroup := 0, false
	steps := c.Params.Steps()
	inputs := map[int64][]model.Sample{}
	for _, t := range steps {
		in, err := ev.At(top.Inner, t)
		if err != nil {
			if isUnsupported(err) {
				r.Class(true, "model-unsupported")
				return r
			}
			r.Violation = evid.Viol("C11/harness-model-error", "%v", err)
			return r
		}
		inputs[t] = in.Vec
		sizes := map[string]int{}
		for _, s := range in.Vec {
			sizes[groupKeyOf(top, s.Labels)]++
		}
		n2 := 0
		for _, n := range sizes {
			if n >= 2 {
				n2++
			}
			if top.HasK && top.K < n {
				kBelowGroup = true
			}
		}
		if n2 > groupsWith2 {
			groupsWith2 = n2
		}
	}
	r.Class(groupsWith2 >= 2, "2-groups-of-2")
	r.Class(kBelowGroup, "k<group-size")
	r.NonTrivial = groupsWith2 >= 2 || kBelowGroup || depth >= 2

	switch top.Op {
	case "topk", "bottomk", "sort", "sort_desc":
		got, cm, v, _ := runMetric(recs, c.Caps, c.Superset, c.Text, c.Params)
		if v != nil {
			v.Sig = "C11/" + v.Sig
			r.Violation = v
			return r
		}
		for _, t := range steps {
			tms := t / 1e6
			in := inputs[t]
			inByKey := map[string]float64{}
			inErr := map[string]float64{}
			maxErr := 0.0
			groups := map[string][]float64{}
			for _, s := range in {
				k := canon.LabelKey(model.NormLabels(s.Labels))
				inByKey[k] = s.V
				inErr[k] = s.E
				if s.Unc {
					inErr[k] = math.Inf(1)
				}
				maxErr = math.Max(maxErr, inErr[k])
				gk := groupKeyOf(top, s.Labels)
				groups[gk] = append(groups[gk], s.V)
			}
			// Output at this step.
			outByGroup := map[string][]float64{}
			nOut := 0
			for k, pts := range got {
				v, ok := pts[tms]
				if !ok {
					continue
				}
				nOut++
				want, ok := inByKey[k]
				if !ok {
					r.Violation = evid.Viol("C11/invented-series", "%s at %d: series {%s} is not an input series", c.Text, tms, k)
					return r
				}
				if !canon.FloatEqTol(v, want, inErr[k]) {
					r.Violation = evid.Viol("C11/value-changed", "%s at %d: series {%s} = %v, its input value is %v", c.Text, tms, k, v, want)
					return r
				}
				var labels map[string]string
				for _, s := range cm.Series {
					if canon.LabelKey(s.Labels) == k {
						labels = s.Labels
					}
				}
				gk := groupKeyOf(top, labels)
				outByGroup[gk] = append(outByGroup[gk], v)
			}
			if top.Op == "sort" || top.Op == "sort_desc" {
				if nOut != len(in) {
					r.Violation = evid.Viol("C11/sort-not-a-permutation", "%s at %d: %d series out, %d in", c.Text, tms, nOut, len(in))
					return r
				}
				continue
			}
			for gk, vals := range groups {
				sort.Float64s(vals)
				if top.Op == "topk" {
					for i, j := 0, len(vals)-1; i < j; i, j = i+1, j-1 {
						vals[i], vals[j] = vals[j], vals[i]
					}
				}
				wantN := top.K
				if len(vals) < wantN {
					wantN = len(vals)
				}
				out := outByGroup[gk]
				if len(out) != wantN {
					r.Violation = evid.Viol("C11/k-count", "%s at %d: group {%s} has %d members, %d returned, want %d", c.Text, tms, gk, len(vals), len(out), wantN)
					return r
				}
				sort.Float64s(out)
				if top.Op == "topk" {
					for i, j := 0, len(out)-1; i < j; i, j = i+1, j-1 {
						out[i], out[j] = out[j], out[i]
					}
				}
				// The multiset of kept values must be the k extreme values of the group.
				for i := range out {
					if !canon.FloatEqTol(out[i], vals[i], 2*maxErr) {
						r.Violation = evid.Viol("C11/not-the-extremes", "%s at %d: group {%s}: kept values %v, the %d extreme values are %v", c.Text, tms, gk, out, wantN, vals[:wantN])
						return r
					}
				}
			}
			for gk := range outByGroup {
				if _, ok := groups[gk]; !ok {
					r.Violation = evid.Viol("C11/unknown-group", "%s at %d: output group {%s} does not exist in the input", c.Text, tms, gk)
					return r
				}
			}
		}
		if c.Params.Instant() && (top.Op == "sort" || top.Op == "sort_desc") {
			for i := 1; i < len(cm.Series); i++ {
				a, b := cm.Series[i-1].Points[0].V, cm.Series[i].Points[0].V
				if top.Op == "sort" && a > b || top.Op == "sort_desc" && a < b {
					r.Violation = evid.Viol("C11/not-sorted", "%s: result values %v then %v", c.Text, a, b)
					return r
				}
			}
			r.Class(len(cm.Series) >= 3, "sorted>=3")
		}
		return r
	}
	if v := compareMetric("C11", c, recs, ev, c.Params, ""); v != nil {
		r.Violation = v
	}
	return r
}

// groupKeyOf is the group of the top-level aggregation a label set belongs to.
func groupKeyOf(top *gen.Metric, labels map[string]string) string {
	g := top.Grouping
	out := map[string]string{}
	switch {
	case g == nil:
	case g.Without:
		drop := map[string]bool{}
		for _, l := range g.Labels {
			drop[l] = true
		}
		for k, v := range labels {
			if !drop[k] {
				out[k] = v
			}
		}
	default:
		for _, l := range g.Labels {
			if v, ok := labels[l]; ok {
				out[l] = v
			}
		}
	}
	return canon.LabelKey(model.NormLabels(out))
}

func c11Gen(t *rapid.T) MetricCase {
	var c MetricCase
	// One case in five groups label sets whose names and values are prefixes, concatenations and
	// spellings of one another (the key of a group has to tell them apart).
	d := datagen.GenMetricDataN(t, 36, rapid.IntRange(0, 4).Draw(t, "ambiguous-labels") == 0, true, false, 2, 8)
	unwrap := rapid.Bool().Draw(t, "unwrap")
	opts := datagen.RangeOpts{KeepStage: true, NoOffset: true, Wide: true, Grouping: true}
	if unwrap {
		opts.Funcs = []string{"sum_over_time", "avg_over_time", "max_over_time", "min_over_time", "max_over_time"}
	} else {
		opts.Funcs = []string{"count_over_time", "bytes_over_time", "rate"}
	}
	base := datagen.GenRange(t, d, opts, unwrap)
	depth := rapid.SampledFrom([]int{0, 0, 1, 1, 2}).Draw(t, "inner-depth")
	inner := datagen.GenVecAgg(t, d, base, depth)
	top := &gen.Metric{Kind: "vecagg", Inner: inner}
	top.Op = rapid.SampledFrom([]string{"sum", "avg", "min", "max", "count", "stddev", "stdvar", "topk", "bottomk", "sort", "sort_desc", "sum", "topk"}).Draw(t, "topop")
	top.GroupingFirst = rapid.Bool().Draw(t, "grouping-first")
	if top.Op != "sort" && top.Op != "sort_desc" {
		top.Grouping = datagen.GenGrouping(t, d, "top")
	}
	if top.Op == "topk" || top.Op == "bottomk" {
		top.HasK = true
		top.K = rapid.SampledFrom([]int{1, 1, 2, 3, 5, 100}).Draw(t, "k")
	}
	// A chain in which every level names the same label, in any order of by / without: what one
	// level removes must stay removed whatever the levels around it say.
	if rapid.IntRange(0, 4).Draw(t, "same-label-chain") == 0 {
		x := rapid.SampledFrom(append([]string{"id"}, d.GroupLabels...)).Draw(t, "chain-label")
		level := func(label string) *gen.Grouping {
			g := &gen.Grouping{Labels: []string{x}}
			if rapid.Bool().Draw(t, label+"-without") {
				g.Without = true
				for _, l := range []string{"msg", "val", "size", "dur"} {
					if rapid.Bool().Draw(t, label+"-wo-"+l) {
						g.Labels = append(g.Labels, l)
					}
				}
			} else {
				for _, l := range append([]string{"id", "nosuch"}, d.GroupLabels...) {
					if l != x && rapid.Bool().Draw(t, label+"-by-"+l) {
						g.Labels = append(g.Labels, l)
					}
				}
			}
			if rapid.Bool().Draw(t, label+"-shuffle") && len(g.Labels) > 1 {
				g.Labels[0], g.Labels[len(g.Labels)-1] = g.Labels[len(g.Labels)-1], g.Labels[0]
			}
			return g
		}
		cur := base
		if base.Grouping != nil && rapid.Bool().Draw(t, "chain-range-level") {
			base.Grouping = level("chain-r")
		}
		n := rapid.IntRange(1, 2).Draw(t, "chain-inner")
		for i := 0; i < n; i++ {
			cur = &gen.Metric{Kind: "vecagg", Op: rapid.SampledFrom(datagen.SimpleAggs).Draw(t, "chain-op"), Inner: cur,
				Grouping: level("chain-" + strconv.Itoa(i)), GroupingFirst: rapid.Bool().Draw(t, "chain-gf")}
		}
		top.Inner = cur
		if top.Op != "sort" && top.Op != "sort_desc" {
			top.Grouping = level("chain-top")
		}
	}
	if base.Unwrap != nil && base.Unwrap.Label == "val" && base.Unwrap.Conv == "" && rapid.IntRange(0, 5).Draw(t, "infinite-samples") == 0 {
		// Positive infinity is a value: a sum, an average or a maximum with it is infinite whatever
		// the order of evaluation. (Both signs would sum to NaN, and NaN under min / max / topk /
		// a variance is not settled by the statement: one sign only, no deviations.)
		ok := true
		for cur := top; cur != nil; cur = cur.Inner {
			switch cur.Op {
			case "stddev", "stdvar", "stddev_over_time", "stdvar_over_time", "quantile_over_time":
				ok = false
			}
		}
		for i := range d.Recs {
			if _, has := d.Recs[i].Labels["val"]; ok && has && rapid.IntRange(0, 3).Draw(t, "infinite") == 0 {
				d.Recs[i].Labels["val"] = rapid.SampledFrom([]string{"+Inf", "Inf", "+inf"}).Draw(t, "infinite-val")
			}
		}
	}
	c.Recs = d.Recs
	c.M = *top
	c.Text = gen.PrintMetric(top, datagen.RapidLayout{T: t})
	if top.Op == "sort" || top.Op == "sort_desc" || rapid.IntRange(0, 2).Draw(t, "instant") == 0 {
		g := datagen.GenGrid(t, c.Recs, 10)
		steps := g.Steps()
		at := steps[len(steps)/2]
		c.Params = model.Params{Start: at, End: at, Step: 0, Limit: -1}
	} else {
		c.Params = datagen.GenGrid(t, c.Recs, 12)
	}
	c.Caps = mockstore.Caps{Label: rapid.IntRange(0, 15).Draw(t, "caps-label"), Line: rapid.IntRange(0, 15).Draw(t, "caps-line")}
	return c
}

// TestC11 decides C11.
func TestC11(t *testing.T) {
	evid.Run(t, "C11", c11Gen, c11Check)
}
