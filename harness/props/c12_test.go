package props

import (
	"fmt"
	"math"
	"sort"
	"strconv"
	"testing"

	"pgregory.net/rapid"

	"github.com/tdakkota/docker-logql/verifharness/canon"
	"github.com/tdakkota/docker-logql/verifharness/datagen"
	"github.com/tdakkota/docker-logql/verifharness/dl"
	"github.com/tdakkota/docker-logql/verifharness/evid"
	"github.com/tdakkota/docker-logql/verifharness/fakedocker"
	"github.com/tdakkota/docker-logql/verifharness/gen"
	"github.com/tdakkota/docker-logql/verifharness/mockstore"
	"github.com/tdakkota/docker-logql/verifharness/model"
)

func c12Check(c MetricCase) (r evid.Result) {
	recs := sortedRecs(c.Recs)
	ev := model.NewEvaluator(recs)
	m := &c.M
	r.Class(true, "op="+m.Op)
	litLeft := m.L.Kind == "literal"
	litRight := m.R.Kind == "literal"
	r.Class(m.L.Kind == "binop" || m.R.Kind == "binop", "nested-operand")
	r.Class(litLeft, "literal-left")
	r.Class(litRight, "literal-right")
	r.Class(!litLeft && !litRight, "vector-vector")
	r.Class(c.Params.Instant(), "instant")
	hasVector := false
	var walk func(x *gen.Metric)
	walk = func(x *gen.Metric) {
		if x == nil {
			return
		}
		hasVector = hasVector || x.Kind == "vector"
		walk(x.L)
		walk(x.R)
		walk(x.Inner)
	}
	walk(m)
	r.Class(hasVector, "vector-function")
	r.Class(hasVector && (litLeft || litRight) && !c.Params.Instant(), "vector-function-with-literal-over-range")

	// Overlap of the two sides at some step.
	properOverlap := false
	if !litLeft && !litRight {
		for _, t := range c.Params.Steps() {
			l, err1 := ev.At(m.L, t)
			rr, err2 := ev.At(m.R, t)
			if err1 != nil || err2 != nil {
				break
			}
			lk := map[string]bool{}
			for _, s := range l.Vec {
				lk[canon.LabelKey(model.NormLabels(s.Labels))] = true
			}
			both, onlyR := 0, 0
			for _, s := range rr.Vec {
				if lk[canon.LabelKey(model.NormLabels(s.Labels))] {
					both++
				} else {
					onlyR++
				}
			}
			if both > 0 && (onlyR > 0 || both < len(l.Vec)) {
				properOverlap = true
			}
		}
	}
	nonCommutative := map[string]bool{"-": true, "/": true, "%": true, "^": true, ">": true, ">=": true, "<": true, "<=": true}
	if datagen.CmpOpSet[m.Op] {
		nanSide := false
		for _, t := range c.Params.Steps() {
			for _, side := range []*gen.Metric{m.L, m.R} {
				if v, err := ev.At(side, t); err == nil {
					for _, smp := range v.Vec {
						nanSide = nanSide || math.IsNaN(smp.V)
					}
				}
			}
		}
		r.Class(nanSide, "NaN-meets-a-comparison")
	}
	r.Class(properOverlap, "proper-overlap")
	if res, err := ev.Eval(m, c.Params); err == nil {
		unc, inexact := false, false
		for k, pts := range res.Unc {
			unc = unc || len(pts) > 0
			for _, e := range res.Err[k] {
				inexact = inexact || e > 0
			}
		}
		for _, pts := range res.Err {
			for _, e := range pts {
				inexact = inexact || e > 0
			}
		}
		r.Class(unc, "some-point-undecidable")
		r.Class(inexact, "inexact-operands")
	}
	r.NonTrivial = properOverlap || (litLeft && nonCommutative[m.Op])
	if v := compareMetric("C12", c, recs, ev, c.Params, ""); v != nil {
		if v.Sig == "C12/harness-model-error" {
			r.Class(true, "model-unsupported")
			return r
		}
		r.Violation = v
	}
	return r
}

func c12Gen(t *rapid.T) MetricCase {
	var c MetricCase
	d := datagen.GenMetricDataN(t, 30, rapid.IntRange(0, 2).Draw(t, "ambiguous-labels") == 0, true, false, 2, 6)
	opts := datagen.RangeOpts{KeepStage: true, NoOffset: true, Wide: true, Funcs: []string{"count_over_time", "bytes_over_time", "sum_over_time", "max_over_time"}}
	// % and ^ amplify a last-bit difference of an operand without bound next to their
	// discontinuities; they are generated over integer-valued (exactly computed) sides only.
	// Comparisons and divisions over inexact sides are decided through the model's error bounds
	// (a comparison of two values closer than their bounds is reported undecidable).
	exact := false
	genVector := func(label string) *gen.Metric {
		v := rapid.SampledFrom([]struct {
			text string
			v    float64
		}{{"0", 0}, {"1", 1}, {"2", 2}, {"0.5", 0.5}, {"10", 10}, {"1.5", 1.5}, {"3", 3}, {"1e2", 100}}).Draw(t, label+"-vector")
		return &gen.Metric{Kind: "vector", Value: v.v, ValueText: v.text}
	}
	mkSide := func(label string) *gen.Metric {
		// vector(c): a one-sample vector with the empty label set, the same at every step.
		if rapid.IntRange(0, 7).Draw(t, label+"-vector-side") == 0 {
			return genVector(label)
		}
		o := opts
		aggs := []string{"sum", "max", "count", "avg"}
		if exact {
			o.Funcs = []string{"count_over_time", "bytes_over_time"}
			aggs = []string{"sum", "max", "count"}
		}
		base := datagen.GenRange(t, d, o, false)
		if rapid.Bool().Draw(t, label+"-agg") {
			agg := &gen.Metric{Kind: "vecagg", Op: rapid.SampledFrom(aggs).Draw(t, label+"-aggop"), Inner: base}
			agg.Grouping = &gen.Grouping{Labels: []string{}}
			for _, l := range append([]string{"id"}, d.GroupLabels...) {
				if rapid.Bool().Draw(t, label+"-by-"+l) {
					agg.Grouping.Labels = append(agg.Grouping.Labels, l)
				}
			}
			return agg
		}
		return base
	}
	m := &gen.Metric{Kind: "binop"}
	kind := rapid.SampledFrom([]string{"arith", "arith", "cmp", "set"}).Draw(t, "opkind")
	switch kind {
	case "arith":
		m.Op = rapid.SampledFrom(datagen.ArithOps).Draw(t, "op")
	case "cmp":
		m.Op = rapid.SampledFrom(datagen.CmpOps).Draw(t, "op")
	default:
		m.Op = rapid.SampledFrom(datagen.SetOps).Draw(t, "op")
	}
	// ... and so does ^ with a negative base: (-3)^7200 is +Inf but (-3)^7200.000000000001 is NaN.
	exact = m.Op == "%" || m.Op == "^" || (kind == "cmp" && rapid.Bool().Draw(t, "exact-comparison"))
	shape := rapid.SampledFrom([]string{"vv", "vv", "vs", "sv"}).Draw(t, "shape")
	if kind == "set" {
		shape = "vv"
	}
	switch shape {
	case "vs":
		m.L, m.R = mkSide("l"), datagen.GenScalar(t)
	case "sv":
		m.L, m.R = datagen.GenScalar(t), mkSide("r")
	default:
		m.L = mkSide("l")
		switch rapid.IntRange(0, 3).Draw(t, "right-kind") {
		case 0:
			// Same expression on both sides: full overlap.
			cp := *m.L
			m.R = &cp
		case 1:
			// Same grouping over another function: overlapping label sets.
			m.R = mkSide("r")
			if m.L.Kind == "vecagg" && m.R.Kind == "vecagg" {
				m.R.Grouping = m.L.Grouping
			}
		default:
			m.R = mkSide("r")
		}
		// Restrict one side by a selector so that the overlap is proper.
		if rapid.Bool().Draw(t, "restrict") && len(d.GroupLabels) > 0 && m.R.Kind != "vector" {
			side := m.R
			for side.Kind == "vecagg" {
				side = side.Inner
			}
			if side == m.R || true {
				cp := *side
				lg := *cp.Log
				cp.Log = &lg
				l := d.GroupLabels[0]
				vals := map[string]bool{}
				for _, r := range d.Recs {
					vals[r.Labels[l]] = true
				}
				var pool []string
				for v := range vals {
					pool = append(pool, v)
				}
				if len(pool) > 0 {
					sortStringsT(pool)
					cp.Log.Sel = append([]gen.Matcher{}, gen.Matcher{Label: l, Op: rapid.SampledFrom([]string{"=", "!="}).Draw(t, "restrict-op"), Value: gen.BS(rapid.SampledFrom(pool).Draw(t, "restrict-val"))})
					if m.R.Kind == "vecagg" {
						agg := *m.R
						agg.Inner = &cp
						m.R = &agg
					} else {
						m.R = &cp
					}
				}
			}
		}
	}
	// Sometimes a vector side gets "or vector(c)": steps where the side is empty are filled.
	if kind != "set" && rapid.IntRange(0, 5).Draw(t, "or-vector") == 0 {
		fill := func(side *gen.Metric, label string) *gen.Metric {
			if side.Kind == "literal" || side.Kind == "vector" {
				return side
			}
			return &gen.Metric{Kind: "binop", Op: "or", L: side, R: genVector(label), Parens: 1}
		}
		if rapid.Bool().Draw(t, "or-vector-left") {
			m.L = fill(m.L, "ovl")
		} else {
			m.R = fill(m.R, "ovr")
		}
	}
	// Sometimes one side is itself a (parenthesised) division or modulo by a literal - 0 included,
	// so that NaN values meet the outer operator.
	nestedOneIn := 4
	if kind == "cmp" {
		nestedOneIn = 2 // NaN against every comparison operator, on either side
	}
	if kind == "set" {
		nestedOneIn = 3 // a NaN on one side of and / or / unless is a value like any other: the label set decides
	}
	if rapid.IntRange(0, nestedOneIn-1).Draw(t, "nested-nan") == 0 {
		wrap := func(side *gen.Metric, label string) *gen.Metric {
			if side.Kind == "literal" || side.Kind == "vector" {
				return side
			}
			lit := rapid.SampledFrom([]struct {
				text string
				v    float64
			}{{"0", 0}, {"0", 0}, {"1", 1}, {"2", 2}}).Draw(t, label+"-divisor")
			ops := []string{"/"}
			if exact {
				ops = []string{"/", "%"} // a modulo of an order-dependent float sum is not reproducible to the last bit
			}
			inner := &gen.Metric{Kind: "binop", Op: rapid.SampledFrom(ops).Draw(t, label+"-op"), L: side,
				R: &gen.Metric{Kind: "literal", Value: lit.v, ValueText: lit.text}, Parens: 1}
			return inner
		}
		if rapid.Bool().Draw(t, "nested-left") {
			m.L = wrap(m.L, "nl")
		} else {
			m.R = wrap(m.R, "nr")
		}
		if rapid.IntRange(0, 2).Draw(t, "nested-both") == 0 {
			m.L, m.R = wrap(m.L, "nl2"), wrap(m.R, "nr2")
		}
	}
	// Unwrap is needed for sum/max_over_time sides.
	for _, side := range []*gen.Metric{m.L, m.R} {
		for _, rg := range model.Ranges(side) {
			if (rg.Op == "sum_over_time" || rg.Op == "max_over_time") && rg.Unwrap == nil {
				rg.Unwrap = &gen.Unwrap{Label: "val"}
			}
		}
	}
	c.Recs = d.Recs
	c.M = *m
	c.Text = gen.PrintMetric(m, datagen.RapidLayout{T: t})
	if rapid.IntRange(0, 3).Draw(t, "instant") == 0 {
		g := datagen.GenGrid(t, c.Recs, 10)
		steps := g.Steps()
		at := steps[len(steps)/2]
		c.Params = model.Params{Start: at, End: at, Step: 0, Limit: -1}
	} else {
		c.Params = datagen.GenGrid(t, c.Recs, 20)
	}
	c.Caps = mockstore.Caps{Label: rapid.IntRange(0, 15).Draw(t, "caps-label"), Line: rapid.IntRange(0, 15).Draw(t, "caps-line")}
	// A scalar that is exactly the value of some series at some step: the boundary of every
	// comparison (and a zero remainder / unit quotient for the arithmetic operators).
	if lit, vec := litAndVector(m); lit != nil && rapid.Bool().Draw(t, "scalar-hits-a-value") {
		ev := model.NewEvaluator(sortedRecs(c.Recs))
		var hits []float64
		for _, at := range c.Params.Steps() {
			if v, err := ev.At(vec, at); err == nil {
				for _, smp := range v.Vec {
					if smp.V == math.Trunc(smp.V) && smp.V >= 0 && smp.V < 1e9 && smp.E == 0 {
						hits = append(hits, smp.V)
					}
				}
			}
		}
		if len(hits) > 0 {
			v := hits[rapid.IntRange(0, len(hits)-1).Draw(t, "hit")]
			lit.Value, lit.ValueText = v, strconv.FormatInt(int64(v), 10)
			c.M = *m
			c.Text = gen.PrintMetric(m, datagen.RapidLayout{T: t})
		}
	}
	return c
}

// litAndVector returns the literal and the vector operand of a vector-scalar operation.
func litAndVector(m *gen.Metric) (lit, vec *gen.Metric) {
	switch {
	case m.L.Kind == "literal" && m.R.Kind != "literal":
		return m.L, m.R
	case m.R.Kind == "literal" && m.L.Kind != "literal":
		return m.R, m.L
	}
	return nil, nil
}

func sortStringsT(s []string) {
	for i := 1; i < len(s); i++ {
		for j := i; j > 0 && s[j-1] > s[j]; j-- {
			s[j-1], s[j] = s[j], s[j-1]
		}
	}
}

// TestC12 decides C12.
func TestC12(t *testing.T) {
	evid.Run(t, "C12", c12Gen, c12Check)
}

// C12DockerCase: a binary operation between two selections over the Docker backend. Each side is
// also evaluated as a query of its own; the operation has to be their pointwise combination.
type C12DockerCase struct {
	Ctrs    [][]int64 `json:"ctrs"` // per container: offsets of its lines from the base, odd milliseconds
	SelL    string    `json:"sel_l"`
	SelR    string    `json:"sel_r"`
	Op      string    `json:"op"`
	RangeMs int64     `json:"range_ms"`
	StepMs  int64     `json:"step_ms"`
	Steps   int       `json:"steps"`
	ByL     string    `json:"by_l"` // grouping of the left side ("container" or "")
	ByR     string    `json:"by_r"`
	// TailL / TailR, when set, is a scalar operation applied to the side ("/ 0" makes every value
	// of it NaN: under and / or / unless a NaN is a value like any other, the label set decides).
	TailL string `json:"tail_l,omitempty"`
	TailR string `json:"tail_r,omitempty"`
}

func c12DockerCheck(c C12DockerCase) (r evid.Result) {
	const base = int64(1700000000e9)
	build := func() *fakedocker.Daemon {
		d := &fakedocker.Daemon{}
		for i, offs := range c.Ctrs {
			var lines []dl.Line
			for j, o := range offs {
				lines = append(lines, dl.Line{TS: base + o*1e6, Msg: fmt.Sprintf("c%d line %d", i, j)})
			}
			d.Containers = append(d.Containers, dl.Ctr(fmt.Sprintf("id%d", i), fmt.Sprintf("c%d", i), map[string]string{"parity": []string{"even", "odd"}[i%2]}, lines))
		}
		return d
	}
	side := func(sel, by string) string {
		q := fmt.Sprintf("count_over_time(%s[%dms])", sel, c.RangeMs)
		if by == "" {
			return "sum(" + q + ")"
		}
		return "sum by (" + by + ") (" + q + ")"
	}
	p := dl.Params{Start: base, End: base + int64(c.Steps)*c.StepMs*1e6, Step: c.StepMs * 1e6, Limit: -1}
	eval := func(q string) (map[string]map[int64]float64, *evid.Violation) {
		d := build()
		data, err := dl.Eval(d, q, p)
		d.Done()
		if err != nil {
			return nil, evid.Viol("C12/docker-eval-error", "query %s failed: %v", q, err)
		}
		m, err := canon.MetricOf(data)
		if err != nil {
			return nil, evid.Viol("C12/docker-result", "%s: %v", q, err)
		}
		pm, _, dups := canon.PointMap(m)
		if len(dups) > 0 {
			return nil, evid.Viol("C12/docker-duplicate", "%s: %v", q, dups)
		}
		return pm, nil
	}
	lq, rq := side(c.SelL, c.ByL), side(c.SelR, c.ByR)
	if c.TailL != "" {
		lq = "(" + lq + " " + c.TailL + ")"
	}
	if c.TailR != "" {
		rq = "(" + rq + " " + c.TailR + ")"
	}
	r.Class(c.TailL == "/ 0" || c.TailR == "/ 0" || c.TailL == "% 0" || c.TailR == "% 0", "a-side-is-NaN")
	whole := lq + " " + c.Op + " " + rq
	L, v := eval(lq)
	if v != nil {
		r.Violation = v
		return r
	}
	R, v := eval(rq)
	if v != nil {
		r.Violation = v
		return r
	}
	got, v := eval(whole)
	if v != nil {
		r.Violation = v
		return r
	}
	r.Evals = 3
	want := map[string]map[int64]float64{}
	keys := map[string]bool{}
	for k := range L {
		keys[k] = true
	}
	for k := range R {
		keys[k] = true
	}
	differ := false
	for k := range keys {
		for t := 0; t <= c.Steps; t++ {
			ts := (base + int64(t)*c.StepMs*1e6) / 1e6
			lv, lok := L[k][ts]
			rv, rok := R[k][ts]
			differ = differ || lok != rok
			res := c13Apply(c.Op, optVal{ok: lok, v: lv}, optVal{ok: rok, v: rv})
			if res.ok {
				if want[k] == nil {
					want[k] = map[int64]float64{}
				}
				want[k][ts] = res.v
			}
		}
	}
	r.Class(c.SelL != c.SelR, "two-different-selections")
	r.Class(differ, "a-side-is-missing-somewhere")
	r.NonTrivial = c.SelL != c.SelR && len(L) > 0 && len(R) > 0
	if diff := canon.DiffPointMaps(got, want); diff != "" {
		r.Violation = evid.Viol("C12/docker-not-pointwise", "%s over %d containers (line offsets in ms %v, step %dms x %d) is not the pointwise combination of its sides evaluated alone: %s", whole, len(c.Ctrs), c.Ctrs, c.StepMs, c.Steps, diff)
	}
	return r
}

func c12DockerGen(t *rapid.T) C12DockerCase {
	var c C12DockerCase
	n := rapid.IntRange(1, 5).Draw(t, "containers")
	for i := 0; i < n; i++ {
		m := rapid.IntRange(0, 6).Draw(t, "lines")
		span := rapid.SampledFrom([]int64{10, 40, 120}).Draw(t, "span")
		offs := make([]int64, m)
		for j := range offs {
			offs[j] = rapid.Int64Range(0, span).Draw(t, "off")*2 + 1
		}
		sort.Slice(offs, func(a, b int) bool { return offs[a] < offs[b] })
		c.Ctrs = append(c.Ctrs, offs)
	}
	sels := []string{`{}`, `{container="c0"}`, `{container="c1"}`, `{container=~"c[12]"}`, `{container!="c0"}`, `{parity="even"}`, `{parity="odd"}`, `{nosuch="x"}`}
	c.SelL = rapid.SampledFrom(sels).Draw(t, "sel-l")
	c.SelR = rapid.SampledFrom(sels).Draw(t, "sel-r")
	c.Op = rapid.SampledFrom([]string{"+", "-", "/", "*", ">", "<=", "==", "and", "or", "unless", "and", "unless"}).Draw(t, "op")
	c.RangeMs = rapid.SampledFrom([]int64{2, 10, 20, 100}).Draw(t, "range")
	c.StepMs = rapid.SampledFrom([]int64{2, 4, 10, 20, 50}).Draw(t, "step")
	c.Steps = rapid.IntRange(0, 30).Draw(t, "steps")
	by := rapid.SampledFrom([]string{"container", "container", "parity", ""}).Draw(t, "by")
	c.ByL, c.ByR = by, by
	tails := []string{"", "", "", "/ 0", "% 0", "* 0", "- 1"}
	c.TailL = rapid.SampledFrom(tails).Draw(t, "tail-l")
	c.TailR = rapid.SampledFrom(tails).Draw(t, "tail-r")
	return c
}

// TestC12Docker decides C12's vector-vector sentences over the Docker backend, where the two
// sides are two selections resolved by one Querier.
func TestC12Docker(t *testing.T) {
	evid.Run(t, "C12", c12DockerGen, c12DockerCheck)
}
