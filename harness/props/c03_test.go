package props

import (
	"bytes"
	"encoding/binary"
	"encoding/json"
	"fmt"
	"os"
	"path/filepath"
	"strings"
	"testing"
	"time"

	"go.opentelemetry.io/collector/pdata/pcommon"
	"pgregory.net/rapid"

	"github.com/tdakkota/docker-logql/internal/dockerlog"
	"github.com/tdakkota/docker-logql/internal/logstorage"
	"github.com/tdakkota/docker-logql/internal/otelstorage"
	"github.com/tdakkota/docker-logql/verifharness/canon"
	"github.com/tdakkota/docker-logql/verifharness/dl"
	"github.com/tdakkota/docker-logql/verifharness/evid"
	"github.com/tdakkota/docker-logql/verifharness/fakedocker"
	"github.com/tdakkota/docker-logql/verifharness/gen"
)

// C03Rec is one generated log record.
type C03Rec struct {
	Typ   byte   `json:"typ"`
	TS    int64  `json:"ts"`     // unix nanoseconds
	TSFmt int    `json:"ts_fmt"` // 0 RFC3339Nano UTC, 1 fixed 9-digit fraction, 2 numeric zone
	Msg   gen.BS `json:"msg"`
	Rep   int    `json:"rep,omitempty"` // message = Msg repeated Rep+1 times (large frames)
}

func (r C03Rec) message() []byte {
	return bytes.Repeat([]byte(r.Msg), r.Rep+1)
}

// C03Case is one case of property C03.
type C03Case struct {
	Recs []C03Rec `json:"recs,omitempty"`
	// Raw, when set, is served instead of the encoding of Recs (fuzz-originated cases).
	Raw  gen.BS `json:"raw,omitempty"`
	Frag []int  `json:"frag"`
	// Fault: "" | truncate-all | truncate | badts | nosep | syserr | ioerr
	Fault string `json:"fault,omitempty"`
	// Pos selects the frame (corrupt frame faults) or the byte offset (truncate, ioerr).
	Pos int `json:"pos,omitempty"`
	// ts-mutated: byte MutPos (mod length) of the frame's timestamp text is replaced by MutCh.
	MutPos int  `json:"mut_pos,omitempty"`
	MutCh  byte `json:"mut_ch,omitempty"`
	// Others is the number of other, well-formed containers read by the same query in the
	// end-to-end pass (0: the stream is read alone; more: it is one input of the merge).
	Others int `json:"others,omitempty"`
	// EndUnexpected: the transport ends the stream with io.ErrUnexpectedEOF instead of io.EOF
	// (a connection that went away, as net/http reports it). Where the stream is cut decides,
	// not how the transport words it.
	EndUnexpected bool `json:"end_unexpected,omitempty"`
}

// c03EndUnexpected is set by the check around its calls (a test binary decides one case at a time).
var c03EndUnexpected bool

func c03FormatTS(ts int64, f int) string {
	t := time.Unix(0, ts).UTC()
	switch f {
	case 1:
		return t.Format("2006-01-02T15:04:05.000000000Z07:00")
	case 2:
		zone := time.FixedZone("", 3*3600+30*60)
		return t.In(zone).Format(time.RFC3339Nano)
	default:
		return t.Format(time.RFC3339Nano)
	}
}

type c03Ref struct {
	ts   int64
	body string
}

// c03RefDecode is the slice-based reference decoder written from the property statement.
// errAt >= 0 means the transport fails once errAt bytes were delivered.
func c03RefDecode(data []byte, errAt int) (recs []c03Ref, wantErr bool) {
	limit := len(data)
	broken := false
	if errAt >= 0 && errAt <= len(data) {
		limit = errAt
		broken = true
	}
	pos := 0
	for {
		if limit-pos < 8 {
			// Cut inside (or exactly before) a frame header: clean end, unless the transport
			// itself reported a failure.
			return recs, broken
		}
		size := int(binary.BigEndian.Uint32(data[pos+4 : pos+8]))
		typ := data[pos]
		pos += 8
		if limit-pos < size {
			return recs, true // cut inside a frame body
		}
		payload := data[pos : pos+size]
		pos += size
		if typ == fakedocker.Systemerr {
			return recs, true
		}
		sp := bytes.IndexByte(payload, ' ')
		if sp < 0 {
			return recs, true
		}
		ts, err := time.Parse(time.RFC3339Nano, string(payload[:sp]))
		if err != nil {
			return recs, true
		}
		recs = append(recs, c03Ref{ts: ts.UnixNano(), body: string(payload[sp+1:])})
	}
}

func c03Encode(c C03Case) (stream []byte, frameStarts []int) {
	for i, r := range c.Recs {
		frameStarts = append(frameStarts, len(stream))
		ts := c03FormatTS(r.TS, r.TSFmt)
		msg := r.message()
		corrupt := c.Fault != "" && len(c.Recs) > 0 && i == c.Pos%len(c.Recs)
		switch {
		case corrupt && c.Fault == "badts":
			stream = append(stream, fakedocker.EncodeRecord(r.Typ, "2024-13-45Tnot-a-time", msg)...)
		case corrupt && c.Fault == "ts-mutated":
			b := []byte(ts)
			b[c.MutPos%len(b)] = c.MutCh
			stream = append(stream, fakedocker.EncodeRecord(r.Typ, string(b), msg)...)
		case corrupt && c.Fault == "nosep":
			stream = append(stream, fakedocker.EncodeFrame(r.Typ, []byte(strings.ReplaceAll(ts+string(msg), " ", "_")))...)
		case corrupt && c.Fault == "syserr":
			stream = append(stream, fakedocker.EncodeFrame(fakedocker.Systemerr, []byte("daemon: boom"))...)
		case corrupt && c.Fault == "empty-frame":
			// A frame with an empty payload: no timestamp, no separator (or an empty daemon error).
			stream = append(stream, fakedocker.EncodeFrame([]byte{1, 2, 3}[c.Pos%3], nil)...)
		case corrupt && c.Fault == "ts-only":
			stream = append(stream, fakedocker.EncodeFrame(r.Typ, []byte(ts))...)
		default:
			stream = append(stream, fakedocker.EncodeRecord(r.Typ, ts, msg)...)
		}
	}
	return stream, frameStarts
}

// c03Reread is set by c03RunOnce when reading on after the end changed the outcome.
var c03Reread string

func c03RunOnce(stream []byte, frag []int, errAt int) (recs []c03Ref, err error, closed bool) {
	c03Reread = ""
	rd, d := fakedocker.NewReaderEnding(stream, frag, errAt, c03EndUnexpected)
	it := dockerlog.ParseLog(rd, otelstorage.Attrs(pcommon.NewMap()))
	var r logstorage.Record
	for it.Next(&r) {
		recs = append(recs, c03Ref{ts: int64(r.Timestamp), body: r.Body})
		if r.ObservedTimestamp != r.Timestamp {
			return recs, fmt.Errorf("harness: observed timestamp %d != timestamp %d", r.ObservedTimestamp, r.Timestamp), false
		}
		if len(recs) > len(stream)+8 {
			break // cannot happen with a terminating decoder
		}
	}
	err = it.Err()
	// A consumer may ask again after the end (the window of every later step of a metric query
	// does): nothing more comes, and what ended the stream is still what Err reports.
	for k := 0; k < 2; k++ {
		if it.Next(&r) {
			c03Reread = fmt.Sprintf("Next returned a record (%d, %q) after it had returned false (Err was %v)", int64(r.Timestamp), trunc(r.Body), err)
			break
		}
		if err2 := it.Err(); (err2 == nil) != (err == nil) {
			c03Reread = fmt.Sprintf("Err changed from %v to %v when Next was called again after the end", err, err2)
			break
		}
	}
	_ = it.Close()
	rep := d.Done()
	return recs, err, rep.Closed == 1
}

func c03Compare(stream []byte, frag []int, errAt int, what string) *evid.Violation {
	want, wantErr := c03RefDecode(stream, errAt)
	got, err, closed := c03RunOnce(stream, frag, errAt)
	if c03Reread != "" {
		return evid.Viol("C03/not-sticky", "%s: %s", what, c03Reread)
	}
	for i := 0; i < len(got) && i < len(want); i++ {
		if got[i].ts != want[i].ts {
			return evid.Viol("C03/timestamp", "%s: record %d timestamp %d, want %d", what, i, got[i].ts, want[i].ts)
		}
		if got[i].body != want[i].body {
			return evid.Viol("C03/body", "%s: record %d body %q, want %q", what, i, trunc(got[i].body), trunc(want[i].body))
		}
	}
	if len(got) < len(want) {
		return evid.Viol("C03/lost-records", "%s: decoded %d records, want %d (err=%v)", what, len(got), len(want), err)
	}
	if len(got) > len(want) {
		return evid.Viol("C03/extra-records", "%s: decoded %d records, want %d; first extra %q", what, len(got), len(want), trunc(got[len(want)].body))
	}
	if wantErr && err == nil {
		return evid.Viol("C03/error-swallowed", "%s: stream must be reported as an error, got a clean end after %d records", what, len(got))
	}
	if !wantErr && err != nil {
		return evid.Viol("C03/spurious-error", "%s: stream must end cleanly after %d records, got error %v", what, len(want), err)
	}
	if !closed {
		return evid.Viol("C03/close", "%s: Close did not close the underlying reader", what)
	}
	return nil
}

// c03E2E is the second observation point of the statement: the same stream served by a fake
// daemon as the log of one container (alone or next to others) and read by a log query through
// the real Querier and engine. A stream that must be reported makes the query fail; any other one
// contributes exactly its records.
func c03E2E(stream []byte, frag []int, errAt int, others int, what string) *evid.Violation {
	want, wantErr := c03RefDecode(stream, errAt)
	d := &fakedocker.Daemon{EndUnexpected: c03EndUnexpected}
	ct := dl.Ctr("id0", "c0", nil, nil)
	ct.Log, ct.Frag, ct.ReadErrAt = stream, frag, errAt
	d.Containers = append(d.Containers, ct)
	const otherTS = int64(1700000000e9)
	for i := 1; i <= others; i++ {
		d.Containers = append(d.Containers, dl.Ctr(fmt.Sprintf("id%d", i), fmt.Sprintf("c%d", i), nil, []dl.Line{{TS: otherTS + int64(i), Msg: fmt.Sprintf("other container %d", i)}}))
	}
	// The query window covers every generated instant; a record that a mutated timestamp moved
	// out of it is not looked at (whether it is returned is a matter of the window, C02).
	const winLo, winHi = int64(946684800e9), int64(7289654400e9)
	inWindow := func(ts int64) bool { return ts > winLo && ts < winHi }
	data, err := dl.Eval(d, "{}", dl.Params{Start: winLo, End: winHi, Step: 1e9, Limit: -1})
	d.Done()
	what = fmt.Sprintf("%s, read by {} next to %d other containers", what, others)
	if wantErr {
		if err == nil {
			return evid.Viol("C03/e2e-error-swallowed", "%s: the stream must be reported as an error, the query succeeded", what)
		}
		return nil
	}
	if err != nil {
		return evid.Viol("C03/e2e-spurious-error", "%s: the stream ends cleanly after %d records, the query failed: %v", what, len(want), err)
	}
	streams, err := canon.Streams(data)
	if err != nil {
		return evid.Viol("C03/e2e-result", "%s: %v", what, err)
	}
	got := map[string]int{}
	n := 0
	for _, e := range canon.Flatten(streams) {
		if e.Labels["container_id"] != "id0" || !inWindow(int64(e.TS)) {
			continue
		}
		got[fmt.Sprintf("%d %q", e.TS, e.Line)]++
		n++
	}
	nWant := 0
	for _, w := range want {
		if !inWindow(w.ts) {
			continue
		}
		nWant++
		k := fmt.Sprintf("%d %q", w.ts, w.body)
		if got[k] == 0 {
			return evid.Viol("C03/e2e-records", "%s: record (%d, %q) of the stream is not in the result (%d of %d records returned)", what, w.ts, trunc(w.body), n, len(want))
		}
		got[k]--
	}
	if n != nWant {
		return evid.Viol("C03/e2e-records", "%s: the result has %d records of the container, the stream holds %d", what, n, nWant)
	}
	return nil
}

func trunc(s string) string {
	if len(s) > 120 {
		return s[:120] + "…"
	}
	return s
}

func c03Check(c C03Case) (r evid.Result) {
	var (
		stream []byte
		starts []int
	)
	if c.Raw != "" {
		stream = []byte(c.Raw)
		r.Class(true, "raw")
	} else {
		stream, starts = c03Encode(c)
	}
	_ = starts
	c03EndUnexpected = c.EndUnexpected
	defer func() { c03EndUnexpected = false }()
	r.Class(c.EndUnexpected, "ends-with-unexpected-EOF")
	r.Class(true, "fault="+c.Fault)
	r.Class(len(c.Recs) >= 2, "recs>=2")
	r.Class(len(stream) > 65536, "stream>64KiB")
	splits := false
	for _, f := range c.Frag {
		if f > 0 && f < 9 {
			splits = true
		}
	}
	r.Class(splits, "frag-splits-header")
	r.Class(len(c.Frag) == 0, "frag-none")
	r.Class(c.Fault != "truncate-all", fmt.Sprintf("e2e-next-to-%d-others", c.Others))
	r.NonTrivial = (len(c.Recs) >= 2 && len(c.Frag) > 0) || c.Fault != "" || c.Raw != ""

	switch c.Fault {
	case "truncate-all":
		// Every truncation point of the stream (all of them up to 1500 bytes, otherwise every
		// offset inside the first and last 600 bytes plus every frame boundary +-9).
		offsets := map[int]bool{}
		if len(stream) <= 1500 {
			for t := 0; t <= len(stream); t++ {
				offsets[t] = true
			}
		} else {
			// (a stream of megabytes is decoded once per offset: fewer of them)
			edge, around := 600, 9
			if len(stream) > 256<<10 {
				edge, around = 24, 2
			}
			for t := 0; t <= edge; t++ {
				offsets[t] = true
				offsets[len(stream)-t] = true
			}
			for _, s := range starts {
				for dlt := -around; dlt <= around; dlt++ {
					if t := s + dlt; t >= 0 && t <= len(stream) {
						offsets[t] = true
					}
				}
			}
		}
		for t := range offsets {
			if v := c03Compare(stream[:t], c.Frag, -1, fmt.Sprintf("stream truncated at byte %d of %d", t, len(stream))); v != nil {
				r.Violation = v
				r.Evals = len(offsets)
				return r
			}
		}
		r.Evals = len(offsets)
		return r
	case "truncate":
		t := 0
		if len(stream) > 0 {
			t = c.Pos % (len(stream) + 1)
		}
		r.Violation = c03Compare(stream[:t], c.Frag, -1, fmt.Sprintf("stream truncated at byte %d of %d", t, len(stream)))
		if r.Violation == nil {
			r.Violation = c03E2E(stream[:t], c.Frag, -1, c.Others, fmt.Sprintf("stream truncated at byte %d of %d", t, len(stream)))
		}
		return r
	case "ioerr":
		t := 0
		if len(stream) > 0 {
			t = c.Pos % (len(stream) + 1)
		}
		r.Violation = c03Compare(stream, c.Frag, t, fmt.Sprintf("read error after byte %d of %d", t, len(stream)))
		if r.Violation == nil {
			r.Violation = c03E2E(stream, c.Frag, t, c.Others, fmt.Sprintf("read error after byte %d of %d", t, len(stream)))
		}
		return r
	default:
		r.Violation = c03Compare(stream, c.Frag, -1, "stream with fault "+c.Fault)
		if r.Violation == nil {
			r.Violation = c03E2E(stream, c.Frag, -1, c.Others, "stream with fault "+c.Fault)
		}
		if r.Violation == nil && c.Fault == "" && c.Raw == "" {
			// Round trip: un-faulted streams decode into exactly the generated records.
			got, _, _ := c03RunOnce(stream, c.Frag, -1)
			if len(got) != len(c.Recs) {
				r.Violation = evid.Viol("C03/roundtrip-count", "decoded %d records, generated %d", len(got), len(c.Recs))
				return r
			}
			for i, rec := range c.Recs {
				if got[i].ts != rec.TS || got[i].body != string(rec.message()) {
					r.Violation = evid.Viol("C03/roundtrip", "record %d decoded as (%d,%q), generated (%d,%q)", i, got[i].ts, trunc(got[i].body), rec.TS, trunc(string(rec.message())))
					return r
				}
			}
		}
		return r
	}
}

func c03GenMsg(t *rapid.T) (gen.BS, int) {
	switch rapid.IntRange(0, 10).Draw(t, "msgkind") {
	case 10:
		// Sizes at and around the daemon's and the usual buffer sizes (16 KiB is where dockerd
		// splits long lines, 4 KiB / 64 KiB are common read buffers), with and without a final
		// line break. Rep+1 copies of a chunk whose length divides the size.
		size := rapid.SampledFrom([]int{16384, 16384, 16383, 16385, 4096, 4095, 32768, 65536, 65535, 8192,
			// ... and the sizes somebody may pick as "more than a frame can be": a record is as long as its header says
			1 << 20}).Draw(t, "boundary-size")
		if size == 1<<20 {
			// (rarely: such a record costs as much as a thousand ordinary cases)
			if rapid.IntRange(0, 3).Draw(t, "megabyte") == 0 {
				size = rapid.SampledFrom([]int{1 << 20, 1<<20 + 1, 1<<20 - 40, 2<<20 + 3}).Draw(t, "megabyte-size")
			} else {
				size = 16384
			}
		}
		nl := rapid.Bool().Draw(t, "boundary-newline")
		for _, chunk := range []int{64, 32, 16, 8, 5, 3, 1} {
			if size%chunk == 0 {
				b := bytes.Repeat([]byte("x"), chunk)
				if nl && chunk == size {
					b[chunk-1] = '\n'
				}
				if nl && chunk < size {
					// the final line break replaces the last byte of the last copy: emit one long chunk
					whole := bytes.Repeat([]byte("y"), size)
					whole[size-1] = '\n'
					return gen.BS(whole), 0
				}
				return gen.BS(b), size/chunk - 1
			}
		}
		return "", 0
	case 0:
		return "", 0
	case 1:
		return gen.BS(rapid.SampledFrom([]string{" ", "  leading", "trailing \n", "a b c", "\n", "x\r\n", "tab\there"}).Draw(t, "ws")), 0
	case 2:
		b := rapid.SliceOfN(rapid.Byte(), 0, 24).Draw(t, "bytes")
		return gen.BS(b), 0
	case 3:
		// Large frame: > 64 KiB once in a while.
		chunk := rapid.StringMatching(`[a-z ]{16,64}`).Draw(t, "chunk")
		rep := rapid.IntRange(1, 70000/len(chunk)+50).Draw(t, "rep")
		return gen.BS(chunk), rep
	case 4:
		return gen.BS(rapid.SampledFrom([]string{"\x00", "\xff\xfe", "é世界", "\x01\x00\x00\x00\x00\x00\x00\x05", "2024-01-01T00:00:00Z fake"}).Draw(t, "hostile")), 0
	default:
		return gen.BS(rapid.StringMatching(`[ -~]{0,40}`).Draw(t, "text")), 0
	}
}

func c03GenTS(t *rapid.T) int64 {
	// 2001-01-01 .. 2200-01-01
	const lo, hi = int64(978307200), int64(7258118400)
	sec := rapid.Int64Range(lo, hi).Draw(t, "sec")
	var ns int64
	switch rapid.IntRange(0, 3).Draw(t, "nskind") {
	case 0:
		ns = 0
	case 1:
		ns = rapid.Int64Range(0, 999).Draw(t, "ms") * 1e6
	case 2:
		ns = rapid.SampledFrom([]int64{1, 999999999, 100000000, 120000000, 500}).Draw(t, "nsedge")
	default:
		ns = rapid.Int64Range(0, 999999999).Draw(t, "ns")
	}
	return sec*1e9 + ns
}

func genFrag(t *rapid.T) []int {
	switch rapid.IntRange(0, 5).Draw(t, "fragkind") {
	case 0:
		return nil
	case 1:
		return []int{1}
	case 2:
		return []int{rapid.IntRange(1, 12).Draw(t, "fragsize")}
	default:
		return rapid.SliceOfN(rapid.SampledFrom([]int{0, 1, 2, 3, 5, 7, 8, 9, 13, 64, 4096, -1}), 1, 6).Draw(t, "frag")
	}
}

func c03Gen(t *rapid.T) C03Case {
	var c C03Case
	n := rapid.IntRange(0, 12).Draw(t, "nrecs")
	if rapid.IntRange(0, 9).Draw(t, "long") == 0 {
		n = rapid.IntRange(12, 40).Draw(t, "nrecs-long")
	}
	// A real log is written in sequence: half of the streams advance by small gaps (records in
	// the same second, the same millisecond, the same nanosecond) in one timestamp spelling.
	sequential := rapid.Bool().Draw(t, "sequential")
	seqFmt := rapid.SampledFrom([]int{1, 1, 1, 0, 2}).Draw(t, "seqfmt") // the daemon writes the fixed-width form
	var prev int64
	for i := 0; i < n; i++ {
		msg, rep := c03GenMsg(t)
		ts, tsfmt := c03GenTS(t), rapid.IntRange(0, 2).Draw(t, "tsfmt")
		if sequential && i > 0 {
			ts = prev + rapid.SampledFrom([]int64{0, 1, 1000, 1e6, 5e6, 1e8, 1e9, 3e9}).Draw(t, "gap")
			if rapid.IntRange(0, 3).Draw(t, "seq-same-fmt") != 0 {
				tsfmt = seqFmt
			}
		}
		prev = ts
		c.Recs = append(c.Recs, C03Rec{
			Typ:   rapid.SampledFrom([]byte{1, 1, 2, 2, 0}).Draw(t, "typ"),
			TS:    ts,
			TSFmt: tsfmt,
			Msg:   msg,
			Rep:   rep,
		})
	}
	c.Frag = genFrag(t)
	c.Fault = rapid.SampledFrom([]string{"", "", "", "truncate-all", "truncate", "badts", "nosep", "syserr", "ioerr", "empty-frame", "ts-only", "ts-mutated", "ts-mutated"}).Draw(t, "fault")
	if c.Fault == "ts-mutated" {
		// One character of a well-formed timestamp replaced: a sign or a letter in place of a
		// digit, a wrong separator, another digit (then the timestamp is just a different one).
		c.MutPos = rapid.IntRange(0, 40).Draw(t, "mutpos")
		c.MutCh = rapid.SampledFrom([]byte("+-+-.:TZz0159a_/")).Draw(t, "mutch")
		if rapid.IntRange(0, 2).Draw(t, "mut-sign") == 0 {
			// A sign in the first position of a numeric field (integer parsers accept one).
			c.MutPos = rapid.SampledFrom([]int{0, 5, 8, 11, 14, 17, 20, 20}).Draw(t, "mut-field")
			c.MutCh = rapid.SampledFrom([]byte("+-")).Draw(t, "mut-signch")
		}
	}
	if n == 0 && (c.Fault == "ts-mutated" || c.Fault == "badts" || c.Fault == "nosep" || c.Fault == "syserr" || c.Fault == "empty-frame" || c.Fault == "ts-only") {
		c.Fault = ""
	}
	if c.Fault != "" && c.Fault != "truncate-all" {
		c.Pos = rapid.IntRange(0, 1<<20).Draw(t, "pos")
		// The broken frame is often the very first one.
		if rapid.IntRange(0, 3).Draw(t, "fault-in-first-frame") == 0 {
			c.Pos = 0
		}
	}
	c.Others = rapid.SampledFrom([]int{0, 0, 1, 2, 3}).Draw(t, "others")
	c.EndUnexpected = rapid.IntRange(0, 3).Draw(t, "ends-with-unexpected-eof") == 0
	return c
}

// TestC03 decides C03.
func TestC03(t *testing.T) {
	evid.Run(t, "C03", c03Gen, c03Check)
}

// FuzzC03 is the byte-level differential fuzz target: arbitrary bytes, a fragmentation plan
// derived from fragSeed and an optional transport error offset, decoded by ParseLog and by
// the reference decoder.
func FuzzC03(f *testing.F) {
	if data, err := os.ReadFile("/repo/internal/dockerlog/_testdata/dockerlog.bin"); err == nil {
		f.Add(data, uint64(0), -1)
		f.Add(data, uint64(0x0103), 700)
	}
	good := fakedocker.EncodeRecord(1, "2024-02-11T09:37:32.033031260Z", []byte("hello world\n"))
	f.Add(good, uint64(1), -1)
	f.Add(append(append([]byte{}, good...), good[:5]...), uint64(3), -1)
	f.Add(append(append([]byte{}, good...), good[:20]...), uint64(2), -1)
	f.Add(fakedocker.EncodeFrame(3, []byte("error from daemon")), uint64(0), -1)
	f.Add(append(fakedocker.EncodeFrame(3, nil), good...), uint64(0), -1)
	f.Add(append(append([]byte{}, good...), fakedocker.EncodeFrame(1, nil)...), uint64(5), -1)
	f.Add(fakedocker.EncodeFrame(2, []byte("no-space-here")), uint64(0), -1)
	f.Add(fakedocker.EncodeFrame(1, []byte("2024-02-30T00:00:00Z bad date")), uint64(0), -1)
	f.Add([]byte{1, 0, 0, 0, 0xff, 0xff, 0xff, 0xff, 'x'}, uint64(0), -1)
	f.Add(fakedocker.EncodeRecord(1, "2024-02-11T09:37:32+03:30", nil), uint64(9), 3)
	f.Fuzz(func(t *testing.T, data []byte, fragSeed uint64, errAt int) {
		if len(data) > 1<<20 {
			return
		}
		// Frames announcing more than 16 MiB are only meaningful with that much data.
		var frag []int
		for s := fragSeed; s != 0 && len(frag) < 8; s >>= 8 {
			frag = append(frag, int(s&0xff)%17)
		}
		if errAt < -1 || errAt > len(data) {
			errAt = -1
		}
		if v := c03Compare(data, frag, errAt, "fuzz input"); v != nil {
			c := C03Case{Raw: gen.BS(data), Frag: frag}
			if errAt >= 0 {
				c.Fault, c.Pos = "ioerr", errAt
			}
			path := saveFuzzReplay("C03", c)
			t.Fatalf("VERIF-REPLAY %s\nviolation [%s]: %s", path, v.Sig, v.Msg)
		}
	})
}

func saveFuzzReplay(prop string, c any) string {
	data, _ := json.Marshal(c)
	dir := os.Getenv("VERIF_REPLAYS")
	if dir == "" {
		dir = os.TempDir()
	}
	dir = filepath.Join(dir, prop)
	_ = os.MkdirAll(dir, 0o755)
	path := filepath.Join(dir, fmt.Sprintf("fuzz-%x.json", hashBytes(data)))
	_ = os.WriteFile(path, data, 0o644)
	return path
}

func hashBytes(b []byte) uint64 {
	var h uint64 = 14695981039346656037
	for _, c := range b {
		h ^= uint64(c)
		h *= 1099511628211
	}
	return h
}
