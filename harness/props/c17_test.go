package props

import (
	"fmt"
	"os"
	"regexp"
	"strings"
	"testing"
	"time"

	"pgregory.net/rapid"

	"github.com/tdakkota/docker-logql/internal/logql"
	"github.com/tdakkota/docker-logql/internal/lokiapi"
	"github.com/tdakkota/docker-logql/verifharness/datagen"
	"github.com/tdakkota/docker-logql/verifharness/eng"
	"github.com/tdakkota/docker-logql/verifharness/evid"
	"github.com/tdakkota/docker-logql/verifharness/gen"
	"github.com/tdakkota/docker-logql/verifharness/mockstore"
	"github.com/tdakkota/docker-logql/verifharness/model"
)

// C17Case is one case of property C17.
type C17Case struct {
	Query  gen.BS         `json:"query"`
	Recs   []model.Rec    `json:"recs"`
	Params model.Params   `json:"params"`
	Caps   mockstore.Caps `json:"caps"`
	// Origin: grammar | mutated | bytes | fuzz
	Origin string `json:"origin"`
	// Mistake, when set, names the one mistake the query was written with: evaluation must
	// report an error (second sentence of the statement).
	Mistake string `json:"mistake,omitempty"`
}

const c17Watchdog = 20 * time.Second

type c17Outcome struct {
	data  lokiapi.QueryResponseData
	err   error
	panic any
	calls int
}

func c17Run(c C17Case) (out c17Outcome, hung bool) {
	done := make(chan c17Outcome, 1)
	go func() {
		var o c17Outcome
		defer func() {
			if p := recover(); p != nil {
				o.panic = p
			}
			done <- o
		}()
		store := mockstore.New(c.Recs, c.Caps)
		o.data, o.err = eng.Eval(store, string(c.Query), c.Params)
		o.calls = len(store.Calls)
	}()
	select {
	case o := <-done:
		return o, false
	case <-time.After(c17Watchdog):
		return c17Outcome{}, true
	}
}

func c17Check(c C17Case) (r evid.Result) {
	r.Class(true, "origin="+c.Origin)
	r.Class(c.Params.Instant(), "instant")
	// Evaluation first, under the watchdog: it includes parsing, so a parser that loops is seen
	// here and not by the bare Parse call below.
	out, hung := c17Run(c)
	q := trunc(string(c.Query))
	if hung {
		r.Violation = evid.Viol("C17/hang", "evaluation of %q did not return within %v (params %+v, %d records)", q, c17Watchdog, c.Params, len(c.Recs))
		return r
	}
	var (
		expr logql.Expr
		perr error
	)
	if out.panic == nil {
		expr, perr = logql.Parse(string(c.Query), logql.ParseOptions{})
	}
	r.Class(perr == nil, "parsed")
	if out.panic != nil {
		r.Violation = evid.Viol("C17/panic", "evaluation of %q panicked: %v (params %+v, %d records)", q, out.panic, c.Params, len(c.Recs))
		return r
	}
	if perr != nil && out.err == nil {
		r.Violation = evid.Viol("C17/unparsable-evaluated", "query %q does not parse (%v) but evaluation returned a %s result", q, perr, out.data.Type)
		return r
	}
	if out.err == nil {
		// The result type must match the expression kind.
		want := map[lokiapi.QueryResponseDataType]bool{}
		switch logql.UnparenExpr(expr).(type) {
		case *logql.LogExpr:
			want[lokiapi.StreamsResultQueryResponseData] = true
		case *logql.LiteralExpr:
			want[lokiapi.ScalarResultQueryResponseData] = true
			want[lokiapi.MatrixResultQueryResponseData] = true
		default:
			want[lokiapi.VectorResultQueryResponseData] = true
			want[lokiapi.MatrixResultQueryResponseData] = true
		}
		if !want[out.data.Type] {
			r.Violation = evid.Viol("C17/result-type", "query %q evaluated to a %q result", q, out.data.Type)
			return r
		}
	}
	if c.Mistake != "" && out.err == nil {
		r.Violation = evid.Viol("C17/mistake-not-reported", "query %q contains a mistake (%s) but evaluation returned a %s result without an error", q, c.Mistake, out.data.Type)
		return r
	}
	r.Class(c.Mistake != "", "mistake="+c.Mistake)
	r.Class(out.err != nil, "error")
	r.Class(out.calls > 0, "reached-storage")
	r.NonTrivial = (perr == nil && out.calls > 0 && len(c.Recs) > 0) || (c.Origin == "mutated" && perr == nil)
	return r
}

var c17TokenRe = regexp.MustCompile("`[^`]*`|\"(?:[^\"\\\\]|\\\\.)*\"|[A-Za-z_][A-Za-z0-9_]*|[0-9][0-9a-zA-Z.]*|\\|=|\\|~|!=|!~|=~|==|>=|<=|\\S")

var c17TokenTable = []string{"{", "}", "(", ")", "[", "]", ",", "|", "|=", "!=", "|~", "!~", "=", "=~", "==", ">", "<", "+", "-", "*", "/", "%", "^",
	"and", "or", "unless", "by", "without", "on", "ignoring", "group_left", "bool", "offset", "unwrap", "json", "logfmt", "regexp", "pattern", "unpack",
	"line_format", "label_format", "decolorize", "distinct", "drop", "keep", "ip", "bytes", "duration", "sum", "topk", "sort", "count_over_time", "rate",
	"quantile_over_time", "absent_over_time", "label_replace", "vector", "5m", "1s", "0", "1", "-1", "0.5", "1e308", "5KB",
	// hostile numeric constants
	"9223372036854775807", "9223372036854775808", "4611686018427387904", "18446744073709551616", "1e309", "2147483648", "1000000000000", "100y", "292y", "9223372036854775807ns", "9999999999h", `""`, `"("`, `"{{"`, "`x`", "app", "#"}

func c17Mutate(t *rapid.T, text string, other string) string {
	toks := c17TokenRe.FindAllString(text, -1)
	if len(toks) == 0 {
		return text
	}
	n := rapid.IntRange(1, 3).Draw(t, "nmutations")
	for i := 0; i < n && len(toks) > 0; i++ {
		at := rapid.IntRange(0, len(toks)-1).Draw(t, "mutate-at")
		switch rapid.IntRange(0, 4).Draw(t, "mutation") {
		case 0: // delete
			toks = append(toks[:at], toks[at+1:]...)
		case 1: // duplicate
			toks = append(toks[:at+1], toks[at:]...)
		case 2: // swap with the next one
			if at+1 < len(toks) {
				toks[at], toks[at+1] = toks[at+1], toks[at]
			}
		case 3: // replace
			toks[at] = rapid.SampledFrom(c17TokenTable).Draw(t, "replacement")
		default: // splice with another query
			otoks := c17TokenRe.FindAllString(other, -1)
			if len(otoks) > 0 {
				cut := rapid.IntRange(0, len(otoks)-1).Draw(t, "splice-at")
				toks = append(toks[:at:at], otoks[cut:]...)
			}
		}
	}
	return strings.Join(toks, " ")
}

var c17HostileLines = []string{
	// null in every position a JSON value can take
	"{\"tags\":[\"a\",null,\"b\"]}", "{\"n\":{\"l\":[[null]]}}", "[null]", "{\"a\":[null,{\"b\":null}],\"c\":null}", "null", "{\"a\":[],\"b\":{},\"c\":[{}]}", "{\"a\":[true,false,null,1.5,\"s\",[],{}]}",
	strings.Repeat("[", 5000), strings.Repeat("{\"a\":", 3000), "{\"a\":1e999}", "{\"a\":99999999999999999999999999}", "{\"a\":-0}", "{\"a\":\"\\ud800\"}",
	"{\"a\":1", "{\"\":\"\"}", "{\"a\":{\"a\":{\"a\":{\"a\":[[[[null]]]]}}}}", "a=\"unterminated", "=novalue", "a==b", "\"", "\xff\xfe\x00", strings.Repeat("x", 70000),
	"k=" + strings.Repeat("v", 5000), "{\"_entry\":5}", "{\"_entry\":\"e\",\"bad key\":\"v\"}", "\x1b[", "\x1b[31", "1.2.3.4.5.6", ":::::", "::", "1:", "0.0.0.0/", "{{",
	"NaN", "+Inf", "-5e-324", "9223372036854775808", "val=NaN", "{\"val\":\"Inf\"}",
	// address-like garbage for the ip() line filter
	"listening on [::]:5000", "std::string", "a::", "::", ":::", "1::", "::g", "1.2.3.", "1.1.1.1.", "fe80::1: timeout", "::ffff:1.2.3.4", "1:2:3:4:5:6:7:8:9",
	".", "..", "1..1", "a:b:c", "::::1", "10.0.0.1:8080", "x 999.999.999.999 y", "0:0", "f:", ":f", "1.2.3.4.", "::1::", "dead:beef", "1.", "1.2", "....", "12345.1.1.1",
}

var c17IPLines = c17HostileLines[len(c17HostileLines)-29:]

// c17Mistakes are queries' stages (or selectors) with one mistake each.
var c17Mistakes = []struct{ kind, stage, selector string }{
	// constructs the engine does not implement: vector matching modifiers, with and without labels
	{"unsupported: vector matching", "", "sum by (a) (count_over_time({}[5s])) / on () sum(count_over_time({}[5s]))"},
	{"unsupported: vector matching", "", "sum by (a) (count_over_time({}[5s])) / ignoring () sum by (a) (count_over_time({}[5s]))"},
	{"unsupported: vector matching", "", "sum by (a) (count_over_time({}[5s])) and on () sum(count_over_time({}[5s]))"},
	{"unsupported: vector matching", "", "sum by (a) (count_over_time({}[5s])) > on (a) sum by (a) (count_over_time({}[5s]))"},
	{"unsupported: vector matching", "", "sum by (a) (count_over_time({}[5s])) * on (a) group_left () sum by (a) (count_over_time({}[5s]))"},
	{"unsupported: vector matching", "", "vector(1) + ignoring () vector(2)"},
	// pattern: two captures with nothing between them (named or not), a name used twice (what the
	// parts of such a pattern capture is ambiguous; a pattern without captures or a regexp stage
	// without named groups is merely useless and not listed)
	{"pattern: consecutive captures", "pattern `<a><b>`", ""},
	{"pattern: consecutive captures", "pattern `<_><b>`", ""},
	{"pattern: consecutive captures", "pattern `<a><_>`", ""},
	{"pattern: consecutive captures", "pattern `<_><_>`", ""},
	{"pattern: consecutive captures", "pattern `<m> <_><p> <s>`", ""},
	{"pattern: consecutive captures", "pattern `x <_><_><p>`", ""},
	{"pattern: duplicate capture name", "pattern `<a> <a>`", ""},
	{"pattern: duplicate capture name", "pattern `<a> <_> <a>`", ""},
	// regular expressions that do not compile, wherever one can be written
	{"bad regex", "regexp `(?P<a>`", ""},
	{"bad regex", "regexp `(?P<a>x)(`", ""},
	{"bad regex", "a =~ `(`", ""},
	{"bad regex", "a !~ `[a-`", ""},
	{"bad regex", "", "{a=~`(`}"},
	{"bad regex", "", "{a!~`x{2,1}`}"},
	{"bad regex", "", "{} |~ `(`"},
	{"bad regex", "", "{} !~ `*`"},
	{"regexp stage with a group name used twice", "regexp `(?P<a>x)(?P<a>y)`", ""},
	// templates that do not parse
	{"bad template", "line_format `{{`", ""},
	{"bad template", "line_format `{{ .a | nosuchfunction }}`", ""},
	{"bad template", "label_format a=`{{ end }}`", ""},
	{"bad template", "label_format a=`{{ if }}x{{ end }}`", ""},
	// JSON paths that do not parse
	{"bad JSON path", "json a=`b[`", ""},
	{"bad JSON path", "json a=`[\"x`", ""},
	{"bad JSON path", "json a=`b..c`", ""},
	// ip() with something that is not an address, a range or a prefix
	{"bad ip pattern", "a = ip(`10.0.0.300`)", ""},
	{"bad ip pattern", "", "{} |= ip(`10.0.0.1/33`)"},
	{"bad ip pattern", "", "{} |= ip(`b-a`)"},
}

// c17LongKeyLine draws a JSON, logfmt or packed line with a key of a length at which a fixed-size
// buffer ends (a power of two, one less, one more), starting with a digit (a label name then
// gets a prefix: one byte more), a letter or a character a label name cannot hold - a SHA-256
// digest used as a key is such a key.
func c17LongKeyLine(t *rapid.T, label string) (line, key string) {
	n := rapid.SampledFrom([]int{16, 32, 64, 64, 128, 256, 1024, 4096}).Draw(t, label+"-size") + rapid.IntRange(-1, 1).Draw(t, label+"-delta")
	first := rapid.SampledFrom([]string{"9", "0", "7", "f", "-", "é"}).Draw(t, label+"-first")
	fill := rapid.SampledFrom([]string{"f", "-", "0", "_"}).Draw(t, label+"-fill")
	key = first + strings.Repeat(fill, n-len(first))
	switch rapid.IntRange(0, 3).Draw(t, label+"-form") {
	case 0:
		return key + "=v", key
	case 1:
		return "{\"_entry\":\"e\",\"" + key + "\":\"v\"}", key
	}
	return "{\"" + key + "\":\"v\"}", key
}

func c17GenRecs(t *rapid.T) []model.Rec {
	n := rapid.IntRange(0, 8).Draw(t, "nrecs")
	var recs []model.Rec
	ts := datagen.BaseTS
	for i := 0; i < n; i++ {
		ts += rapid.Int64Range(0, 4).Draw(t, "gap") * 250e6
		r := model.Rec{TS: ts, Labels: map[string]string{}}
		switch rapid.IntRange(0, 4).Draw(t, "linekind") {
		case 0:
			r.Line = gen.BS(rapid.SampledFrom(c17HostileLines).Draw(t, "hostile"))
		case 1:
			r.Line = gen.BS(rapid.SliceOfN(rapid.Byte(), 0, 40).Draw(t, "bytes"))
		case 2:
			r.Line = gen.BS(rapid.SampledFrom([]string{`{"status":200,"dur":"1.5s","size":"10KB","addr":"10.0.0.1","val":"3"}`, `status=500 dur=2s size=1MiB addr=::1 val=x`, `10.0.0.1 bob 200 512 "GET /"`, `{"_entry":"packed","app":"x"}`}).Draw(t, "structured"))
		default:
			r.Line = gen.BS(rapid.StringMatching(`[ -~]{0,30}`).Draw(t, "text"))
		}
		for _, k := range []string{"app", "val", "a", "status", "dur", "size", "addr"} {
			if rapid.IntRange(0, 3).Draw(t, "has-"+k) == 0 {
				r.Labels[k] = rapid.SampledFrom([]string{"x", "", "1", "-1", "1e400", "NaN", "1.5s", "10KB", "10.0.0.1", "\xff", "Inf", "0"}).Draw(t, "val-"+k)
			}
		}
		recs = append(recs, r)
	}
	return recs
}

func c17GenParams(t *rapid.T) model.Params {
	start := datagen.BaseTS + rapid.Int64Range(-8, 16).Draw(t, "start")*250e6
	limit := rapid.SampledFrom([]int{-1, 0, 1, 3, 1000}).Draw(t, "limit")
	if rapid.IntRange(0, 3).Draw(t, "instant") == 0 {
		return model.Params{Start: start, End: start, Step: 0, Limit: limit}
	}
	step := rapid.SampledFrom([]int64{1, 1e3, 250e6, 1e9, 7e9, 3600e9}).Draw(t, "step")
	steps := rapid.Int64Range(0, 40).Draw(t, "steps")
	if step < 1e6 {
		steps = rapid.Int64Range(0, 999).Draw(t, "steps-tiny")
	}
	return model.Params{Start: start, End: start + steps*step + rapid.Int64Range(0, 1).Draw(t, "slack")*(step/2), Step: step, Limit: limit}
}

func c17Gen(t *rapid.T) C17Case {
	var c C17Case
	c.Recs = c17GenRecs(t)
	c.Params = c17GenParams(t)
	c.Caps = mockstore.Caps{Label: rapid.IntRange(0, 15).Draw(t, "caps-label"), Line: rapid.IntRange(0, 15).Draw(t, "caps-line")}
	layout := datagen.RapidLayout{T: t, Heavy: true, Comments: true, RawOK: true}
	switch rapid.IntRange(0, 14).Draw(t, "origin") {
	case 14:
		// A query written with exactly one of the mistakes the statement names, in every form of
		// it: the answer has to be an error, not a result computed from a misread stage.
		c.Origin = "known-mistake"
		m := rapid.SampledFrom(c17Mistakes).Draw(t, "mistake")
		c.Mistake = m.kind
		q := "{} | " + m.stage
		if m.selector != "" {
			q = m.selector
		}
		wrap := rapid.IntRange(0, 3).Draw(t, "mistake-wrap")
		if !strings.HasPrefix(q, "{") {
			wrap = 3 // a metric query is taken as it is
		}
		switch wrap {
		case 0:
			q = "count_over_time(" + q + " [1m])"
		case 1:
			q = "sum by (a) (rate(" + q + " [5s])) > 0"
		case 2:
			if m.selector == "" {
				q = "{} | logfmt | " + m.stage + ` | line_format "{{ .a }}"`
			}
		}
		c.Query = gen.BS(q)
	case 13:
		// Keys of the lengths at which a fixed-size buffer ends, through every stage that turns
		// keys into label names.
		c.Origin = "long-keys"
		q := rapid.SampledFrom([]string{"{} | json", "{} | json", "{}", "{} | logfmt", "{} | unpack", "{} | json | logfmt", `{} | json | line_format "{{ .v }}"`, "{} | logfmt | drop f", "{} | json | keep v"}).Draw(t, "lk-query")
		if rapid.Bool().Draw(t, "lk-metric") {
			q = "sum by (f) (count_over_time(" + q + " [1m]))"
		}
		c.Query = gen.BS(q)
		for len(c.Recs) < 5 {
			c.Recs = append(c.Recs, model.Rec{TS: datagen.BaseTS + int64(len(c.Recs))*250e6, Labels: map[string]string{}})
		}
		for i := range c.Recs {
			line, key := c17LongKeyLine(t, "lk")
			c.Recs[i].Line = gen.BS(line)
			if rapid.IntRange(0, 3).Draw(t, "lk-attribute") == 0 {
				// ... and as the name of an attribute of the record
				c.Recs[i].Labels[key] = "v"
			}
		}
	case 12:
		// A template function that takes a pattern of its own (a regular expression, a layout, a
		// time zone, a format) is given one that is broken - written in the query or taken from
		// the log content - and is called again and again: record after record, twice in one
		// template, in two stages. Whatever the first failure leaves behind meets the next call.
		c.Origin = "template-call"
		pat := func(l string) string {
			return rapid.SampledFrom([]string{`"("`, `"[a-"`, `"a{2,1}"`, `"\\"`, `"(?P<x"`, `"*"`, `.a`, `.val`, `__line__`, `"a+"`, `"(.)"`}).Draw(t, l)
		}
		call := func(l string) string {
			switch rapid.IntRange(0, 6).Draw(t, l+"-fn") {
			case 0:
				return "regexReplaceAll " + pat(l+"-re") + ` __line__ "x"`
			case 1:
				return "regexReplaceAllLiteral " + pat(l+"-re") + ` .a "${1}"`
			case 2:
				return "count " + pat(l+"-re") + " __line__"
			case 3:
				return "toDateInZone " + pat(l+"-layout") + " " + pat(l+"-zone") + " .a"
			case 4:
				return "toDate " + pat(l+"-layout") + " .val"
			case 5:
				return "printf " + pat(l+"-fmt") + " .a"
			default:
				return "unixToTime " + pat(l+"-num")
			}
		}
		tmpl := "{{ " + call("tc0") + " }}"
		if rapid.Bool().Draw(t, "tc-twice") {
			tmpl += " {{ " + call("tc1") + " }}"
		}
		stage := "line_format `" + tmpl + "`"
		if rapid.Bool().Draw(t, "tc-label-format") {
			stage = "label_format out=`" + tmpl + "`"
		}
		q := "{} | " + stage
		if rapid.IntRange(0, 2).Draw(t, "tc-second-stage") == 0 {
			q += " | line_format `{{ " + call("tc2") + " }}`"
		}
		if rapid.Bool().Draw(t, "tc-metric") {
			q = "count_over_time(" + q + " [1m])"
		}
		c.Query = gen.BS(q)
		for len(c.Recs) < 2 {
			c.Recs = append(c.Recs, model.Rec{TS: datagen.BaseTS + int64(len(c.Recs))*250e6, Line: gen.BS(rapid.SampledFrom([]string{"(", "[a-", "plain", "a{2,1}"}).Draw(t, "tc-line")), Labels: map[string]string{}})
		}
		for i := range c.Recs {
			// A line serves as a regular expression over itself: matching costs pattern x text, so
			// a 70 KB line is a request for seconds of work, not a hang.
			if len(c.Recs[i].Line) > 256 {
				c.Recs[i].Line = c.Recs[i].Line[:256]
			}
			if rapid.Bool().Draw(t, "tc-has-a") {
				c.Recs[i].Labels["a"] = rapid.SampledFrom([]string{"(", "[a-", "*", "x", "Nowhere/Land", "%!d", "2006-01-02"}).Draw(t, "tc-a")
			}
		}
	case 10:
		// The hand-written address scanner of the ip() line filter against address-like garbage.
		c.Origin = "ipfilter"
		pat := rapid.SampledFrom([]string{"10.0.0.1", "10.0.0.0/8", "::1", "2001:db8::/32", "10.0.0.1-10.0.0.9", "::/0", "0.0.0.0/0"}).Draw(t, "ip-pattern")
		op := rapid.SampledFrom([]string{"|=", "!="}).Draw(t, "ip-op")
		q := `{} ` + op + ` ip("` + pat + `")`
		if rapid.Bool().Draw(t, "ip-metric") {
			q = `count_over_time(` + q + `[1m])`
		}
		c.Query = gen.BS(q)
		for i := range c.Recs {
			if rapid.IntRange(0, 2).Draw(t, "ip-line") != 0 {
				c.Recs[i].Line = gen.BS(rapid.SampledFrom(c17IPLines).Draw(t, "ip-garbage") + rapid.SampledFrom([]string{"", " ", " 10.0.0.1", ":", "."}).Draw(t, "ip-tail"))
			}
		}
		if len(c.Recs) == 0 {
			c.Recs = []model.Rec{{TS: datagen.BaseTS, Line: gen.BS(rapid.SampledFrom(c17IPLines).Draw(t, "ip-garbage-one")), Labels: map[string]string{}}}
		}
	case 9, 11:
		// Queries written for the data (selectors and stages that match it), evaluated on grids
		// of every shape - a step far above or far below the range, windows with gaps between
		// them - so that the evaluation loops run over real samples.
		c.Origin = "data-aware"
		if rapid.Bool().Draw(t, "da-metric") {
			d := datagen.GenMetricDataN(t, 30, false, true, false, 1, 4)
			ropts, unwrap := datagen.RangeOpts{Grouping: true, KeepStage: true}, rapid.Bool().Draw(t, "da-unwrap")
			oddParam := rapid.IntRange(0, 4).Draw(t, "da-quantile-parameter") == 0
			if oddParam {
				// a quantile whose parameter is at or beyond the ends of [0, 1], over series that
				// hold several samples (one group for everything)
				ropts.Funcs, unwrap = []string{"quantile_over_time"}, true
			}
			m := datagen.GenRange(t, d, ropts, unwrap)
			if oddParam && m.Op == "quantile_over_time" {
				q := rapid.SampledFrom([]struct {
					text string
					v    float64
				}{{"0", 0}, {"1", 1}, {"1.5", 1.5}, {"2", 2}, {"10", 10}, {"1e300", 1e300}, {"1.0000001", 1.0000001}}).Draw(t, "da-q")
				m.HasParam, m.Param, m.ParamText = true, q.v, q.text
				m.Grouping = &gen.Grouping{Labels: rapid.SampledFrom([][]string{{}, {"app"}}).Draw(t, "da-q-by")}
			}
			top := datagen.GenVecAgg(t, d, m, rapid.IntRange(0, 2).Draw(t, "da-depth"))
			c.Recs = d.Recs
			c.Query = gen.BS(gen.PrintMetric(top, layout))
			step := rapid.SampledFrom([]int64{m.RangeNs * 3, m.RangeNs*10 + 1, m.RangeNs / 4, m.RangeNs, 250e6, 1e9, 7e9, 1}).Draw(t, "da-step")
			if step <= 0 || step > 400*24*3600e9 {
				step = 1e9
			}
			steps := rapid.Int64Range(1, 30).Draw(t, "da-steps")
			start := datagen.BaseTS - rapid.Int64Range(0, 8).Draw(t, "da-start")*250e6
			c.Params = model.Params{Start: start, End: start + steps*step, Step: step, Limit: -1}
		} else {
			sch := datagen.GenSchema(t, []string{"plain", "json", "logfmt", "delim", "packed"})
			c.Recs = datagen.GenRecs(t, sch, 20, false)
			q := datagen.GenLogQueryFor(t, sch, c.Recs, datagen.QueryOpts{MaxStages: 5, AllowDistinct: true, AllowParsers: true, AllowRewrite: true})
			c.Query = gen.BS(gen.PrintLog(&q, layout))
		}
	case 0:
		c.Origin = "bytes"
		c.Query = gen.BS(rapid.SliceOfN(rapid.Byte(), 0, 40).Draw(t, "querybytes"))
	case 1, 2, 3, 4:
		c.Origin = "mutated"
		a := gen.Print(datagen.GenGrammarQuery(t, true), layout)
		b := gen.Print(datagen.GenGrammarQuery(t, true), gen.Plain{})
		c.Query = gen.BS(c17Mutate(t, a, b))
	default:
		c.Origin = "grammar"
		c.Query = gen.BS(gen.Print(datagen.GenGrammarQuery(t, true), layout))
	}
	// A comment that runs to the end of the text (no line break after it), or other endings a
	// scanner may not expect.
	if c.Origin != "bytes" && rapid.IntRange(0, 7).Draw(t, "odd-ending") == 0 {
		c.Query += gen.BS(rapid.SampledFrom([]string{" # the end", "#", " #\r", "\n# x", " # a\n# b", "\r\n", "\t", " \x00"}).Draw(t, "ending"))
	}
	return c
}

// TestC17 decides C17.
func TestC17(t *testing.T) {
	evid.Run(t, "C17", c17Gen, c17Check)
}

var backtickRe = regexp.MustCompile("`([^`]+)`")

// FuzzC17 is the coverage-guided target: query bytes x log content x mode.
func FuzzC17(f *testing.F) {
	seeds := []string{`{}`, `{a="b"} |= "x" | json | status >= 400`, `sum by (a) (rate({}[1m]))`, `topk(1, count_over_time({} | logfmt | unwrap bytes(size) [5s]))`,
		`{} | line_format "{{.a}}" | label_format b="{{ __line__ }}"`, `quantile_over_time(0.9, {} | unwrap val [1s]) by (a) / 2`, `{} | pattern "<a> <b>" | regexp "(?P<x>.)" | unpack | decolorize | distinct a | drop b | keep c`}
	for _, file := range []string{"/repo/internal/logql/parser_test.go", "/repo/internal/logql/lexer/lexer_test.go", "/repo/internal/logql/logqlengine/logqlmetric/query_test.go", "/repo/internal/logql/logqlengine/engine_test.go"} {
		if data, err := os.ReadFile(file); err == nil {
			for _, m := range backtickRe.FindAllStringSubmatch(string(data), -1) {
				if len(m[1]) < 300 {
					seeds = append(seeds, m[1])
				}
			}
		}
	}
	for i, s := range seeds {
		f.Add([]byte(s), []byte(c17HostileLines[i%len(c17HostileLines)]+"\n{\"val\":\"3\",\"a\":\"b\"}\nval=1 size=5KB"), uint8(i))
	}
	f.Fuzz(func(t *testing.T, query []byte, data []byte, mode uint8) {
		if len(query) > 2000 || len(data) > 1<<16 {
			return
		}
		c := C17Case{Query: gen.BS(query), Origin: "fuzz"}
		ts := datagen.BaseTS
		for _, line := range strings.Split(string(data), "\n") {
			ts += 250e6
			c.Recs = append(c.Recs, model.Rec{TS: ts, Line: gen.BS(line), Labels: map[string]string{"app": "x", "val": "2"}})
			if len(c.Recs) >= 20 {
				break
			}
		}
		c.Params = model.Params{Start: datagen.BaseTS, End: datagen.BaseTS + 5e9, Step: 1e9, Limit: int(mode>>2) - 2}
		if mode&1 == 1 {
			c.Params = model.Params{Start: datagen.BaseTS + 2e9, End: datagen.BaseTS + 2e9, Step: 0, Limit: -1}
		}
		if mode&2 == 2 {
			c.Caps = mockstore.Caps{Label: 15, Line: 15}
		}
		if r := c17Check(c); r.Violation != nil {
			path := saveFuzzReplay("C17", c)
			t.Fatalf("VERIF-REPLAY %s\nviolation [%s]: %s", path, r.Violation.Sig, r.Violation.Msg)
		}
	})
}

var _ = fmt.Sprint
