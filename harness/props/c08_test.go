package props

import (
	"fmt"
	"sort"
	"testing"

	"pgregory.net/rapid"

	"github.com/tdakkota/docker-logql/verifharness/canon"
	"github.com/tdakkota/docker-logql/verifharness/datagen"
	"github.com/tdakkota/docker-logql/verifharness/eng"
	"github.com/tdakkota/docker-logql/verifharness/evid"
	"github.com/tdakkota/docker-logql/verifharness/mockstore"
	"github.com/tdakkota/docker-logql/verifharness/model"
)

// c08Check decides one case; the query is then evaluated once more without a limit (the limit
// only cuts a prefix: everything else about the answer must hold again, whatever an earlier
// evaluation of the same query left behind in the process).
func c08Check(c LogCase) (r evid.Result) {
	r = c08CheckOnce(c)
	if r.Violation != nil || c.Limit <= 0 {
		return r
	}
	again := c
	again.Limit = -1
	r2 := c08CheckOnce(again)
	r.Evals = 2
	if r2.Violation != nil {
		r.Violation = evid.Viol(r2.Violation.Sig, "second evaluation: %s", r2.Violation.Msg)
	}
	return r
}

func c08CheckOnce(c LogCase) (r evid.Result) {
	recs := append([]model.Rec(nil), c.Recs...)
	model.SortRecs(recs)
	stageClasses(&r, &c.Query)
	want, err := model.EvalLog(&c.Query, recs)
	if err != nil {
		if isUnsupported(err) {
			r.Class(true, "model-unsupported")
			return r
		}
		r.Violation = evid.Viol("C08/harness-model-error", "model failed on %s: %v", c.Text, err)
		return r
	}
	n := len(want)
	params := eng.CoverAll(recs)
	params.Limit = c.Limit
	store := mockstore.New(recs, c.Caps)
	data, err := eng.Eval(store, c.Text, params)
	if err != nil {
		r.Violation = evid.Viol("C08/eval-error", "query %s failed: %v", c.Text, err)
		return r
	}
	streams, err := canon.Streams(data)
	if err != nil {
		r.Violation = evid.Viol("C08/result-type", "%v", err)
		return r
	}
	what := fmt.Sprintf("query %s limit %d over %d records (%d matches)", c.Text, c.Limit, len(recs), n)

	// No two streams share a label set; entries carry their stream's labels; order in stream.
	seen := map[string]bool{}
	quoted := false
	for _, s := range streams {
		k := canon.LabelKey(s.Labels)
		if seen[k] {
			r.Violation = evid.Viol("C08/duplicate-stream", "%s: two streams carry the label set {%s}", what, k)
			return r
		}
		seen[k] = true
		if len(s.Entries) == 0 {
			r.Violation = evid.Viol("C08/empty-stream", "%s: stream {%s} has no entries", what, k)
			return r
		}
		for i := 1; i < len(s.Entries); i++ {
			if s.Entries[i-1].TS > s.Entries[i].TS {
				r.Violation = evid.Viol("C08/stream-order", "%s: stream {%s} is not in timestamp order: %d before %d", what, k, s.Entries[i-1].TS, s.Entries[i].TS)
				return r
			}
		}
		for _, v := range s.Labels {
			for _, ch := range v {
				if ch == '"' || ch == '\\' || ch == ',' || ch == '=' || ch == '\n' {
					quoted = true
				}
			}
		}
	}
	got := eng.NormEntries(canon.Flatten(streams))
	wantN := n
	if c.Limit > 0 && c.Limit < n {
		wantN = c.Limit
	}
	if len(got) != wantN {
		r.Violation = evid.Viol("C08/count", "%s: %d entries returned, want %d", what, len(got), wantN)
		return r
	}
	// Every entry must be one of the model's matches, in the stream of exactly its labels.
	gotSet := canon.Multiset(got)
	wantSet := canon.Multiset(eng.EntriesOf(want))
	var maxGot uint64
	for k, cnt := range gotSet {
		if wantSet[k] < cnt {
			r.Violation = evid.Viol("C08/not-a-match", "%s: returned entry %s x%d, the query matches it x%d", what, k, cnt, wantSet[k])
			return r
		}
	}
	for _, e := range got {
		if e.TS > maxGot {
			maxGot = e.TS
		}
	}
	// Time prefix: everything returned is not later than anything omitted.
	if len(got) < n {
		rest := map[string]int{}
		for k, cnt := range wantSet {
			rest[k] = cnt - gotSet[k]
		}
		for _, e := range eng.EntriesOf(want) {
			if rest[e.Key()] > 0 && e.TS < maxGot {
				r.Violation = evid.Viol("C08/not-a-time-prefix", "%s: omitted entry at %d is earlier than returned entry at %d", what, e.TS, maxGot)
				return r
			}
		}
	}
	r.Class(c.Limit <= 0, "limit<=0")
	r.Class(c.Limit > 0 && c.Limit < n, "limit<N")
	r.Class(c.Limit == n && n > 0, "limit==N")
	r.Class(c.Limit > n, "limit>N")
	r.Class(len(streams) >= 2, "streams>=2")
	r.Class(quoted, "quoting-sensitive-label")
	r.NonTrivial = (len(streams) >= 2 && c.Limit > 0 && c.Limit < n) || quoted && len(streams) >= 2
	return r
}

func c08Gen(t *rapid.T) LogCase {
	c := genLogCase(t, datagen.QueryOpts{MaxStages: 4, AllowDistinct: true, AllowParsers: true, AllowRewrite: true, QuotedValues: true, DropMsgOften: true},
		[]string{"plain", "json", "logfmt", "delim", "packed"})
	recs := append([]model.Rec(nil), c.Recs...)
	model.SortRecs(recs)
	n := 0
	if want, err := model.EvalLog(&c.Query, recs); err == nil {
		n = len(want)
	}
	cands := []int{-5, -1, 0, 1, n - 1, n, n + 1, 2 * n, n / 2, n / 2}
	sort.Ints(cands)
	c.Limit = rapid.SampledFrom(cands).Draw(t, "limit")
	return c
}

// TestC08 decides C08.
func TestC08(t *testing.T) {
	evid.Run(t, "C08", c08Gen, c08Check)
}
