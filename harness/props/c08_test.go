package props

import (
	"fmt"
	"sort"
	"strings"
	"testing"

	"pgregory.net/rapid"

	"github.com/tdakkota/docker-logql/verifharness/canon"
	"github.com/tdakkota/docker-logql/verifharness/datagen"
	"github.com/tdakkota/docker-logql/verifharness/dl"
	"github.com/tdakkota/docker-logql/verifharness/eng"
	"github.com/tdakkota/docker-logql/verifharness/evid"
	"github.com/tdakkota/docker-logql/verifharness/fakedocker"
	"github.com/tdakkota/docker-logql/verifharness/mockstore"
	"github.com/tdakkota/docker-logql/verifharness/model"
)

// c08Check decides one case; the query is then evaluated once more without a limit (the limit
// only cuts a prefix: everything else about the answer must hold again, whatever an earlier
// evaluation of the same query left behind in the process).
func c08Check(c LogCase) (r evid.Result) {
	r = c08CheckOnce(c)
	if r.Violation != nil || c.Limit <= 0 {
		return r
	}
	again := c
	again.Limit = -1
	r2 := c08CheckOnce(again)
	r.Evals = 2
	if r2.Violation != nil {
		r.Violation = evid.Viol(r2.Violation.Sig, "second evaluation: %s", r2.Violation.Msg)
	}
	return r
}

func c08CheckOnce(c LogCase) (r evid.Result) {
	recs := append([]model.Rec(nil), c.Recs...)
	model.SortRecs(recs)
	stageClasses(&r, &c.Query)
	want, err := model.EvalLog(&c.Query, recs)
	if err != nil {
		if isUnsupported(err) {
			r.Class(true, "model-unsupported")
			return r
		}
		r.Violation = evid.Viol("C08/harness-model-error", "model failed on %s: %v", c.Text, err)
		return r
	}
	n := len(want)
	params := eng.CoverAll(recs)
	params.Limit = c.Limit
	store := mockstore.New(recs, c.Caps)
	data, err := eng.Eval(store, c.Text, params)
	if err != nil {
		r.Violation = evid.Viol("C08/eval-error", "query %s failed: %v", c.Text, err)
		return r
	}
	streams, err := canon.Streams(data)
	if err != nil {
		r.Violation = evid.Viol("C08/result-type", "%v", err)
		return r
	}
	what := fmt.Sprintf("query %s limit %d over %d records (%d matches)", c.Text, c.Limit, len(recs), n)

	// No two streams share a label set; entries carry their stream's labels; order in stream.
	seen := map[string]bool{}
	quoted := false
	for _, s := range streams {
		k := canon.LabelKey(s.Labels)
		if seen[k] {
			r.Violation = evid.Viol("C08/duplicate-stream", "%s: two streams carry the label set {%s}", what, k)
			return r
		}
		seen[k] = true
		if len(s.Entries) == 0 {
			r.Violation = evid.Viol("C08/empty-stream", "%s: stream {%s} has no entries", what, k)
			return r
		}
		for i := 1; i < len(s.Entries); i++ {
			if s.Entries[i-1].TS > s.Entries[i].TS {
				r.Violation = evid.Viol("C08/stream-order", "%s: stream {%s} is not in timestamp order: %d before %d", what, k, s.Entries[i-1].TS, s.Entries[i].TS)
				return r
			}
		}
		for _, v := range s.Labels {
			for _, ch := range v {
				if ch == '"' || ch == '\\' || ch == ',' || ch == '=' || ch == '\n' {
					quoted = true
				}
			}
		}
	}
	got := eng.NormEntries(canon.Flatten(streams))
	wantN := n
	if c.Limit > 0 && c.Limit < n {
		wantN = c.Limit
	}
	if len(got) != wantN {
		r.Violation = evid.Viol("C08/count", "%s: %d entries returned, want %d", what, len(got), wantN)
		return r
	}
	// Every entry must be one of the model's matches, in the stream of exactly its labels.
	gotSet := canon.Multiset(got)
	wantSet := canon.Multiset(eng.EntriesOf(want))
	var maxGot uint64
	for k, cnt := range gotSet {
		if wantSet[k] < cnt {
			r.Violation = evid.Viol("C08/not-a-match", "%s: returned entry %s x%d, the query matches it x%d", what, k, cnt, wantSet[k])
			return r
		}
	}
	for _, e := range got {
		if e.TS > maxGot {
			maxGot = e.TS
		}
	}
	// Time prefix: everything returned is not later than anything omitted.
	if len(got) < n {
		rest := map[string]int{}
		for k, cnt := range wantSet {
			rest[k] = cnt - gotSet[k]
		}
		for _, e := range eng.EntriesOf(want) {
			if rest[e.Key()] > 0 && e.TS < maxGot {
				r.Violation = evid.Viol("C08/not-a-time-prefix", "%s: omitted entry at %d is earlier than returned entry at %d", what, e.TS, maxGot)
				return r
			}
		}
	}
	r.Class(c.Limit <= 0, "limit<=0")
	r.Class(c.Limit > 0 && c.Limit < n, "limit<N")
	r.Class(c.Limit == n && n > 0, "limit==N")
	r.Class(c.Limit > n, "limit>N")
	r.Class(len(streams) >= 2, "streams>=2")
	r.Class(quoted, "quoting-sensitive-label")
	r.NonTrivial = (len(streams) >= 2 && c.Limit > 0 && c.Limit < n) || quoted && len(streams) >= 2
	return r
}

func c08Gen(t *rapid.T) LogCase {
	c := genLogCase(t, datagen.QueryOpts{MaxStages: 4, AllowDistinct: true, AllowParsers: true, AllowRewrite: true, QuotedValues: true, DropMsgOften: true},
		[]string{"plain", "json", "logfmt", "delim", "packed"})
	// One label name from two sources of a record (an attribute named msg next to the line), next
	// to records that carry one label more: every entry still carries exactly its own labels.
	if rapid.IntRange(0, 5).Draw(t, "name-from-two-sources") == 0 {
		for i := range c.Recs {
			if c.Recs[i].Labels == nil {
				c.Recs[i].Labels = model.LabelMap{}
			}
			if i%2 == 1 {
				c.Recs[i].Labels["msg"] = "from an attribute"
			} else {
				c.Recs[i].Labels["zz_extra"] = "1"
			}
		}
	}
	recs := append([]model.Rec(nil), c.Recs...)
	model.SortRecs(recs)
	n := 0
	if want, err := model.EvalLog(&c.Query, recs); err == nil {
		n = len(want)
	}
	cands := []int{-5, -1, 0, 1, n - 1, n, n + 1, 2 * n, n / 2, n / 2}
	sort.Ints(cands)
	c.Limit = rapid.SampledFrom(cands).Draw(t, "limit")
	return c
}

// TestC08 decides C08.
func TestC08(t *testing.T) {
	evid.Run(t, "C08", c08Gen, c08Check)
}

// C08DockerCase is a case of C08 over the product's own storage: several containers whose logs
// are merged by the Docker backend, a log query and a limit.
type C08DockerCase struct {
	Ctrs  [][]dl.Line `json:"ctrs"`
	Query string      `json:"query"`
	Limit int         `json:"limit"`
}

// c08DockerCheck: the entries of the answer are the first min(L, N) matching records in time
// order. Records of different containers may carry the same timestamp, so "the first L" is
// decided on timestamps: the multiset of returned timestamps is the multiset of the L smallest,
// and every entry is a record of the data, none of them more often than it was written.
func c08DockerCheck(c C08DockerCase) (r evid.Result) {
	d := &fakedocker.Daemon{}
	type rec struct {
		ts   int64
		line string
	}
	var all []rec
	avail := map[string]int{}
	for i, lines := range c.Ctrs {
		d.Containers = append(d.Containers, dl.Ctr(fmt.Sprintf("id%d", i), fmt.Sprintf("c%d", i), nil, lines))
		for _, l := range lines {
			if strings.Contains(c.Query, `|= "#"`) && !strings.Contains(l.Msg, "#") {
				continue
			}
			all = append(all, rec{l.TS, l.Msg})
			avail[fmt.Sprintf("%d %q", l.TS, l.Msg)]++
		}
	}
	sort.Slice(all, func(a, b int) bool { return all[a].ts < all[b].ts })
	n := len(all)
	wantN := n
	if c.Limit > 0 && c.Limit < n {
		wantN = c.Limit
	}
	r.Class(true, fmt.Sprintf("containers=%d", len(c.Ctrs)))
	r.Class(c.Limit > 0 && c.Limit < n, "limit-cuts")
	r.Class(n > 100, "more-than-100-matching")
	r.Class(c.Limit <= 0, "limit<=0")
	r.NonTrivial = len(c.Ctrs) >= 3 && c.Limit > 0 && c.Limit < n
	const base = int64(1700000000e9)
	data, err := dl.Eval(d, c.Query, dl.Params{Start: base - 3600e9, End: base + 3600e9, Step: 1e9, Limit: c.Limit})
	d.Done()
	if err != nil {
		r.Violation = evid.Viol("C08/docker-eval-error", "query %s (limit %d) failed: %v", c.Query, c.Limit, err)
		return r
	}
	streams, err := canon.Streams(data)
	if err != nil {
		r.Violation = evid.Viol("C08/docker-result", "%v", err)
		return r
	}
	var got []int64
	for _, e := range canon.Flatten(streams) {
		k := fmt.Sprintf("%d %q", e.TS, e.Line)
		if avail[k] == 0 {
			r.Violation = evid.Viol("C08/docker-unknown-entry", "query %s (limit %d) over %d containers returned (%d, %q), which no container wrote (that often)", c.Query, c.Limit, len(c.Ctrs), e.TS, e.Line)
			return r
		}
		avail[k]--
		got = append(got, int64(e.TS))
	}
	sort.Slice(got, func(a, b int) bool { return got[a] < got[b] })
	if len(got) != wantN {
		r.Violation = evid.Viol("C08/docker-count", "query %s (limit %d) over %d containers returned %d entries, want %d of %d", c.Query, c.Limit, len(c.Ctrs), len(got), wantN, n)
		return r
	}
	for i, ts := range got {
		if ts != all[i].ts {
			r.Violation = evid.Viol("C08/docker-not-the-first", "query %s (limit %d) over %d containers: the %d returned timestamps (offsets from the base, ms) %v are not the %d smallest of %v",
				c.Query, c.Limit, len(c.Ctrs), len(got), offsetsMs(got, base), wantN, offsetsMs(tsOf(all, func(x rec) int64 { return x.ts }), base))
			return r
		}
	}
	return r
}

func tsOf[T any](xs []T, f func(T) int64) []int64 {
	out := make([]int64, len(xs))
	for i, x := range xs {
		out[i] = f(x)
	}
	return out
}

func offsetsMs(ts []int64, base int64) []int64 {
	out := make([]int64, len(ts))
	for i, t := range ts {
		out[i] = (t - base) / 1e6
	}
	return out
}

func c08DockerGen(t *rapid.T) C08DockerCase {
	var c C08DockerCase
	const base = int64(1700000000e9)
	n := rapid.SampledFrom([]int{1, 2, 3, 3, 4, 4, 5, 6, 8}).Draw(t, "containers")
	span := rapid.SampledFrom([]int64{5, 20, 100}).Draw(t, "span")
	// Results beyond the round numbers an API might take for a default (100, 1000 entries).
	many := rapid.IntRange(0, 7).Draw(t, "many-records") == 0
	if many {
		n = rapid.IntRange(1, 3).Draw(t, "containers-many")
		span = 2000
	}
	total := 0
	for i := 0; i < n; i++ {
		m := rapid.IntRange(0, 6).Draw(t, "records")
		if many {
			m = rapid.IntRange(30, 130).Draw(t, "records-many")
		}
		tss := make([]int64, m)
		for j := range tss {
			tss[j] = base + rapid.Int64Range(0, span).Draw(t, "ts")*1e6
		}
		sort.Slice(tss, func(a, b int) bool { return tss[a] < tss[b] })
		var lines []dl.Line
		for j, ts := range tss {
			msg := fmt.Sprintf("c%d#%d", i, j)
			if rapid.IntRange(0, 4).Draw(t, "unmatched") == 0 {
				msg = fmt.Sprintf("c%d-%d", i, j)
			}
			lines = append(lines, dl.Line{TS: ts, Msg: msg})
		}
		total += m
		c.Ctrs = append(c.Ctrs, lines)
	}
	c.Query = rapid.SampledFrom([]string{`{}`, `{} |= "#"`, `{} | keep container`, `{} | drop container_id | label_format name=container`,
		// a filter behind a stage that rewrites the line or the labels: what may be cut off before the filter has run?
		`{} | line_format "{{ __line__ }}" |= "#"`, `{} | decolorize |= "#"`, `{} | label_format name=container |= "#"`, `{} | keep container |= "#"`}).Draw(t, "query")
	cands := []int{-1, 0, 1, 2, 3, total / 2, total - 1, total, total + 1}
	if many {
		cands = []int{-1, 0, 0, -100, 99, 100, 101, total - 1, total, total + 1}
	}
	c.Limit = rapid.SampledFrom(cands).Draw(t, "limit")
	return c
}

// TestC08Docker decides the limit sentence of C08 over the Docker backend, where the records of
// several containers are merged before the limit is applied.
func TestC08Docker(t *testing.T) {
	evid.Run(t, "C08", c08DockerGen, c08DockerCheck)
}
