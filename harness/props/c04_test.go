package props

import (
	"context"
	"fmt"
	"regexp"
	"sort"
	"strings"
	"testing"

	"go.opentelemetry.io/collector/pdata/pcommon"
	"pgregory.net/rapid"

	"github.com/tdakkota/docker-logql/internal/dockerlog"
	"github.com/tdakkota/docker-logql/internal/logql"
	"github.com/tdakkota/docker-logql/internal/logql/logqlengine"
	"github.com/tdakkota/docker-logql/internal/logstorage"
	"github.com/tdakkota/docker-logql/internal/otelstorage"
	"github.com/tdakkota/docker-logql/verifharness/dl"
	"github.com/tdakkota/docker-logql/verifharness/evid"
	"github.com/tdakkota/docker-logql/verifharness/fakedocker"
)

// C04Case is one case of property C04: per-container logs and the completion orders to try.
type C04Case struct {
	Ctrs [][]dl.Line `json:"ctrs"`
	// Perms are the completion orders tried when there are more than 4 containers; for
	// n <= 4 all n! orders are enumerated.
	Perms [][]int `json:"perms,omitempty"`
	Frag  []int   `json:"frag,omitempty"`
	// History, when set, is a sequence of selections (container indexes) queried one after the
	// other on ONE Querier before the checked full selection; every call is checked.
	History [][]int `json:"history,omitempty"`
	// Aliases[i] are further names of container i (the daemon lists every name of a container,
	// e.g. "/db" and "/web/db" with legacy links); a container is still one container.
	Aliases [][]string `json:"aliases,omitempty"`
	// Broken-1, when Broken > 0, is the container whose log cannot be decoded from its first
	// byte on (BrokenKind: tty - raw text without frame headers, syserr - an error frame of the
	// daemon, badts - a frame without a timestamp): the merge cannot contain its records, so it
	// must not be reported as a success.
	Broken     int    `json:"broken,omitempty"`
	BrokenKind string `json:"broken_kind,omitempty"`
	// Start, when set, is the start of the queried range (unix ns): the fake daemon then honours
	// the since / until options the way the real one does, and the merged stream must hold every
	// record from Start on (older ones of the same second may come along).
	Start int64 `json:"start,omitempty"`
	// IDLabel-1, when IDLabel > 0, is a container carrying the Docker label IDLabelKey
	// (container.id, container_id, ...) whose value is the id of the next container.
	IDLabel    int    `json:"id_label,omitempty"`
	IDLabelKey string `json:"id_label_key,omitempty"`

	raw [][]dl.Line // the containers' whole logs in window mode (Ctrs then holds what is expected)
}

// c04Window returns the bounds SelectLogs is called with.
func c04Window(c C04Case) (pcommon.Timestamp, pcommon.Timestamp) {
	if c.Start > 0 {
		return pcommon.Timestamp(c.Start), pcommon.Timestamp(c04Base + 3600e9)
	}
	return pcommon.Timestamp(1), pcommon.Timestamp(1 << 62)
}

// c04InWindow drops the records older than the queried start (window mode).
func c04InWindow(c C04Case, out []c04Out) []c04Out {
	if c.Start == 0 {
		return out
	}
	kept := out[:0:0]
	for _, o := range out {
		if o.ts >= c.Start {
			kept = append(kept, o)
		}
	}
	return kept
}

func c04Ctr(c C04Case, i int) fakedocker.Container {
	lines := c.Ctrs[i]
	if c.raw != nil {
		lines = c.raw[i]
	}
	var labels map[string]string
	if c.IDLabel == i+1 && len(c.Ctrs) > 0 {
		// a Docker label that names a container id - another container's, as a log shipper's
		// side-car would carry it: a label, not the id the log is asked for
		labels = map[string]string{c.IDLabelKey: fmt.Sprintf("id%d", (i+1)%len(c.Ctrs))}
	}
	ctr := dl.Ctr(fmt.Sprintf("id%d", i), fmt.Sprintf("c%d", i), labels, lines)
	ctr.Frag = c.Frag
	if c.Broken == i+1 {
		switch c.BrokenKind {
		case "syserr":
			ctr.Log = append(fakedocker.EncodeFrame(fakedocker.Systemerr, []byte("error from daemon in stream: no such log driver\n")), ctr.Log...)
		case "badts":
			ctr.Log = append(fakedocker.EncodeFrame(fakedocker.Stdout, []byte("no timestamp in front of this line\n")), ctr.Log...)
		default:
			ctr.Log = []byte("a container with a terminal writes plain text\r\nwithout frame headers\r\n")
		}
	}
	if i < len(c.Aliases) {
		ctr.Summary.Names = append(ctr.Summary.Names, c.Aliases[i]...)
	}
	return ctr
}

type c04Out struct {
	ctr  string
	ts   int64
	body string
	// attrs renders the record's own (non-resource) attributes, sorted.
	attrs string
}

func c04Attrs(r logstorage.Record) string {
	var parts []string
	for _, a := range []otelstorage.Attrs{r.Attrs, r.ScopeAttrs} {
		m := a.AsMap()
		if m == (pcommon.Map{}) {
			continue
		}
		m.Range(func(k string, v pcommon.Value) bool {
			parts = append(parts, k+"="+v.AsString())
			return true
		})
	}
	sort.Strings(parts)
	return strings.Join(parts, ";")
}

// c04Solo reads container i alone (the path without a merge) on a fresh Querier.
func c04Solo(c C04Case, i int) ([]c04Out, error) {
	d := &fakedocker.Daemon{HonourWindow: c.Start > 0}
	for k := range c.Ctrs {
		d.Containers = append(d.Containers, c04Ctr(c, k))
	}
	q, _ := dockerlog.NewQuerier(d)
	name := fmt.Sprintf("c%d", i)
	m := logql.LabelMatcher{Label: "container", Op: logql.OpEq, Value: name}
	from, to := c04Window(c)
	it, err := q.SelectLogs(context.Background(), from, to, logqlengine.SelectLogsParams{Labels: []logql.LabelMatcher{m}})
	if err != nil {
		return nil, err
	}
	var (
		out []c04Out
		r   logstorage.Record
	)
	for it.Next(&r) {
		id, _ := r.ResourceAttrs.AsMap().Get("container_name")
		out = append(out, c04Out{ctr: id.AsString(), ts: int64(r.Timestamp), body: r.Body, attrs: c04Attrs(r)})
	}
	err = it.Err()
	_ = it.Close()
	d.Done()
	return c04InWindow(c, out), err
}

func permutations(n int) [][]int {
	if n == 0 {
		return [][]int{{}}
	}
	var out [][]int
	var rec func(cur []int, used []bool)
	rec = func(cur []int, used []bool) {
		if len(cur) == n {
			out = append(out, append([]int(nil), cur...))
			return
		}
		for i := 0; i < n; i++ {
			if !used[i] {
				used[i] = true
				rec(append(cur, i), used)
				used[i] = false
			}
		}
	}
	rec(nil, make([]bool, n))
	return out
}

func c04Run(c C04Case, order []int) ([]c04Out, error, fakedocker.Report) {
	d := &fakedocker.Daemon{Waves: []int{len(c.Ctrs)}, Order: [][]int{order}, HonourWindow: c.Start > 0}
	for i := range c.Ctrs {
		d.Containers = append(d.Containers, c04Ctr(c, i))
	}
	q, _ := dockerlog.NewQuerier(d)
	from, to := c04Window(c)
	it, err := q.SelectLogs(context.Background(), from, to, logqlengine.SelectLogsParams{})
	if err != nil {
		return nil, err, d.Done()
	}
	var (
		out []c04Out
		r   logstorage.Record
	)
	for it.Next(&r) {
		id, _ := r.ResourceAttrs.AsMap().Get("container_name")
		out = append(out, c04Out{ctr: id.AsString(), ts: int64(r.Timestamp), body: r.Body, attrs: c04Attrs(r)})
		if len(out) > 100000 {
			break
		}
	}
	err = it.Err()
	_ = it.Close()
	return c04InWindow(c, out), err, d.Done()
}

// c04History runs a sequence of SelectLogs calls with different selectors on one Querier and
// checks every merged stream against the selection it was asked for.
func c04History(c C04Case) *evid.Violation {
	d := &fakedocker.Daemon{}
	for i := range c.Ctrs {
		d.Containers = append(d.Containers, c04Ctr(c, i))
	}
	q, _ := dockerlog.NewQuerier(d)
	all := identity(len(c.Ctrs))
	calls := append(append([][]int{}, c.History...), all)
	for ci, sel := range calls {
		want := map[string]int{}
		names := make([]string, 0, len(sel))
		for _, idx := range sel {
			names = append(names, fmt.Sprintf("c%d", idx))
			for _, l := range c.Ctrs[idx] {
				want[fmt.Sprintf("c%d|%d|%s", idx, l.TS, l.Msg)]++
			}
		}
		re := "^(?:" + strings.Join(names, "|") + ")$"
		m := logql.LabelMatcher{Label: "container", Op: logql.OpRe, Value: strings.Join(names, "|"), Re: regexp.MustCompile(re)}
		it, err := q.SelectLogs(context.Background(), pcommon.Timestamp(1), pcommon.Timestamp(1<<62), logqlengine.SelectLogsParams{Labels: []logql.LabelMatcher{m}})
		if err != nil {
			return evid.Viol("C04/history-error", "call %d (containers %v): %v", ci, sel, err)
		}
		got := map[string]int{}
		var rec logstorage.Record
		var prev int64
		for it.Next(&rec) {
			id, _ := rec.ResourceAttrs.AsMap().Get("container_name")
			got[fmt.Sprintf("%s|%d|%s", id.AsString(), int64(rec.Timestamp), rec.Body)]++
			_ = prev
		}
		err = it.Err()
		_ = it.Close()
		if err != nil {
			return evid.Viol("C04/history-error", "call %d (containers %v): %v", ci, sel, err)
		}
		if fmt.Sprint(got) != fmt.Sprint(want) {
			return evid.Viol("C04/history-conservation", "call %d of %v on one Querier selected containers %v: merged stream %v, want %v", ci, calls, sel, got, want)
		}
	}
	return nil
}

func c04Check(c C04Case) (r evid.Result) {
	if c.Start > 0 {
		// Window mode: the daemon holds the whole logs, the expectations what lies in the window.
		c.raw = c.Ctrs
		c.Ctrs = make([][]dl.Line, len(c.raw))
		for i, lines := range c.raw {
			for _, l := range lines {
				if l.TS >= c.Start {
					c.Ctrs[i] = append(c.Ctrs[i], l)
				}
			}
		}
		r.Class(true, "queried-from-a-start")
	}
	n := len(c.Ctrs)
	if len(c.History) > 0 {
		r.Class(true, "history")
		if v := c04History(c); v != nil {
			r.Violation = v
			r.NonTrivial = true
			return r
		}
	}
	var orders [][]int
	if n <= 4 {
		orders = permutations(n)
	} else {
		orders = c.Perms
		if len(orders) == 0 {
			id := make([]int, n)
			for i := range id {
				id[i] = i
			}
			orders = [][]int{id}
		}
	}

	// Expected facts about the input.
	total := 0
	allSorted := true
	nonEmpty := 0
	tsOwner := map[int64]int{}
	crossTie := false
	interleave := false
	var lo, hi []int64
	for i, lines := range c.Ctrs {
		total += len(lines)
		if len(lines) > 0 {
			nonEmpty++
			lo = append(lo, lines[0].TS)
			hi = append(hi, lines[len(lines)-1].TS)
		}
		for j, l := range lines {
			if j > 0 && lines[j-1].TS > l.TS {
				allSorted = false
			}
			if o, ok := tsOwner[l.TS]; ok && o != i {
				crossTie = true
			}
			tsOwner[l.TS] = i
		}
	}
	for i := range lo {
		for j := range lo {
			if i != j && lo[i] < hi[j] && lo[j] < hi[i] {
				interleave = true
			}
		}
	}
	r.Class(len(c.Aliases) > 0, "containers-with-several-names")
	r.Class(true, fmt.Sprintf("containers=%d", n))
	r.Class(crossTie, "cross-container-tie")
	r.Class(interleave, "interleaving")
	r.Class(!allSorted, "unsorted-input")
	r.Class(nonEmpty < n, "has-empty-container")
	r.NonTrivial = nonEmpty >= 2 && (interleave || crossTie)
	r.Evals = len(orders)

	r.Class(c.Broken > 0, "one-undecodable-stream")
	var first []c04Out
	for oi, order := range orders {
		out, err, rep := c04Run(c, order)
		what := fmt.Sprintf("completion order %v", order)
		if c.Broken > 0 {
			// The merged stream cannot contain "every record of every selected container":
			// a merge that ends without an error claims it does.
			if err == nil {
				r.Violation = evid.Viol("C04/incomplete-merge-succeeded", "%s: the log of container %d cannot be decoded (%s) but the merge of %d containers ended without an error after %d records", what, c.Broken-1, c.BrokenKind, n, len(out))
				return r
			}
			if rep.Opened != rep.Closed {
				r.Violation = evid.Viol("C04/close", "%s: %d readers opened, %d closed", what, rep.Opened, rep.Closed)
				return r
			}
			continue
		}
		if err != nil {
			r.Violation = evid.Viol("C04/error", "%s: unexpected error %v", what, err)
			return r
		}
		if rep.ScheduleBroken {
			// The opens are not all issued concurrently (no property demands that): the
			// completion order is not owned, the outcome is still checked.
			r.Class(true, "completion-order-not-owned")
		}
		// (a) conservation and (b) per-container order.
		if len(out) != total {
			r.Violation = evid.Viol("C04/count", "%s: merged stream has %d records, inputs have %d", what, len(out), total)
			return r
		}
		next := make([]int, n)
		for k, o := range out {
			var idx int
			if _, err := fmt.Sscanf(o.ctr, "c%d", &idx); err != nil || idx < 0 || idx >= n {
				r.Violation = evid.Viol("C04/origin", "%s: record %d has container_name %q", what, k, o.ctr)
				return r
			}
			if next[idx] >= len(c.Ctrs[idx]) {
				r.Violation = evid.Viol("C04/duplicate", "%s: container %d yields more records than it has (%q)", what, idx, o.body)
				return r
			}
			want := c.Ctrs[idx][next[idx]]
			if want.TS != o.ts || want.Msg != o.body {
				r.Violation = evid.Viol("C04/container-order", "%s: record %d of container %d is (%d,%q), want (%d,%q)", what, next[idx], idx, o.ts, o.body, want.TS, want.Msg)
				return r
			}
			next[idx]++
		}
		// (c) time order.
		if allSorted {
			for k := 1; k < len(out); k++ {
				if out[k-1].ts > out[k].ts {
					r.Violation = evid.Viol("C04/time-order", "%s: record %d (%d,%q) precedes (%d,%q)", what, k-1, out[k-1].ts, out[k-1].body, out[k].ts, out[k].body)
					return r
				}
			}
		}
		// (e) a record of the merged stream is the record its container delivers when it is read
		// alone: the same attributes too, not those of a neighbour in the merge.
		if oi == 0 && n >= 2 {
			pos := make([]int, n)
			solo := make([][]c04Out, n)
			for i := 0; i < n; i++ {
				var err error
				if solo[i], err = c04Solo(c, i); err != nil {
					r.Violation = evid.Viol("C04/error", "reading container %d alone: %v", i, err)
					return r
				}
			}
			for k, o := range out {
				var idx int
				fmt.Sscanf(o.ctr, "c%d", &idx)
				if pos[idx] < len(solo[idx]) && solo[idx][pos[idx]] != o {
					r.Violation = evid.Viol("C04/record-differs-from-solo-read", "%s: merged record %d %+v, the same record read from container %d alone is %+v", what, k, o, idx, solo[idx][pos[idx]])
					return r
				}
				pos[idx]++
			}
		}
		// (d) independence of the completion order.
		if oi == 0 {
			first = out
		} else {
			for k := range out {
				if out[k] != first[k] {
					r.Violation = evid.Viol("C04/order-dependent", "%s: record %d is %v, with completion order %v it was %v", what, k, out[k], orders[0], first[k])
					return r
				}
			}
		}
		if rep.Opened != rep.Closed {
			r.Violation = evid.Viol("C04/close", "%s: %d readers opened, %d closed", what, rep.Opened, rep.Closed)
			return r
		}
	}
	return r
}

const c04Base = int64(1700000000) * 1e9

func c04Gen(t *rapid.T) C04Case {
	var c C04Case
	n := rapid.SampledFrom([]int{0, 1, 2, 2, 3, 3, 3, 4, 4, 5, 6}).Draw(t, "containers")
	span := rapid.SampledFrom([]int64{3, 10, 50}).Draw(t, "span")
	sameText := rapid.IntRange(0, 3).Draw(t, "same-text-everywhere") == 0
	for i := 0; i < n; i++ {
		m := rapid.IntRange(0, 8).Draw(t, "records")
		if rapid.IntRange(0, 7).Draw(t, "long") == 0 {
			m = rapid.IntRange(8, 30).Draw(t, "records-long")
		}
		tss := make([]int64, m)
		for j := range tss {
			tss[j] = c04Base + rapid.Int64Range(0, span).Draw(t, "ts")*1e6
		}
		if rapid.IntRange(0, 9).Draw(t, "unsorted") != 0 {
			sort.Slice(tss, func(a, b int) bool { return tss[a] < tss[b] })
		}
		// each container writes to stdout or to stderr, some to both
		typ := rapid.SampledFrom([]byte{1, 2}).Draw(t, "stream")
		mixed := rapid.IntRange(0, 3).Draw(t, "mixed-streams") == 0
		lines := make([]dl.Line, m)
		for j := range lines {
			lines[j] = dl.Line{TS: tss[j], Msg: fmt.Sprintf("c%d#%d", i, j), Typ: typ}
			if sameText {
				// replicas log the same words at the same instant, a container repeats itself:
				// records are told apart by where they come from and in which order, not by text
				lines[j].Msg = rapid.SampledFrom([]string{"ping", "ok", "ping"}).Draw(t, "same-text")
			}
			if mixed {
				lines[j].Typ = rapid.SampledFrom([]byte{1, 2}).Draw(t, "line-stream")
			}
		}
		// A log driver that stamps its lines in the daemon host's zone: the same instants, another
		// spelling; different containers may use different ones.
		if rapid.IntRange(0, 3).Draw(t, "zoned-timestamps") == 0 {
			zone := rapid.SampledFrom([]int{180, -330, 60, 765, -720}).Draw(t, "zone-min")
			for j := range lines {
				lines[j].ZoneMin = zone
			}
		}
		// A long line arrives in chunks of 16 KiB, each a record of its own; the log may end with
		// such a chunk (the container is still writing the line, or the range ends inside it).
		if m > 0 && rapid.IntRange(0, 9).Draw(t, "chunk-of-a-long-line") == 0 {
			at := m - 1
			if rapid.Bool().Draw(t, "chunk-not-last") {
				at = rapid.IntRange(0, m-1).Draw(t, "chunk-at")
			}
			size := 16384 + rapid.SampledFrom([]int{0, 0, 0, -1, 1}).Draw(t, "chunk-size")
			lines[at].Msg = strings.Repeat(rapid.SampledFrom([]string{"x", "chunk "}).Draw(t, "chunk-fill"), size)[:size]
		}
		c.Ctrs = append(c.Ctrs, lines)
	}
	if n > 4 {
		k := 24
		for i := 0; i < k; i++ {
			c.Perms = append(c.Perms, rapid.Permutation(identity(n)).Draw(t, "perm"))
		}
	}
	c.Frag = genFrag(t)
	if n >= 1 && rapid.IntRange(0, 3).Draw(t, "aliases") == 0 {
		c.Aliases = make([][]string, n)
		for i := 0; i < n; i++ {
			for k, m := 0, rapid.SampledFrom([]int{0, 1, 1, 2}).Draw(t, "nalias"); k < m; k++ {
				c.Aliases[i] = append(c.Aliases[i], fmt.Sprintf("/link%d/c%d", k, i))
			}
		}
	}
	if n >= 2 && rapid.IntRange(0, 7).Draw(t, "id-label") == 0 {
		c.IDLabel = rapid.IntRange(1, n).Draw(t, "id-label-container")
		c.IDLabelKey = rapid.SampledFrom([]string{"container.id", "container_id", "container-id", "container/id"}).Draw(t, "id-label-key")
	}
	if n >= 1 && rapid.IntRange(0, 7).Draw(t, "one-undecodable-stream") == 0 {
		c.Broken = rapid.IntRange(1, n).Draw(t, "broken")
		c.BrokenKind = rapid.SampledFrom([]string{"tty", "syserr", "badts"}).Draw(t, "broken-kind")
		return c
	}
	if n >= 1 && rapid.IntRange(0, 4).Draw(t, "queried-from-a-start") == 0 {
		// The range starts inside the data, at a fraction of a second whose decimal spelling is
		// short or begins with zeros as often as not.
		off := rapid.SampledFrom([]int64{0, 1, 5e6, 42, 99999999, 1e8, 5e8, 123456789, 999999999}).Draw(t, "start-fraction")
		c.Start = c04Base - 2e9 + off
		// ... and the logs begin two seconds earlier, so that records lie on both sides of it.
		for i := range c.Ctrs {
			for j := range c.Ctrs[i] {
				c.Ctrs[i][j].TS += -2e9 + rapid.SampledFrom([]int64{0, 1, 3e6, 5e6, 7e6, 1e8, 4e8, 6e8, 1e9, 2e9}).Draw(t, "shift")
			}
			if rapid.IntRange(0, 9).Draw(t, "unsorted-again") != 0 {
				sort.SliceStable(c.Ctrs[i], func(a, b int) bool { return c.Ctrs[i][a].TS < c.Ctrs[i][b].TS })
			}
		}
		return c
	}
	if n >= 2 && rapid.IntRange(0, 2).Draw(t, "history") == 0 {
		calls := rapid.IntRange(1, 3).Draw(t, "history-calls")
		for i := 0; i < calls; i++ {
			var sel []int
			for idx := 0; idx < n; idx++ {
				if rapid.Bool().Draw(t, "history-pick") {
					sel = append(sel, idx)
				}
			}
			if len(sel) == 0 {
				sel = []int{rapid.IntRange(0, n-1).Draw(t, "history-one")}
			}
			c.History = append(c.History, sel)
		}
	}
	return c
}

func identity(n int) []int {
	id := make([]int, n)
	for i := range id {
		id[i] = i
	}
	return id
}

// TestC04 decides C04.
func TestC04(t *testing.T) {
	evid.Run(t, "C04", c04Gen, c04Check)
}
