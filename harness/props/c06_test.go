package props

import (
	"encoding/json"
	"fmt"
	"math/big"
	"reflect"
	"regexp"
	"strings"
	"testing"

	"pgregory.net/rapid"

	"github.com/tdakkota/docker-logql/verifharness/canon"
	"github.com/tdakkota/docker-logql/verifharness/eng"
	"github.com/tdakkota/docker-logql/verifharness/evid"
	"github.com/tdakkota/docker-logql/verifharness/gen"
	"github.com/tdakkota/docker-logql/verifharness/mockstore"
	"github.com/tdakkota/docker-logql/verifharness/model"
)

// C06Case is one case of property C06: records whose lines were rendered from known
// structure and one parser stage.
type C06Case struct {
	Recs  []model.Rec `json:"recs"`
	Stage gen.Stage   `json:"stage"`
	Text  string      `json:"text"`
}

func jsonEquivalent(a, b string) bool {
	x, ok1 := decodeExact(a)
	y, ok2 := decodeExact(b)
	return ok1 && ok2 && exactEqual(x, y)
}

// decodeExact decodes a JSON text keeping numbers as they are written.
func decodeExact(s string) (any, bool) {
	dec := json.NewDecoder(strings.NewReader(s))
	dec.UseNumber()
	var v any
	if dec.Decode(&v) != nil || dec.More() {
		return nil, false
	}
	return v, true
}

// exactEqual compares two decoded JSON values; numbers are equal when they denote the same
// number exactly (1e3 and 1000, 2.50 and 2.5 - but not two integers a float64 cannot tell apart).
func exactEqual(x, y any) bool {
	switch a := x.(type) {
	case json.Number:
		b, ok := y.(json.Number)
		if !ok {
			return false
		}
		ra, ok1 := new(big.Rat).SetString(string(a))
		rb, ok2 := new(big.Rat).SetString(string(b))
		return ok1 && ok2 && ra.Cmp(rb) == 0
	case []any:
		b, ok := y.([]any)
		if !ok || len(a) != len(b) {
			return false
		}
		for i := range a {
			if !exactEqual(a[i], b[i]) {
				return false
			}
		}
		return true
	case map[string]any:
		b, ok := y.(map[string]any)
		if !ok || len(a) != len(b) {
			return false
		}
		for k, v := range a {
			w, ok := b[k]
			if !ok || !exactEqual(v, w) {
				return false
			}
		}
		return true
	}
	return reflect.DeepEqual(x, y)
}

func c06Check(c C06Case) (r evid.Result) {
	recs := sortedRecs(c.Recs)
	q := gen.LogQuery{Stages: []gen.Stage{c.Stage}}
	r.Class(true, "stage="+c.Stage.Kind)
	r.Class(len(c.Stage.Labels) > 0, "field-list")
	r.Class(len(c.Stage.Exprs) > 0, "expressions")
	store := mockstore.New(recs, mockstore.Caps{})
	data, err := eng.Eval(store, c.Text, eng.CoverAll(recs))
	if err != nil {
		r.Violation = evid.Viol("C06/eval-error", "query %s failed: %v", c.Text, err)
		return r
	}
	streams, err := canon.Streams(data)
	if err != nil {
		r.Violation = evid.Viol("C06/result-type", "%v", err)
		return r
	}
	got := canon.Flatten(streams)
	// Never drops (or duplicates) a line.
	if len(got) != len(recs) {
		r.Violation = evid.Viol("C06/line-dropped", "query %s: %d entries for %d records", c.Text, len(got), len(recs))
		return r
	}
	byTS := map[uint64]canon.Entry{}
	for _, e := range got {
		byTS[e.TS] = e
	}
	malformed, special := false, false
	for i, rec := range recs {
		e, ok := byTS[uint64(rec.TS)]
		if !ok {
			r.Violation = evid.Viol("C06/line-dropped", "query %s: record at %d is missing", c.Text, rec.TS)
			return r
		}
		what := fmt.Sprintf("query %s over line %q (labels %v)", c.Text, trunc(string(rec.Line)), rec.Labels)
		bad := rec.Doc == nil || rec.Doc.Malformed
		if bad && (c.Stage.Kind == "json" || c.Stage.Kind == "logfmt" || c.Stage.Kind == "unpack") {
			malformed = true
			// A line the stage cannot parse is kept, unchanged and flagged.
			if e.Line != string(rec.Line) {
				r.Violation = evid.Viol("C06/malformed-line-changed", "%s: line became %q", what, trunc(e.Line))
				return r
			}
			if _, flagged := e.Labels[model.ErrorLabel]; !flagged {
				r.Violation = evid.Viol("C06/malformed-not-flagged", "%s: no __error__ label; labels %v", what, e.Labels)
				return r
			}
			continue
		}
		// Well-formed: the model says exactly which labels exist and which line comes out.
		pipe := model.NewPipeline(q.Stages)
		line, labels, keep, merr := pipe.Process(rec, rec.TS, string(rec.Line), rec.BaseLabels())
		if merr != nil {
			if isUnsupported(merr) {
				r.Class(true, "model-unsupported: "+trunc(merr.Error()))
				// What the stage extracts is not modelled here (a pattern over a line of
				// another shape), but a parser stage still never changes the line.
				if c.Stage.Kind != "unpack" && e.Line != string(rec.Line) {
					r.Violation = evid.Viol("C06/line-changed", "%s: line %q, want it unchanged", what, trunc(e.Line))
					return r
				}
				continue
			}
			r.Violation = evid.Viol("C06/harness-model-error", "%s: %v", what, merr)
			return r
		}
		if !keep {
			r.Violation = evid.Viol("C06/harness-model-error", "%s: model dropped the line", what)
			return r
		}
		if e.Line != line {
			r.Violation = evid.Viol("C06/line-changed", "%s: line %q, want %q", what, trunc(e.Line), trunc(line))
			return r
		}
		wantLabels := model.NormLabels(labels)
		gotLabels := model.NormLabels(e.Labels)
		for k, wv := range wantLabels {
			gv, ok := gotLabels[k]
			if !ok {
				r.Violation = evid.Viol("C06/field-missing", "%s: label %s is missing, want %q; got labels %v", what, k, wv, gotLabels)
				return r
			}
			if gv != wv && !jsonEquivalent(gv, wv) {
				r.Violation = evid.Viol("C06/field-value", "%s: label %s = %q, want %q", what, k, gv, wv)
				return r
			}
			if base, had := rec.BaseLabels()[k]; had && base != wv {
				special = true // an existing label was overridden
			}
			if k != model.KeyToLabel(k) || strings.ContainsAny(wv, "\"\\\n") {
				special = true
			}
		}
		for k := range gotLabels {
			if _, ok := wantLabels[k]; !ok {
				r.Violation = evid.Viol("C06/unexpected-label", "%s: unexpected label %s=%q (want labels %v)", what, k, gotLabels[k], wantLabels)
				return r
			}
		}
		if len(wantLabels) > len(rec.BaseLabels()) && i >= 0 {
			r.Class(true, "fields-extracted")
		}
		if rec.Doc != nil && rec.Doc.JSON != nil {
			for _, f := range rec.Doc.JSON.Obj {
				if f.Key != model.KeyToLabel(f.Key) {
					special = true
				}
			}
		}
	}
	r.Class(malformed, "malformed-line")
	r.Class(special, "escaping/sanitising/override")
	r.NonTrivial = malformed || special
	return r
}

// ---- generators ----

var c06Strings = []string{"plain", "", "with space", "quo\"te", "back\\slash", "new\nline", "tab\t", "é世界", "emoji😀", "a=b", "{\"not\":\"nested\"}", "1", "true", "null", "<&>", " "}
var c06Keys = []string{"a", "b", "msg", "status", "user.id", "x-y", "9lives", "sp ace", "Ünï", "_under", "a_b", "level", "app", "__error__x", "k\"q"}

func c06GenJV(t *rapid.T, depth int, allowNull bool) model.JV {
	k := rapid.IntRange(0, 9).Draw(t, "jvkind")
	if depth <= 0 && k >= 7 {
		k = 0
	}
	switch k {
	case 0, 1, 2:
		return model.JV{K: "str", S: rapid.SampledFrom(c06Strings).Draw(t, "str")}
	case 3:
		return model.JV{K: "num", S: rapid.SampledFrom([]string{"0", "1", "-1", "42", "9007199254740993", "-9223372036854775808", "9223372036854775807", "200"}).Draw(t, "int")}
	case 4:
		return model.JV{K: "num", S: rapid.SampledFrom([]string{"0.5", "1.5", "-2.25", "1e3", "2.50", "1E-2", "100.0", "3.14159"}).Draw(t, "float")}
	case 5:
		return model.JV{K: "bool", B: rapid.Bool().Draw(t, "bool")}
	case 6:
		if allowNull {
			return model.JV{K: "null"}
		}
		return model.JV{K: "str", S: "nonnull"}
	case 7, 8:
		obj := model.JV{K: "obj"}
		n := rapid.IntRange(0, 3).Draw(t, "nmembers")
		used := map[string]bool{}
		for i := 0; i < n; i++ {
			key := rapid.SampledFrom(append([]string{"", "0", "1"}, c06Keys...)).Draw(t, "key") // nested keys may be empty or look like indexes
			if used[key] {
				continue
			}
			used[key] = true
			obj.Obj = append(obj.Obj, model.JField{Key: key, Val: c06GenJV(t, depth-1, false)})
		}
		return obj
	default:
		arr := model.JV{K: "arr"}
		n := rapid.IntRange(0, 3).Draw(t, "nelems")
		for i := 0; i < n; i++ {
			arr.Arr = append(arr.Arr, c06GenJV(t, depth-1, false))
		}
		return arr
	}
}

func c06GenObject(t *rapid.T) model.JV {
	obj := model.JV{K: "obj"}
	n := rapid.IntRange(0, 6).Draw(t, "nfields")
	used := map[string]bool{}
	usedLabel := map[string]bool{}
	for i := 0; i < n; i++ {
		key := rapid.SampledFrom(c06Keys).Draw(t, "key")
		// Unique keys, and no two keys with the same sanitised form (which one wins is
		// unspecified).
		if used[key] || usedLabel[model.KeyToLabel(key)] {
			continue
		}
		used[key] = true
		usedLabel[model.KeyToLabel(key)] = true
		obj.Obj = append(obj.Obj, model.JField{Key: key, Val: c06GenJV(t, 3, true)})
	}
	return obj
}

// pathsOf lists JSON expression paths into v (to leaves and subtrees) with their spelling.
func pathsOf(v model.JV, prefix string, out *[]string) {
	switch v.K {
	case "obj":
		for _, f := range v.Obj {
			var p string
			if isIdent(f.Key) {
				if prefix == "" {
					p = f.Key
				} else {
					p = prefix + "." + f.Key
				}
			} else {
				p = prefix + `["` + strings.ReplaceAll(strings.ReplaceAll(f.Key, `\`, `\\`), `"`, `\"`) + `"]`
			}
			if f.Val.K != "null" {
				*out = append(*out, p)
			}
			pathsOf(f.Val, p, out)
		}
	case "arr":
		for i, e := range v.Arr {
			p := fmt.Sprintf("%s[%d]", prefix, i)
			if e.K != "null" {
				*out = append(*out, p)
			}
			pathsOf(e, p, out)
		}
	}
}

var lastIndexRe = regexp.MustCompile(`\[([0-9]+)\]$`)
var lastQuotedRe = regexp.MustCompile(`\["((?:[^"\\]|\\.)*)"\]$`)
var lastFieldRe = regexp.MustCompile(`(^|\.)([A-Za-z_][A-Za-z0-9_]*)$`)

// wrongTypePath replaces the last selector of a path by a selector of the other type.
func wrongTypePath(p string, variant int) string {
	switch {
	case lastIndexRe.MatchString(p):
		m := lastIndexRe.FindStringSubmatch(p)
		base := strings.TrimSuffix(p, m[0])
		if variant == 0 {
			return base + `[""]`
		}
		return base + `["` + m[1] + `"]`
	case lastQuotedRe.MatchString(p):
		base := strings.TrimSuffix(p, lastQuotedRe.FindString(p))
		return base + fmt.Sprintf("[%d]", variant)
	case lastFieldRe.MatchString(p):
		m := lastFieldRe.FindStringSubmatch(p)
		base := strings.TrimSuffix(p, m[0])
		if base == "" {
			return p
		}
		return base + fmt.Sprintf("[%d]", variant)
	}
	return p
}

func isIdent(s string) bool {
	if s == "" {
		return false
	}
	for i, c := range s {
		if !(c == '_' || (c >= 'a' && c <= 'z') || (c >= 'A' && c <= 'Z') || (i > 0 && c >= '0' && c <= '9')) {
			return false
		}
	}
	return true
}

func c06RecordLabels(t *rapid.T) map[string]string {
	labels := map[string]string{}
	for _, k := range []string{"app", "level", "a", "status"} {
		if rapid.IntRange(0, 2).Draw(t, "has-"+k) == 0 {
			labels[k] = rapid.SampledFrom([]string{"old", "web", "7"}).Draw(t, "val-"+k)
		}
	}
	return labels
}

func c06Gen(t *rapid.T) C06Case {
	var c C06Case
	kind := rapid.SampledFrom([]string{"json", "json", "json", "logfmt", "logfmt", "regexp", "pattern", "unpack"}).Draw(t, "stage")
	n := rapid.IntRange(1, 6).Draw(t, "nrecs")
	ts := int64(1700000000) * 1e9
	st := gen.Stage{Kind: kind}
	// pattern stage: a third of the cases use delimiters that are not ASCII (an arrow, guillemets,
	// a degree sign) in the lines and in the literal parts of the pattern
	wide := kind == "pattern" && rapid.IntRange(0, 2).Draw(t, "non-ascii-delimiters") == 0
	var paths []string
	for i := 0; i < n; i++ {
		ts += 1e6
		rec := model.Rec{TS: ts, Labels: c06RecordLabels(t)}
		switch kind {
		case "json":
			obj := c06GenObject(t)
			if rapid.IntRange(0, 9).Draw(t, "non-object") == 0 {
				obj = model.JV{K: "arr", Arr: []model.JV{{K: "num", S: "1"}, {K: "str", S: "x"}}}
			}
			line := obj.Render()
			doc := &model.Doc{Format: "json", JSON: &obj}
			switch rapid.IntRange(0, 7).Draw(t, "damage") {
			case 0:
				if len(line) > 1 {
					cut := rapid.IntRange(0, len(line)-1).Draw(t, "cut")
					line = line[:cut]
					doc.Malformed = true
				}
			case 2:
				line = rapid.SampledFrom([]string{"not json at all", "<xml/>", "key=value", "{'single':1}", "{\"a\":}", "{\"a\" 1}", "{,}", "[1,2"}).Draw(t, "notjson")
				doc.Malformed = true
			}
			rec.Line, rec.Doc = gen.BS(line), doc
			if !doc.Malformed {
				pathsOf(obj, "", &paths)
			}
		case "logfmt":
			doc := &model.Doc{Format: "logfmt"}
			var parts []string
			used := map[string]bool{}
			m := rapid.IntRange(0, 5).Draw(t, "npairs")
			for j := 0; j < m; j++ {
				k := rapid.SampledFrom([]string{"a", "b", "level", "status", "app", "dur", "user_id", "k2"}).Draw(t, "lkey")
				if used[k] {
					continue
				}
				used[k] = true
				v := rapid.SampledFrom([]string{"1", "info", "", "two words", "quo\"te", "a=b", "back\\slash", "é", "150ms", "tab\there"}).Draw(t, "lval")
				doc.Pairs = append(doc.Pairs, model.Pair{Key: k, Val: v})
				switch {
				case v == "":
					parts = append(parts, rapid.SampledFrom([]string{k + "=", k}).Draw(t, "emptyform"))
				case strings.ContainsAny(v, " \"=\\\t"):
					parts = append(parts, k+"="+strconvQuoteLogfmt(v))
				default:
					parts = append(parts, k+"="+v)
				}
			}
			line := strings.Join(parts, rapid.SampledFrom([]string{" ", "  ", "\t"}).Draw(t, "lsep"))
			if rapid.IntRange(0, 6).Draw(t, "damage") == 0 {
				line += rapid.SampledFrom([]string{` z="unterminated`, ` "noquotekey"=1`, ` k="bad\qescape"`}).Draw(t, "lgarbage")
				doc.Malformed = true
			}
			rec.Line, rec.Doc = gen.BS(line), doc
		case "unpack":
			obj := model.JV{K: "obj"}
			used := map[string]bool{}
			m := rapid.IntRange(0, 4).Draw(t, "npacked")
			for j := 0; j < m; j++ {
				k := rapid.SampledFrom([]string{"app", "pod", "level", "a_b", "zone"}).Draw(t, "pkey")
				if used[k] {
					continue
				}
				used[k] = true
				if rapid.IntRange(0, 5).Draw(t, "nonstring") == 0 {
					obj.Obj = append(obj.Obj, model.JField{Key: k, Val: model.JV{K: "num", S: "5"}})
				} else {
					obj.Obj = append(obj.Obj, model.JField{Key: k, Val: model.JV{K: "str", S: rapid.SampledFrom(c06Strings).Draw(t, "pval")}})
				}
			}
			if rapid.IntRange(0, 4).Draw(t, "has-entry") != 0 {
				entry := model.JField{Key: "_entry", Val: model.JV{K: "str", S: rapid.SampledFrom([]string{"the original line", "", "with \"quotes\"", "multi\nline", "{\"json\":1}"}).Draw(t, "entry")}}
				at := rapid.IntRange(0, len(obj.Obj)).Draw(t, "entry-at")
				obj.Obj = append(obj.Obj[:at], append([]model.JField{entry}, obj.Obj[at:]...)...)
			}
			line := obj.Render()
			doc := &model.Doc{Format: "packed", JSON: &obj}
			if rapid.IntRange(0, 6).Draw(t, "damage") == 0 && len(line) > 1 {
				line = line[:rapid.IntRange(0, len(line)-1).Draw(t, "cut")]
				doc.Malformed = true
			}
			rec.Line, rec.Doc = gen.BS(line), doc
		default: // regexp, pattern over delimiter-separated lines
			addr := rapid.SampledFrom([]string{"10.0.0.1", "::1", "192.168.1.7"}).Draw(t, "addr")
			user := rapid.SampledFrom([]string{"alice", "bob", "-"}).Draw(t, "user")
			status := rapid.SampledFrom([]string{"200", "404", "500"}).Draw(t, "status")
			method := rapid.SampledFrom([]string{"GET", "POST"}).Draw(t, "method")
			path := rapid.SampledFrom([]string{"/", "/api/v1", "/a?b=c"}).Draw(t, "path")
			rec.Line = gen.BS(fmt.Sprintf(`%s %s [%s] "%s %s" end`, addr, user, status, method, path))
			if wide {
				// the same fields between delimiters that are not ASCII
				rec.Line = gen.BS(fmt.Sprintf(`%s → %s «%s» %s°C end`, addr, user, status, rapid.SampledFrom([]string{"21", "-3", "36.6"}).Draw(t, "temp")))
			}
			rec.Doc = &model.Doc{Format: "delim"}
			if rapid.IntRange(0, 5).Draw(t, "nomatch") == 0 {
				rec.Line = gen.BS("a line of another shape")
			}
		}
		c.Recs = append(c.Recs, rec)
	}
	switch kind {
	case "json":
		switch rapid.IntRange(0, 3).Draw(t, "mode") {
		case 1:
			st.Labels = dedupT(rapid.SliceOfN(rapid.SampledFrom([]string{"a", "b", "msg", "status", "level", "app", "_under", "a_b", "nosuch"}), 1, 3).Draw(t, "labels"))
		case 2, 3:
			if len(paths) > 0 {
				m := rapid.IntRange(1, 3).Draw(t, "nexprs")
				used := map[string]bool{}
				for j := 0; j < m; j++ {
					dst := rapid.SampledFrom([]string{"x", "y", "app", "status", "out"}).Draw(t, "dst")
					if used[dst] {
						continue
					}
					used[dst] = true
					p := rapid.SampledFrom(paths).Draw(t, "path")
					if rapid.IntRange(0, 5).Draw(t, "missing-path") == 0 {
						p = rapid.SampledFrom([]string{"nosuch", "a.nosuch", "a[9]", `["nosuch key"]`}).Draw(t, "badpath")
					}
					if rapid.IntRange(0, 3).Draw(t, "wrong-type-path") == 0 {
						// Same place, selector of the other type: an index where a key is needed and
						// vice versa must select nothing.
						p = wrongTypePath(p, rapid.IntRange(0, 2).Draw(t, "wrong-type-variant"))
					}
					st.Exprs = append(st.Exprs, gen.KV{Label: dst, Expr: p})
				}
			}
		}
	case "logfmt":
		switch rapid.IntRange(0, 2).Draw(t, "mode") {
		case 1:
			st.Labels = dedupT(rapid.SliceOfN(rapid.SampledFrom([]string{"a", "b", "level", "status", "nosuch"}), 1, 3).Draw(t, "labels"))
		case 2:
			st.Exprs = []gen.KV{{Label: rapid.SampledFrom([]string{"renamed", "app", "x"}).Draw(t, "dst"), Expr: rapid.SampledFrom([]string{"a", "level", "dur", "nosuch"}).Draw(t, "src")}}
		}
	case "regexp":
		st.Regex = rapid.SampledFrom([]string{
			`^(?P<addr>\S+) (?P<user>\S+) \[(?P<status>\d+)\]`,
			`"(?P<method>[A-Z]+) (?P<path>[^"]*)"`,
			`(?P<app>\S+) (\S+) \[(?P<level>\d)`,
			`\[(?P<status>\d+)\] "(?P<rest>.*)" end$`,
			`(?P<empty>x*)`,
		}).Draw(t, "regex")
	case "pattern":
		if wide {
			st.Pattern = rapid.SampledFrom([]string{
				`<addr> → <user> «<status>» <temp>°C end`,
				`<_> → <user> «<_>» <_>`,
				`<addr> → <rest>`,
				`<_>«<status>»<_>°<unit> end`,
			}).Draw(t, "wide-pattern")
		} else {
			st.Pattern = rapid.SampledFrom([]string{
				`<addr> <user> [<status>] "<method> <path>" end`,
				`<addr> <_> [<status>] <_>`,
				`<app> <level> [<_>] "<rest>`,
				`<_> <_> [<_>] "<method> <_>" <tail>`,
			}).Draw(t, "pattern")
		}
		// A non-matching line is only required to be kept, unchanged: mostly keep only lines
		// of the shape the patterns were written for (their extraction is modelled).
		if rapid.IntRange(0, 3).Draw(t, "keep-other-shapes") != 0 {
			var keep []model.Rec
			for _, r := range c.Recs {
				if strings.HasSuffix(string(r.Line), " end") {
					keep = append(keep, r)
				}
			}
			c.Recs = keep
		}
	}
	// Two lines of one stream whose fields differ only in where a quote sits: one field whose
	// value spells `1",b="2`, against two fields a="1", b="2" (and the same msg field in both, so
	// that nothing else tells the label sets apart). Each line keeps its own fields.
	if kind == "json" && len(st.Labels) == 0 && len(st.Exprs) == 0 && rapid.IntRange(0, 7).Draw(t, "quote-shifted-pair") == 0 {
		mk := func(fields []model.JField) model.Rec {
			obj := model.JV{K: "obj", Obj: fields}
			ts += 1e6
			return model.Rec{TS: ts, Line: gen.BS(obj.Render()), Doc: &model.Doc{Format: "json", JSON: &obj}, Labels: map[string]string{}} // no label that sorts between a and b
		}
		str := func(s string) model.JV { return model.JV{K: "str", S: s} }
		pair := []model.Rec{
			mk([]model.JField{{Key: "msg", Val: str("same")}, {Key: "a", Val: str("1\",b=\"2")}}),
			mk([]model.JField{{Key: "msg", Val: str("same")}, {Key: "a", Val: str("1")}, {Key: "b", Val: str("2")}}),
		}
		if rapid.Bool().Draw(t, "quote-shifted-order") {
			pair[0], pair[1] = pair[1], pair[0]
			pair[0].TS, pair[1].TS = pair[1].TS, pair[0].TS
		}
		c.Recs = append(c.Recs, pair...)
	}
	c.Stage = st
	c.Text = gen.PrintLog(&gen.LogQuery{Stages: []gen.Stage{st}}, gen.Plain{})
	return c
}

func dedupT(in []string) []string {
	seen := map[string]bool{}
	var out []string
	for _, s := range in {
		if !seen[s] {
			seen[s] = true
			out = append(out, s)
		}
	}
	return out
}

// strconvQuoteLogfmt quotes a logfmt value (backslash escapes for quote and backslash, \t).
func strconvQuoteLogfmt(v string) string {
	var sb strings.Builder
	sb.WriteByte('"')
	for _, c := range v {
		switch c {
		case '"':
			sb.WriteString(`\"`)
		case '\\':
			sb.WriteString(`\\`)
		case '\t':
			sb.WriteString(`\t`)
		default:
			sb.WriteRune(c)
		}
	}
	sb.WriteByte('"')
	return sb.String()
}

// TestC06 decides C06.
func TestC06(t *testing.T) {
	evid.Run(t, "C06", c06Gen, c06Check)
}
