package props

import (
	"fmt"
	"os"
	"testing"

	"pgregory.net/rapid"

	"github.com/tdakkota/docker-logql/verifharness/mockstore"
	"github.com/tdakkota/docker-logql/verifharness/model"
)

func TestDebugC01(t *testing.T) {
	if os.Getenv("VERIF_DEBUG") == "" {
		t.Skip()
	}
	n := 0
	rapid.Check(t, func(rt *rapid.T) {
		c := c01Gen(rt)
		recs := append([]model.Rec(nil), c.Recs...)
		model.SortRecs(recs)
		want, err := model.EvalLog(&c.Query, recs)
		if err == nil && len(want) == 0 && len(recs) > 3 && n < 40 {
			n++
			fmt.Printf("EMPTY n=%d %s\n   first: %q %v\n", len(recs), c.Text, recs[0].Line, recs[0].Labels)
		}
	})
}

// TestDebugQuery evaluates $VERIF_QUERY over a small fixed data set and prints the result.
func TestDebugQuery(t *testing.T) {
	q := os.Getenv("VERIF_QUERY")
	if q == "" {
		t.Skip()
	}
	base := int64(1700000000) * 1e9
	var recs []model.Rec
	for i, l := range []map[string]string{{"app": "web", "env": "prod"}, {"app": "web", "env": "dev"}, {"app": "db", "env": "prod"}, {"app": "db"}} {
		recs = append(recs, model.Rec{TS: base + int64(i)*1e9, Line: "x", Labels: l})
	}
	p := model.Params{Start: base + 10e9, End: base + 10e9, Limit: -1}
	if os.Getenv("VERIF_RANGE") != "" {
		p = model.Params{Start: base, End: base + 10e9, Step: 2e9, Limit: -1}
	}
	pm, m, v, _ := runMetric(recs, mockstore.Caps{}, false, q, p)
	fmt.Printf("query %s\n  violation: %v\n  kind %s\n", q, v, m.Kind)
	for k, pts := range pm {
		fmt.Printf("  {%s} %v\n", k, pts)
	}
}
