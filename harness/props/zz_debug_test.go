package props

import (
	"fmt"
	"os"
	"testing"

	"pgregory.net/rapid"

	"github.com/tdakkota/docker-logql/verifharness/model"
)

func TestDebugC01(t *testing.T) {
	if os.Getenv("VERIF_DEBUG") == "" {
		t.Skip()
	}
	n := 0
	rapid.Check(t, func(rt *rapid.T) {
		c := c01Gen(rt)
		recs := append([]model.Rec(nil), c.Recs...)
		model.SortRecs(recs)
		want, err := model.EvalLog(&c.Query, recs)
		if err == nil && len(want) == 0 && len(recs) > 3 && n < 40 {
			n++
			fmt.Printf("EMPTY n=%d %s\n   first: %q %v\n", len(recs), c.Text, recs[0].Line, recs[0].Labels)
		}
	})
}
