package props

import (
	"fmt"
	"sort"
	"strings"
	"testing"

	"pgregory.net/rapid"

	"github.com/tdakkota/docker-logql/verifharness/canon"
	"github.com/tdakkota/docker-logql/verifharness/datagen"
	"github.com/tdakkota/docker-logql/verifharness/evid"
	"github.com/tdakkota/docker-logql/verifharness/gen"
	"github.com/tdakkota/docker-logql/verifharness/mockstore"
	"github.com/tdakkota/docker-logql/verifharness/model"
)

func concatKey(labels map[string]string) string {
	keys := make([]string, 0, len(labels))
	for k := range labels {
		keys = append(keys, k)
	}
	sort.Strings(keys)
	var sb strings.Builder
	for _, k := range keys {
		sb.WriteString(k)
		sb.WriteString(labels[k])
	}
	return sb.String()
}

// c10Identical: records that are identical but for their timestamps carry equal label sets
// whatever a parser stage makes of their keys, so they form exactly one series that counts them
// all - on every repetition.
func c10Identical(c MetricCase) (r evid.Result) {
	recs := sortedRecs(c.Recs)
	r.Class(true, "identical-records")
	r.NonTrivial = c.Identical >= 2
	for i := 0; i < 6; i++ {
		got, _, v, _ := runMetric(recs, c.Caps, false, c.Text, c.Params)
		r.Evals++
		if v != nil {
			v.Sig = "C10/" + v.Sig
			r.Violation = v
			return r
		}
		if len(got) != 1 {
			r.Violation = evid.Viol("C10/identical-records-split", "%s over %d identical records %q: %d series %v, want one", c.Text, c.Identical, trunc(string(recs[0].Line)), len(got), got)
			return r
		}
		for k, pts := range got {
			for _, val := range pts {
				if int(val+0.5) != c.Identical {
					r.Violation = evid.Viol("C10/total-not-conserved", "%s over %d identical records: series {%s} = %v", c.Text, c.Identical, k, val)
					return r
				}
			}
		}
	}
	return r
}

// c10Near: records whose lines differ in one label value only, by as little as two values can
// differ (integers next to each other beyond 2^53, a trailing blank, letter case, a leading
// zero, composed and decomposed accents): different label sets, so one series per value, each
// counting its own records.
func c10Near(c MetricCase) (r evid.Result) {
	recs := sortedRecs(c.Recs)
	r.Class(true, "near-values")
	r.NonTrivial = len(c.Near) >= 2
	for i := 0; i < 3; i++ {
		got, _, v, _ := runMetric(recs, c.Caps, false, c.Text, c.Params)
		r.Evals++
		if v != nil {
			v.Sig = "C10/" + v.Sig
			r.Violation = v
			return r
		}
		want := map[string]int{}
		for k, val := range c.NearVals {
			want[canon.LabelKey(map[string]string{"v": val})] = c.Near[k]
		}
		for k, pts := range got {
			n, ok := want[k]
			if !ok {
				r.Violation = evid.Viol("C10/near-values-merged", "%s over lines with v = %q (%v records each): series {%s}, which no record has", c.Text, c.NearVals, c.Near, k)
				return r
			}
			for _, val := range pts {
				if int(val+0.5) != n {
					r.Violation = evid.Viol("C10/near-values-merged", "%s over lines with v = %q (%v records each): series {%s} = %v, want %d", c.Text, c.NearVals, c.Near, k, val, n)
					return r
				}
			}
			delete(want, k)
		}
		if len(want) > 0 {
			r.Violation = evid.Viol("C10/near-values-merged", "%s over lines with v = %q (%v records each): %d of the series are missing (got %v)", c.Text, c.NearVals, c.Near, len(want), got)
			return r
		}
	}
	return r
}

func c10Check(c MetricCase) (r evid.Result) {
	if c.Identical > 0 {
		return c10Identical(c)
	}
	if len(c.Near) > 0 {
		return c10Near(c)
	}
	recs := sortedRecs(c.Recs)
	ev := model.NewEvaluator(recs)
	rep := c.Repeat
	if rep < 1 {
		rep = 1
	}
	// Non-triviality is judged on the series of the model's result: a series of >=2 labels that
	// aggregates >=2 samples at some step, or two distinct label sets whose sorted
	// name/value strings concatenate to the same text.
	shared, spliced := false, false
	r.Class(c.M.Kind == "vecagg", "vector-aggregation")
	r.Class(c.Params.Instant(), "instant")

	want, err := ev.Eval(&c.M, c.Params)
	if err != nil {
		if isUnsupported(err) {
			r.Class(true, "model-unsupported")
			return r
		}
		r.Violation = evid.Viol("C10/harness-model-error", "%v", err)
		return r
	}
	byConcat := map[string]string{}
	for k, labels := range want.Labels {
		ck := concatKey(labels)
		if prev, ok := byConcat[ck]; ok && prev != k {
			spliced = true
		}
		byConcat[ck] = k
		if len(labels) >= 2 {
			for _, v := range want.Points[k] {
				if v >= 2 {
					shared = true
				}
			}
		}
	}
	r.Class(shared, "shared-label-set")
	r.Class(spliced, "concatenation-collision")
	r.NonTrivial = shared || spliced
	// Per-step totals of the inner count_over_time: number of samples in the window.
	inner := model.Ranges(&c.M)[0]
	r.Evals = rep
	for i := 0; i < rep; i++ {
		// A fresh engine (and fresh maps) every time: Go randomises map iteration per range.
		if v := compareMetric("C10", c, recs, ev, c.Params, fmt.Sprintf("(repetition %d)", i)); v != nil {
			r.Violation = v
			return r
		}
	}
	// Conservation, stated explicitly for sum()/bare count: the values at a step add up to the
	// number of samples in that step's window.
	if inner.Op == "count_over_time" && (c.M.Kind == "range" || (c.M.Kind == "vecagg" && c.M.Op == "sum" && c.M.Inner.Kind == "range")) {
		got, _, v, _ := runMetric(recs, c.Caps, c.Superset, c.Text, c.Params)
		if v != nil {
			v.Sig = "C10/" + v.Sig
			r.Violation = v
			return r
		}
		for _, t := range c.Params.Steps() {
			_, _, total, err := ev.WindowStats(inner, []int64{t})
			if err != nil {
				break
			}
			tms := t / 1e6
			sum := 0.0
			for _, pts := range got {
				if v, ok := pts[tms]; ok {
					sum += v
				}
			}
			if int(sum+0.5) != total {
				r.Violation = evid.Viol("C10/total-not-conserved", "%s at %d: series add up to %v, the window holds %d samples", c.Text, tms, sum, total)
				return r
			}
		}
	}
	return r
}

func c10Gen(t *rapid.T) MetricCase {
	var c MetricCase
	if rapid.IntRange(0, 11).Draw(t, "near-values") == 0 {
		set := rapid.SampledFrom([]struct {
			json bool
			vals []string // as written in the line; NearVals is what the label holds
			want []string
		}{
			{true, []string{"9007199254740992", "9007199254740993"}, []string{"9007199254740992", "9007199254740993"}},
			{true, []string{"1234567890123456789", "1234567890123456790", "1234567890123456791"}, []string{"1234567890123456789", "1234567890123456790", "1234567890123456791"}},
			{true, []string{"-9007199254740993", "-9007199254740992"}, []string{"-9007199254740993", "-9007199254740992"}},
			{true, []string{`"a"`, `"a "`, `"A"`}, []string{"a", "a ", "A"}},
			{true, []string{`"1"`, `"01"`, `"1.0"`}, []string{"1", "01", "1.0"}},
			{true, []string{`"\u00e9"`, `"e\u0301"`}, []string{"\u00e9", "e\u0301"}},
			{false, []string{"1", "01", "1.0", "+1"}, []string{"1", "01", "1.0", "+1"}},
			{false, []string{"a", "A"}, []string{"a", "A"}},
			{false, []string{"9007199254740992", "9007199254740993"}, []string{"9007199254740992", "9007199254740993"}},
		}).Draw(t, "near-set")
		stage := "logfmt"
		if set.json {
			stage = "json"
		}
		ts := datagen.BaseTS
		for k, v := range set.vals {
			n := rapid.IntRange(1, 6).Draw(t, "near-n")
			c.Near = append(c.Near, n)
			line := "v=" + v + " w=same"
			if set.json {
				line = `{"v":` + v + `,"w":"same"}`
			}
			for i := 0; i < n; i++ {
				ts += datagen.Tick
				c.Recs = append(c.Recs, model.Rec{TS: ts, Line: gen.BS(line), Labels: map[string]string{"app": "web"}})
			}
			_ = k
		}
		c.NearVals = set.want
		c.Text = fmt.Sprintf(rapid.SampledFrom([]string{"sum by (v) (count_over_time({} | %s [60y]))", "sum by (v) (count_over_time({} | %s | drop msg [60y]))", "sum without (msg, app, w) (count_over_time({} | %s [60y]))"}).Draw(t, "near-query"), stage)
		at := ts + datagen.Tick
		c.Params = model.Params{Start: at, End: at, Step: 0, Limit: -1}
		c.M = gen.Metric{Kind: "literal"}
		return c
	}
	if rapid.IntRange(0, 9).Draw(t, "identical-records") == 0 {
		// keys that differ only in characters a label name cannot hold, keys that repeat, keys that
		// shadow the record's own labels
		line := rapid.SampledFrom([]string{"req.id=1 req-id=2 req_id=3", "a.b=x a_b=y", "k-1=v k_1=w k.1=z", "id=7 id=8", "x=1", "app=shadow a/b=1 a-b=2",
			// names that differ only in the case of their letters are different names
			"App=1 app=2", "ID=7 id=8 Id=9", "Level=info level=warn LEVEL=x", `{"ID":1,"id":2}`, `{"App":"a","app":"b","APP":"c"}`,
			`{"req.id":1,"req-id":2,"req_id":3}`, `{"a.b":"x","a_b":"y","a b":"z"}`, `{"n":{"m":1},"n.m":2,"n_m":3}`}).Draw(t, "identical-line")
		stage := "logfmt"
		if strings.HasPrefix(line, "{") {
			stage = "json"
		}
		n := rapid.IntRange(1, 40).Draw(t, "identical-n")
		for i := 0; i < n; i++ {
			c.Recs = append(c.Recs, model.Rec{TS: datagen.BaseTS + int64(i)*datagen.Tick, Line: gen.BS(line), Labels: map[string]string{"app": "web"}})
		}
		grouping := rapid.SampledFrom([]string{"", "sum by (req_id, a_b, k_1, n_m, id, ID, App, app, level, Level) (%s)", "sum without (msg) (%s)", "max(%s)", "count by (app) (%s) * %d"}).Draw(t, "identical-agg")
		q := "count_over_time({} | " + stage + " [60y])"
		switch {
		case strings.HasPrefix(grouping, "count"):
			// one series in, so the count is 1: scaled back to n to share the oracle
			q = fmt.Sprintf(grouping, q, n)
		case grouping != "":
			q = fmt.Sprintf(grouping, q)
		}
		at := datagen.BaseTS + int64(n)*datagen.Tick
		c.Text, c.Identical = q, n
		c.Params = model.Params{Start: at, End: at, Step: 0, Limit: -1}
		c.M = gen.Metric{Kind: "literal"}
		return c
	}
	d := datagen.GenMetricData(t, 24, rapid.IntRange(0, 3).Draw(t, "ambiguous") != 0, false, false)
	funcs := []string{"count_over_time"}
	grouped := rapid.IntRange(0, 3).Draw(t, "grouped-range") == 0
	if grouped {
		// A range aggregation with its own by/without clause under an outer clause: the series
		// identity after two levels of grouping.
		funcs = []string{"max_over_time", "min_over_time"}
	}
	m := datagen.GenRange(t, d, datagen.RangeOpts{Funcs: funcs, NoOffset: true, KeepStage: true, Grouping: grouped}, false)
	// Mostly keep only the ambiguous labels so that label sets really repeat and splice.
	if rapid.IntRange(0, 2).Draw(t, "keep-group-labels") != 0 {
		keep := append([]string{}, d.GroupLabels...)
		if grouped {
			keep = append(keep, "val", "size", "dur") // the unwrapped labels must survive
		}
		m.Log.Stages = append(m.Log.Stages, gen.Stage{Kind: "keep", Labels: keep})
	}
	top := m
	if rapid.Bool().Draw(t, "wrap") || grouped {
		top = &gen.Metric{Kind: "vecagg", Op: rapid.SampledFrom([]string{"sum", "sum", "count"}).Draw(t, "aggop"), Inner: m}
		top.Grouping = datagen.GenGrouping(t, d, "g")
		if top.Grouping == nil {
			top.Grouping = &gen.Grouping{Without: true, Labels: []string{"nosuch"}}
		}
		top.GroupingFirst = rapid.Bool().Draw(t, "grouping-first")
		if grouped && len(d.GroupLabels) >= 2 && rapid.Bool().Draw(t, "two-level-without") {
			// Two levels of "without" over different labels: the outer clause must not leak
			// into the identity of the inner series at later steps.
			l1 := rapid.IntRange(0, len(d.GroupLabels)-1).Draw(t, "inner-without")
			l2 := (l1 + 1 + rapid.IntRange(0, len(d.GroupLabels)-2).Draw(t, "outer-without")) % len(d.GroupLabels)
			m.Grouping = &gen.Grouping{Without: true, Labels: []string{"msg", "id", "val", "size", "dur", d.GroupLabels[l1]}}
			top.Grouping = &gen.Grouping{Without: true, Labels: []string{d.GroupLabels[l2]}}
		}
	}
	if top != m && rapid.IntRange(0, 2).Draw(t, "second-level") == 0 {
		// One more aggregation on top: the identity of a series after an inner clause that may
		// keep no label at all ("by ()", no clause) and an outer one that names labels again.
		if rapid.Bool().Draw(t, "inner-keeps-nothing") {
			top.Grouping = rapid.SampledFrom([]*gen.Grouping{nil, {Labels: []string{}}}).Draw(t, "inner-empty")
		}
		outer := &gen.Metric{Kind: "vecagg", Op: rapid.SampledFrom([]string{"sum", "max", "count"}).Draw(t, "aggop2"), Inner: top}
		outer.Grouping = datagen.GenGrouping(t, d, "g2")
		outer.GroupingFirst = rapid.Bool().Draw(t, "grouping-first2")
		top = outer
	}
	nestedBy := false
	if len(d.GroupLabels) >= 2 && rapid.IntRange(0, 5).Draw(t, "by-over-by") == 0 {
		// by over by on a grid whose windows overlap: the outer clause keeps the label that sorts
		// last of those the inner one keeps; a series of the inner level lives on from step to step.
		labels := append([]string(nil), d.GroupLabels...)
		sortStringsT(labels)
		inner := &gen.Metric{Kind: "vecagg", Op: "sum", Inner: m, Grouping: &gen.Grouping{Labels: labels}, GroupingFirst: rapid.Bool().Draw(t, "bob-first")}
		if m.Grouping != nil {
			m.Grouping = nil
		}
		top = &gen.Metric{Kind: "vecagg", Op: rapid.SampledFrom([]string{"sum", "max", "count"}).Draw(t, "bob-op"), Inner: inner,
			Grouping: &gen.Grouping{Labels: labels[len(labels)-1:]}, GroupingFirst: rapid.Bool().Draw(t, "bob-first2")}
		nestedBy = true
	}
	c.Recs = d.Recs
	c.M = *top
	c.Text = gen.PrintMetric(top, datagen.RapidLayout{T: t})
	if nestedBy {
		c.Params = datagen.GenGrid(t, c.Recs, 16)
		if c.Params.Step > m.RangeNs/2 && m.RangeNs >= 2*datagen.Tick {
			c.Params.Step = m.RangeNs / 2 / datagen.Tick * datagen.Tick // overlapping windows
			if n := (c.Params.End - c.Params.Start) / c.Params.Step; n > 40 {
				c.Params.End = c.Params.Start + 40*c.Params.Step
			}
		}
	} else if rapid.IntRange(0, 3).Draw(t, "instant") == 0 {
		g := datagen.GenGrid(t, c.Recs, 10)
		steps := g.Steps()
		at := steps[len(steps)/2]
		c.Params = model.Params{Start: at, End: at, Step: 0, Limit: -1}
	} else {
		c.Params = datagen.GenGrid(t, c.Recs, 16)
	}
	c.Caps = mockstore.Caps{Label: rapid.IntRange(0, 15).Draw(t, "caps-label"), Line: rapid.IntRange(0, 15).Draw(t, "caps-line")}
	c.Repeat = 5
	return c
}

// TestC10 decides C10.
func TestC10(t *testing.T) {
	evid.Run(t, "C10", c10Gen, c10Check)
}
