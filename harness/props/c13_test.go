package props

import (
	"fmt"
	"strings"
	"testing"

	"pgregory.net/rapid"

	"github.com/tdakkota/docker-logql/verifharness/canon"
	"github.com/tdakkota/docker-logql/verifharness/evid"
	"github.com/tdakkota/docker-logql/verifharness/gen"
	"github.com/tdakkota/docker-logql/verifharness/mockstore"
	"github.com/tdakkota/docker-logql/verifharness/model"
)

// C13Operand is vector(v), the bare scalar literal v (Lit) or a parenthesised sub-chain.
type C13Operand struct {
	Text string    `json:"text,omitempty"`
	V    float64   `json:"v,omitempty"`
	Lit  bool      `json:"lit,omitempty"`
	Sub  *C13Chain `json:"sub,omitempty"`
	// Series mode: the operand is a vector of two series, k="a" with value V and, when HasB,
	// k="b" with value VB (both small counts).
	VB   float64 `json:"vb,omitempty"`
	HasB bool    `json:"has_b,omitempty"`
	// Sparse mode: the number of records of series a / b in the window of each instant of the
	// grid (0 = the series is missing from the operand at that instant).
	SA []int `json:"sa,omitempty"`
	SB []int `json:"sb,omitempty"`
}

// C13Chain is operand (op operand)*.
type C13Chain struct {
	Operands []C13Operand `json:"operands"`
	Ops      []string     `json:"ops"`
}

// C13Case is one case of property C13.
type C13Case struct {
	Chain C13Chain `json:"chain"`
	Text  string   `json:"text"`
	// Series: the vector operands are computed from log records and carry two series (k="a",
	// k="b"), the second one missing from some operands: an expression is evaluated series by
	// series, and its sides differ in size.
	Series bool `json:"series,omitempty"`
	// Steps > 0 evaluates over a grid of Steps+1 instants one second apart instead of one instant
	// (the command always does): the operands are constants, so every instant has to give the
	// value of the conventional reading - whatever an earlier step left behind.
	Steps int `json:"steps,omitempty"`
	// Sparse (with Series): the operands change from instant to instant - a series is there at
	// one and gone at the next - so that an evaluation which lets one side of an operator fall
	// behind the other shows.
	Sparse bool `json:"sparse,omitempty"`
}

// c13LeafHook, when set, gives the value of a vector operand (sparse mode: at one instant, for one series).
var c13LeafHook func(o C13Operand) optVal

// c13LeafRange is the range of the operands' range aggregation.
var c13LeafRange = "1m"

// c13Steps is set by the check around its calls (a test binary decides one case at a time).
var c13Steps int

func c13Params() model.Params {
	at := int64(1700000000) * 1e9
	if c13Steps > 0 {
		return model.Params{Start: at, End: at + int64(c13Steps)*1e9, Step: 1e9, Limit: -1}
	}
	return model.Params{Start: at, End: at, Step: 0, Limit: -1}
}

// c13OnePoint reduces the points of a series to one value: on a grid all of them must agree.
func c13OnePoint(text, series string, pts map[int64]float64) (optVal, *evid.Violation) {
	var out optVal
	if len(pts) != 0 && len(pts) != c13Steps+1 {
		return out, evid.Viol("C13/many-points", "%s: series {%s} has %d points on a grid of %d instants", text, series, len(pts), c13Steps+1)
	}
	for ts, val := range pts {
		if out.ok && !optEq(out, optVal{ok: true, v: val}) {
			return out, evid.Viol("C13/varies-over-steps", "%s: constant operands, but series {%s} is %v at one instant and %v at %d", text, series, out.v, val, ts)
		}
		out = optVal{ok: true, v: val}
	}
	return out, nil
}

// c13SeriesLeaf is the text of vector operand i in series mode.
func c13SeriesLeaf(i int) string {
	return fmt.Sprintf(`sum by (k) (count_over_time({leaf="L%d"}[%s]))`, i, c13LeafRange)
}

// seriesText prints the chain in series mode; *idx counts the vector operands.
func (c C13Chain) seriesText(idx *int) string {
	var sb strings.Builder
	for i, o := range c.Operands {
		if i > 0 {
			sb.WriteString(" " + c.Ops[i-1] + " ")
		}
		switch {
		case o.Sub != nil:
			sb.WriteString("(" + o.Sub.seriesText(idx) + ")")
		case o.Lit:
			sb.WriteString(o.Text)
		default:
			sb.WriteString(c13SeriesLeaf(*idx))
			*idx++
		}
	}
	return sb.String()
}

// c13SeriesRecs builds the records behind the vector operands: V (VB) records per operand and series.
func c13SeriesRecs(c C13Chain, idx *int, recs *[]model.Rec) {
	const at = int64(1700000000) * 1e9
	for _, o := range c.Operands {
		switch {
		case o.Sub != nil:
			c13SeriesRecs(*o.Sub, idx, recs)
		case o.Lit:
		default:
			add := func(k string, n int) {
				for j := 0; j < n; j++ {
					*recs = append(*recs, model.Rec{TS: at - 1e9 - int64(len(*recs))*1e6, Line: gen.BS(fmt.Sprintf("L%d %s %d", *idx, k, j)),
						Labels: model.LabelMap{"leaf": fmt.Sprintf("L%d", *idx), "k": k}})
				}
			}
			add("a", int(o.V))
			if o.HasB {
				add("b", int(o.VB))
			}
			*idx++
		}
	}
}

func (c C13Chain) String() string {
	var sb strings.Builder
	for i, o := range c.Operands {
		if i > 0 {
			sb.WriteString(" " + c.Ops[i-1] + " ")
		}
		if o.Sub != nil {
			sb.WriteString("(" + o.Sub.String() + ")")
		} else if o.Lit {
			sb.WriteString(o.Text)
		} else {
			sb.WriteString("vector(" + o.Text + ")")
		}
	}
	return sb.String()
}

type optVal struct {
	ok bool
	v  float64
}

func (o optVal) String() string {
	if !o.ok {
		return "<empty>"
	}
	return fmt.Sprint(o.v)
}

func c13Apply(op string, l, r optVal) optVal {
	switch op {
	case "and":
		if l.ok && r.ok {
			return l
		}
		return optVal{}
	case "or":
		if l.ok {
			return l
		}
		return r
	case "unless":
		if l.ok && !r.ok {
			return l
		}
		return optVal{}
	}
	if !l.ok || !r.ok {
		return optVal{}
	}
	v, err := model.BinArith(op, l.v, r.v)
	if err != nil {
		panic(err)
	}
	return optVal{ok: true, v: v}
}

// Conventional precedence levels (higher binds tighter).
func c13Prec(op string) int {
	switch op {
	case "or":
		return 1
	case "and", "unless":
		return 2
	case "==", "!=", ">", ">=", "<", "<=":
		return 3
	case "+", "-":
		return 4
	case "*", "/", "%":
		return 5
	case "^":
		return 6
	}
	return 0
}

type c13Tree struct {
	leaf optVal
	lit  bool // the leaf is a scalar literal
	op   string
	l, r *c13Tree
}

// scalarOK tells whether the tree is an expression the engine supports: no operator between
// two scalars and no set operator over a scalar. isScalar reports the kind of its value.
func (t *c13Tree) scalarOK() (isScalar, ok bool) {
	switch t.op {
	case "":
		return t.lit, true
	case "()":
		return t.l.scalarOK()
	}
	ls, lok := t.l.scalarOK()
	rs, rok := t.r.scalarOK()
	if !lok || !rok || (ls && rs) {
		return false, false
	}
	if (ls || rs) && (t.op == "and" || t.op == "or" || t.op == "unless") {
		return false, false
	}
	return false, true
}

func (t *c13Tree) shape() string {
	if t.op == "" {
		return "x"
	}
	return "(" + t.l.shape() + t.op + t.r.shape() + ")"
}

func (t *c13Tree) eval() optVal {
	if t.op == "" {
		return t.leaf
	}
	return c13Apply(t.op, t.l.eval(), t.r.eval())
}

// c13Parse builds the tree of a chain by precedence climbing. rightAssocAll is the defect
// model of the known finding: every level associates to the right.
func c13Parse(c C13Chain, rightAssocAll bool) *c13Tree { return c13ParseFor(c, rightAssocAll, false) }

// c13ParseFor builds the tree with the values of series k="a" or, with seriesB, of series k="b".
func c13ParseFor(c C13Chain, rightAssocAll bool, seriesB bool) *c13Tree {
	pos := 0
	operand := func(i int) *c13Tree {
		o := c.Operands[i]
		if o.Sub != nil {
			sub := c13ParseFor(*o.Sub, rightAssocAll, seriesB)
			// Parentheses: the value of the sub-tree, kept as a leaf-like unit.
			return &c13Tree{op: "()", l: sub, r: &c13Tree{}}
		}
		if c13LeafHook != nil && !o.Lit {
			return &c13Tree{leaf: c13LeafHook(o)}
		}
		if seriesB && !o.Lit {
			return &c13Tree{leaf: optVal{ok: o.HasB, v: o.VB}}
		}
		return &c13Tree{leaf: optVal{ok: true, v: o.V}, lit: o.Lit}
	}
	var climb func(minPrec int) *c13Tree
	climb = func(minPrec int) *c13Tree {
		left := operand(pos)
		for pos < len(c.Ops) {
			op := c.Ops[pos]
			p := c13Prec(op)
			if p < minPrec {
				break
			}
			pos++
			next := p + 1
			if op == "^" || rightAssocAll {
				next = p
			}
			right := climb(next)
			left = &c13Tree{op: op, l: left, r: right}
		}
		return left
	}
	return climb(0)
}

func init() {
	// "()" nodes evaluate to their left child.
}

func (t *c13Tree) evalP() optVal {
	switch t.op {
	case "":
		return t.leaf
	case "()":
		return t.l.evalP()
	}
	return c13Apply(t.op, t.l.evalP(), t.r.evalP())
}

func (t *c13Tree) shapeP() string {
	switch t.op {
	case "":
		return "x"
	case "()":
		return "[" + t.l.shapeP() + "]"
	}
	return "(" + t.l.shapeP() + t.op + t.r.shapeP() + ")"
}

// fullyParenthesised prints the conventional reading with explicit parentheses.
func (t *c13Tree) fullyParenthesised(c *C13Chain, idx *int) string {
	switch t.op {
	case "":
		return leafText(c, idx)
	case "()":
		return "(" + t.l.fullyParenthesised(c, idx) + ")"
	}
	l := t.l.fullyParenthesised(c, idx)
	r := t.r.fullyParenthesised(c, idx)
	return "(" + l + " " + t.op + " " + r + ")"
}

func flattenLeaves(c *C13Chain, out *[]string, vec *int) {
	for _, o := range c.Operands {
		if o.Sub != nil {
			flattenLeaves(o.Sub, out, vec)
		} else if o.Lit {
			*out = append(*out, o.Text)
		} else if vec != nil {
			*out = append(*out, c13SeriesLeaf(*vec))
			*vec++
		} else {
			*out = append(*out, "vector("+o.Text+")")
		}
	}
}

// c13SeriesMode makes leafText print the operands of series mode (set by the check around its
// calls; a test binary decides one case at a time).
var c13SeriesMode bool

func leafText(c *C13Chain, idx *int) string {
	var leaves []string
	if c13SeriesMode {
		vec := 0
		flattenLeaves(c, &leaves, &vec)
	} else {
		flattenLeaves(c, &leaves, nil)
	}
	s := leaves[*idx]
	*idx++
	return s
}

// c13EvalSeries evaluates text over recs and returns the values of series k="a" and k="b".
func c13EvalSeries(text string, recs []model.Rec) (a, b optVal, v *evid.Violation) {
	sorted := append([]model.Rec(nil), recs...)
	model.SortRecs(sorted)
	got, _, v, _ := runMetric(sorted, mockstore.Caps{}, false, text, c13Params())
	if v != nil {
		v.Sig = "C13/" + v.Sig
		return a, b, v
	}
	keyA, keyB := canon.LabelKey(map[string]string{"k": "a"}), canon.LabelKey(map[string]string{"k": "b"})
	for k, pts := range got {
		if k != keyA && k != keyB {
			return a, b, evid.Viol("C13/labels", "%s: result series carries labels {%s}", text, k)
		}
		one, v := c13OnePoint(text, k, pts)
		if v != nil {
			return a, b, v
		}
		if k == keyA {
			a = one
		} else {
			b = one
		}
	}
	return a, b, nil
}

// c13CheckSparse is c13Check for sparse series mode: the conventional reading is evaluated for
// every instant and series from the operands' values there.
func c13CheckSparse(c C13Case) (r evid.Result) {
	c13SeriesMode, c13LeafRange = true, "1s"
	defer func() { c13SeriesMode, c13LeafRange, c13LeafHook = false, "1m", nil }()
	const at = int64(1700000000) * 1e9
	// records: SA[t] (SB[t]) records of operand i half a second before instant t
	var recs []model.Rec
	idx := 0
	var walk func(ch C13Chain)
	walk = func(ch C13Chain) {
		for _, o := range ch.Operands {
			switch {
			case o.Sub != nil:
				walk(*o.Sub)
			case o.Lit:
			default:
				for t := 0; t <= c.Steps; t++ {
					for s, n := range []int{o.SA[t], o.SB[t]} {
						for j := 0; j < n; j++ {
							recs = append(recs, model.Rec{TS: at + int64(t)*1e9 - 500e6 - int64(j)*1e6, Line: gen.BS(fmt.Sprintf("L%d %d %d %d", idx, s, t, j)),
								Labels: model.LabelMap{"leaf": fmt.Sprintf("L%d", idx), "k": []string{"a", "b"}[s]}})
						}
					}
				}
				idx++
			}
		}
	}
	walk(c.Chain)
	sorted := append([]model.Rec(nil), recs...)
	model.SortRecs(sorted)
	p := model.Params{Start: at, End: at + int64(c.Steps)*1e9, Step: 1e9, Limit: -1}
	if c.Steps == 0 {
		p.Step = 0
	}
	levels := map[int]bool{}
	pow := false
	nOps := countOps(c.Chain, levels, &pow)
	r.Class(true, "operands-change-from-instant-to-instant")
	r.Class(true, fmt.Sprintf("operands=%d", nOps+1))
	r.NonTrivial = nOps >= 2 && c.Steps >= 1
	eval := func(text string) (map[string]map[int64]float64, *evid.Violation) {
		got, _, v, _ := runMetric(sorted, mockstore.Caps{}, false, text, p)
		if v != nil {
			v.Sig = "C13/" + v.Sig
		}
		return got, v
	}
	want := func(rightAssocAll bool) map[string]map[int64]float64 {
		out := map[string]map[int64]float64{}
		for t := 0; t <= c.Steps; t++ {
			for s, k := range []string{"a", "b"} {
				c13LeafHook = func(o C13Operand) optVal {
					n := o.SA[t]
					if s == 1 {
						n = o.SB[t]
					}
					return optVal{ok: n > 0, v: float64(n)}
				}
				if v := c13ParseFor(c.Chain, rightAssocAll, false).evalP(); v.ok {
					key := canon.LabelKey(map[string]string{"k": k})
					if out[key] == nil {
						out[key] = map[int64]float64{}
					}
					out[key][(at+int64(t)*1e9)/1e6] = v.v
				}
			}
		}
		c13LeafHook = nil
		return out
	}
	got, v := eval(c.Text)
	if v != nil {
		r.Violation = v
		return r
	}
	r.Evals = 1
	conv := want(false)
	if diff := canon.DiffPointMaps(got, conv); diff != "" {
		if canon.DiffPointMaps(got, want(true)) == "" {
			r.Violation = evid.Viol("C13/equal-precedence-right-assoc", "%s (operands change from instant to instant) follows the right-associative reading: %s", c.Text, diff)
			return r
		}
		r.Violation = evid.Viol("C13/wrong-value", "%s over operands that change from instant to instant (%s) differs from the conventional reading %s: %s", c.Text, c13SparseOperands(c.Chain), c13ParseFor(c.Chain, false, false).shapeP(), diff)
		return r
	}
	return r
}

func c13SparseOperands(c C13Chain) string {
	var parts []string
	var walk func(c C13Chain)
	walk = func(c C13Chain) {
		for _, o := range c.Operands {
			switch {
			case o.Sub != nil:
				walk(*o.Sub)
			case o.Lit:
			default:
				parts = append(parts, fmt.Sprintf("L%d{a:%v b:%v}", len(parts), o.SA, o.SB))
			}
		}
	}
	walk(c)
	return strings.Join(parts, " ")
}

// c13CheckSeries is c13Check for series mode: the conventional reading is evaluated series by series.
func c13CheckSeries(c C13Case) (r evid.Result) {
	c13SeriesMode = true
	defer func() { c13SeriesMode = false }()
	convA, convB := c13ParseFor(c.Chain, false, false), c13ParseFor(c.Chain, false, true)
	defA, defB := c13ParseFor(c.Chain, true, false), c13ParseFor(c.Chain, true, true)
	wantA, wantB := convA.evalP(), convB.evalP()
	inDomain := convA.shapeP() != defA.shapeP()
	levels := map[int]bool{}
	pow := false
	nOps := countOps(c.Chain, levels, &pow)
	r.Class(true, "two-series-operands")
	r.Class(inDomain, "equal-precedence-left-assoc-matters")
	r.Class(true, fmt.Sprintf("operands=%d", nOps+1))
	r.NonTrivial = nOps >= 2
	var recs []model.Rec
	idx := 0
	c13SeriesRecs(c.Chain, &idx, &recs)
	gotA, gotB, v := c13EvalSeries(c.Text, recs)
	if v != nil {
		r.Violation = v
		return r
	}
	r.Evals = 1
	if !optEq(gotA, wantA) || !optEq(gotB, wantB) {
		dA, dB := defA.evalP(), defB.evalP()
		if inDomain && optEq(gotA, dA) && optEq(gotB, dB) {
			r.Violation = evid.Viol("C13/equal-precedence-right-assoc", "%s = {a: %v, b: %v}, conventional reading %s gives {a: %v, b: %v} (right-associative reading gives {a: %v, b: %v})", c.Text, gotA, gotB, convA.shapeP(), wantA, wantB, dA, dB)
			return r
		}
		r.Violation = evid.Viol("C13/wrong-value", "%s over operands %s = {k=a: %v, k=b: %v}, conventional reading %s gives {k=a: %v, k=b: %v}", c.Text, c13Operands(c.Chain), gotA, gotB, convA.shapeP(), wantA, wantB)
		return r
	}
	i := 0
	chain := c.Chain
	explicit := convA.fullyParenthesised(&chain, &i)
	a2, b2, v := c13EvalSeries(explicit, recs)
	if v != nil {
		r.Violation = v
		return r
	}
	r.Evals = 2
	if !optEq(a2, gotA) || !optEq(b2, gotB) {
		r.Violation = evid.Viol("C13/explicit-parentheses-differ", "%s = {a: %v, b: %v} but %s = {a: %v, b: %v}", c.Text, gotA, gotB, explicit, a2, b2)
	}
	return r
}

// c13Operands lists the values of the vector operands of series mode.
func c13Operands(c C13Chain) string {
	var parts []string
	var walk func(c C13Chain)
	walk = func(c C13Chain) {
		for _, o := range c.Operands {
			switch {
			case o.Sub != nil:
				walk(*o.Sub)
			case o.Lit:
			case o.HasB:
				parts = append(parts, fmt.Sprintf("L%d{a:%v,b:%v}", len(parts), o.V, o.VB))
			default:
				parts = append(parts, fmt.Sprintf("L%d{a:%v}", len(parts), o.V))
			}
		}
	}
	walk(c)
	return strings.Join(parts, " ")
}

func c13Eval(text string) (optVal, *evid.Violation) {
	got, _, v, _ := runMetric(nil, mockstore.Caps{}, false, text, c13Params())
	if v != nil {
		v.Sig = "C13/" + v.Sig
		return optVal{}, v
	}
	var out optVal
	for k, pts := range got {
		if k != "" {
			return optVal{}, evid.Viol("C13/labels", "%s: result series carries labels {%s}", text, k)
		}
		if out, v = c13OnePoint(text, k, pts); v != nil {
			return optVal{}, v
		}
	}
	return out, nil
}

func optEq(a, b optVal) bool {
	if a.ok != b.ok {
		return false
	}
	return !a.ok || canon.FloatEq(a.v, b.v)
}

func countOps(c C13Chain, levels map[int]bool, pow *bool) int {
	n := len(c.Ops)
	for _, op := range c.Ops {
		levels[c13Prec(op)] = true
		if op == "^" {
			*pow = true
		}
	}
	for _, o := range c.Operands {
		if o.Sub != nil {
			n += countOps(*o.Sub, levels, pow)
		}
	}
	return n
}

func c13Check(c C13Case) (r evid.Result) {
	c13Steps = c.Steps
	defer func() { c13Steps = 0 }()
	r.Class(c.Steps > 0, "evaluated-over-a-grid")
	if c.Series && c.Sparse {
		return c13CheckSparse(c)
	}
	if c.Series {
		return c13CheckSeries(c)
	}
	conv := c13Parse(c.Chain, false)
	defect := c13Parse(c.Chain, true)
	want := conv.evalP()
	inDomain := conv.shapeP() != defect.shapeP()
	levels := map[int]bool{}
	pow := false
	nOps := countOps(c.Chain, levels, &pow)
	hasParens := strings.Contains(c.Text, "(vector") || strings.Contains(c.Text, "((")
	r.Class(c13HasLit(c.Chain), "scalar-literal-operand")
	r.Class(inDomain, "equal-precedence-left-assoc-matters")
	r.Class(pow, "has-pow")
	r.Class(hasParens, "parentheses")
	r.Class(true, fmt.Sprintf("operands=%d", nOps+1))
	r.NonTrivial = (nOps >= 2 && len(levels) >= 2) || (pow && nOps >= 2) || hasParens

	got, v := c13Eval(c.Text)
	if v != nil {
		r.Violation = v
		return r
	}
	r.Evals = 1
	if !optEq(got, want) {
		defVal := defect.evalP()
		if inDomain && optEq(got, defVal) {
			// Exactly the listed finding: operators of equal precedence associate to the right.
			r.Violation = evid.Viol("C13/equal-precedence-right-assoc", "%s = %v, conventional reading %s gives %v (right-associative reading gives %v)", c.Text, got, conv.shapeP(), want, defVal)
			return r
		}
		r.Violation = evid.Viol("C13/wrong-value", "%s = %v, conventional reading %s gives %v", c.Text, got, conv.shapeP(), want)
		return r
	}
	// Differential oracle: the conventional reading written with explicit parentheses must
	// evaluate to the same result as the bare chain.
	idx := 0
	chain := c.Chain
	explicit := conv.fullyParenthesised(&chain, &idx)
	got2, v := c13Eval(explicit)
	if v != nil {
		r.Violation = v
		return r
	}
	r.Evals = 2
	if !optEq(got2, got) {
		r.Violation = evid.Viol("C13/explicit-parentheses-differ", "%s = %v but %s = %v", c.Text, got, explicit, got2)
	}
	return r
}

var c13AllOps = []string{"+", "-", "*", "/", "%", "^", "==", "!=", ">", ">=", "<", "<=", "and", "or", "unless"}

func c13GenChain(t *rapid.T, depth int, maxOperands int, avoidDomain bool) C13Chain {
	var c C13Chain
	n := rapid.IntRange(2, maxOperands).Draw(t, "operands")
	for i := 0; i < n; i++ {
		if depth > 0 && rapid.IntRange(0, 4).Draw(t, "paren") == 0 {
			sub := c13GenChain(t, depth-1, 3, avoidDomain)
			c.Operands = append(c.Operands, C13Operand{Sub: &sub})
		} else {
			v := rapid.SampledFrom([]struct {
				text string
				v    float64
			}{{"2", 2}, {"3", 3}, {"5", 5}, {"7", 7}, {"0.5", 0.5}, {"0", 0}, {"1", 1}, {"11", 11}}).Draw(t, "value")
			c.Operands = append(c.Operands, C13Operand{Text: v.text, V: v.v})
		}
		if i > 0 {
			var op string
			switch rapid.IntRange(0, 9).Draw(t, "opkind") {
			case 0:
				op = rapid.SampledFrom([]string{"and", "or", "unless"}).Draw(t, "setop")
			case 1, 2:
				op = rapid.SampledFrom([]string{"==", "!=", ">", ">=", "<", "<="}).Draw(t, "cmpop")
			default:
				op = rapid.SampledFrom([]string{"+", "-", "*", "/", "%", "^", "-", "/"}).Draw(t, "arithop")
			}
			c.Ops = append(c.Ops, op)
		}
	}
	if avoidDomain {
		// Keep the chain outside the known finding's domain: no two operators of the same
		// non-^ level without a lower-precedence operator between them.
		for i := range c.Ops {
			for j := i + 1; j < len(c.Ops); j++ {
				pi, pj := c13Prec(c.Ops[i]), c13Prec(c.Ops[j])
				if pi != pj || c.Ops[i] == "^" {
					continue
				}
				lower := false
				for k := i + 1; k < j; k++ {
					if c13Prec(c.Ops[k]) < pi {
						lower = true
					}
				}
				if !lower {
					// replace the later operator by one of another level
					for _, cand := range []string{"^", "*", "+", "<", "and", "or"} {
						if c13Prec(cand) != pi {
							ok := true
							for k := 0; k < len(c.Ops); k++ {
								if k != j && c13Prec(c.Ops[k]) == c13Prec(cand) && cand != "^" {
									ok = false
								}
							}
							if ok {
								c.Ops[j] = cand
								break
							}
						}
					}
				}
			}
		}
	}
	return c
}

func c13HasLit(c C13Chain) bool {
	for _, o := range c.Operands {
		if o.Lit || (o.Sub != nil && c13HasLit(*o.Sub)) {
			return true
		}
	}
	return false
}

func c13SetLit(t *rapid.T, c *C13Chain) {
	for i := range c.Operands {
		if c.Operands[i].Sub != nil {
			c13SetLit(t, c.Operands[i].Sub)
		} else if rapid.IntRange(0, 2).Draw(t, "literal-operand") == 0 {
			c.Operands[i].Lit = true
			// a signed literal is one operand: its sign belongs to it, whatever follows
			if c.Operands[i].V != 0 && !strings.HasPrefix(c.Operands[i].Text, "-") && rapid.IntRange(0, 2).Draw(t, "negative-literal") == 0 {
				c.Operands[i].Text, c.Operands[i].V = "-"+c.Operands[i].Text, -c.Operands[i].V
			}
		}
	}
}

func c13ClearLit(c *C13Chain) {
	for i := range c.Operands {
		if c.Operands[i].Lit && strings.HasPrefix(c.Operands[i].Text, "-") {
			c.Operands[i].Text, c.Operands[i].V = c.Operands[i].Text[1:], -c.Operands[i].V
		}
		c.Operands[i].Lit = false
		if c.Operands[i].Sub != nil {
			c13ClearLit(c.Operands[i].Sub)
		}
	}
}

var c13Values = []struct {
	text string
	v    float64
}{{"2", 2}, {"3", 3}, {"5", 5}, {"7", 7}, {"0.5", 0.5}, {"1", 1}, {"11", 11}}

func c13Gen(t *rapid.T) C13Case {
	steps := rapid.SampledFrom([]int{0, 0, 1, 3}).Draw(t, "grid-steps")
	avoid := rapid.IntRange(0, 3).Draw(t, "avoid-known-domain") != 0
	chain := c13GenChain(t, 2, 5, avoid)
	switch rapid.IntRange(0, 7).Draw(t, "literals") {
	case 0, 1:
		// Some operands are bare scalar literals, as long as the expression stays one the engine
		// supports under the conventional and under the right-associative reading.
		c13SetLit(t, &chain)
		_, ok1 := c13Parse(chain, false).scalarOK()
		_, ok2 := c13Parse(chain, true).scalarOK()
		if !ok1 || !ok2 {
			c13ClearLit(&chain)
		}
	case 2:
		// ((x op a) op b) op c ...: explicit parentheses around a vector and a run of literals.
		val := func(label string) C13Operand {
			v := rapid.SampledFrom(c13Values).Draw(t, label)
			return C13Operand{Text: v.text, V: v.v}
		}
		arith := []string{"+", "-", "*", "/", "%", "^", "-", "/"}
		op := rapid.SampledFrom(arith).Draw(t, "lc-op")
		cur := C13Chain{Operands: []C13Operand{val("lc-x"), val("lc-a")}, Ops: []string{op}}
		cur.Operands[1].Lit = true
		if rapid.Bool().Draw(t, "lc-literal-left") {
			cur.Operands[0], cur.Operands[1] = cur.Operands[1], cur.Operands[0]
		}
		for i, n := 0, rapid.IntRange(1, 3).Draw(t, "lc-levels"); i < n; i++ {
			if !rapid.Bool().Draw(t, "lc-same-op") {
				op = rapid.SampledFrom(append(arith, "<", ">=", "==")).Draw(t, "lc-op2")
			}
			lit := val("lc-b")
			lit.Lit = true
			inner := cur
			cur = C13Chain{Operands: []C13Operand{{Sub: &inner}, lit}, Ops: []string{op}}
			if rapid.IntRange(0, 3).Draw(t, "lc-literal-left2") == 0 {
				cur.Operands[0], cur.Operands[1] = cur.Operands[1], cur.Operands[0]
			}
		}
		chain = cur
	}
	if rapid.IntRange(0, 3).Draw(t, "two-series-operands") == 0 {
		// Vector operands computed from records, two series each, the second one missing here and
		// there: the sides of an operator differ in size.
		var set func(c *C13Chain)
		set = func(c *C13Chain) {
			for i := range c.Operands {
				o := &c.Operands[i]
				if o.Sub != nil {
					set(o.Sub)
				} else if !o.Lit {
					o.V = float64(rapid.IntRange(1, 5).Draw(t, "series-a"))
					if o.HasB = rapid.IntRange(0, 2).Draw(t, "series-b-present") != 0; o.HasB {
						o.VB = float64(rapid.IntRange(1, 5).Draw(t, "series-b"))
					}
				}
			}
		}
		sparse := rapid.Bool().Draw(t, "operands-change")
		if sparse {
			steps = rapid.IntRange(1, 5).Draw(t, "sparse-steps")
		}
		set(&chain)
		if sparse {
			var fill func(c *C13Chain)
			fill = func(c *C13Chain) {
				for i := range c.Operands {
					o := &c.Operands[i]
					if o.Sub != nil {
						fill(o.Sub)
					} else if !o.Lit {
						for st := 0; st <= steps; st++ {
							o.SA = append(o.SA, rapid.SampledFrom([]int{0, 0, 1, 2, 3}).Draw(t, "sparse-a"))
							o.SB = append(o.SB, rapid.SampledFrom([]int{0, 0, 1, 2}).Draw(t, "sparse-b"))
						}
					}
				}
			}
			fill(&chain)
			c13LeafRange = "1s"
			idx := 0
			text := chain.seriesText(&idx)
			c13LeafRange = "1m"
			return C13Case{Chain: chain, Text: text, Series: true, Sparse: true, Steps: steps}
		}
		idx := 0
		return C13Case{Chain: chain, Text: chain.seriesText(&idx), Series: true, Steps: steps}
	}
	return C13Case{Chain: chain, Text: chain.String(), Steps: steps}
}

// TestC13 decides C13.
func TestC13(t *testing.T) {
	evid.Run(t, "C13", c13Gen, c13Check)
}
