package props

import (
	"fmt"
	"sort"
	"strconv"
	"strings"
	"testing"

	"pgregory.net/rapid"

	"github.com/tdakkota/docker-logql/internal/lokiapi"
	"github.com/tdakkota/docker-logql/verifharness/canon"
	"github.com/tdakkota/docker-logql/verifharness/dl"
	"github.com/tdakkota/docker-logql/verifharness/evid"
	"github.com/tdakkota/docker-logql/verifharness/fakedocker"
)

// C18Case is one case of property C18.
type C18Case struct {
	Ctrs   [][]dl.Line         `json:"ctrs"`
	Labels []map[string]string `json:"labels"` // Docker labels per container
	Query  string              `json:"query"`
	// Waves is the number of containers each SelectLogs call is expected to open.
	Waves []int `json:"waves"`
	Reps  int   `json:"reps"`
	// Orders, when set, replaces the exhaustive enumeration (replay of one schedule pair).
	Limit int   `json:"limit,omitempty"` // 0 = no limit
	Step  int64 `json:"step"`
	Start int64 `json:"start"`
	End   int64 `json:"end"`
}

// canonResult renders a result as an order-free but otherwise complete text.
func canonResult(data lokiapi.QueryResponseData) (string, int, int) {
	var parts []string
	multi := 0
	switch data.Type {
	case lokiapi.StreamsResultQueryResponseData:
		for _, s := range data.StreamsResult.Result {
			var sb strings.Builder
			sb.WriteString("stream{" + canon.LabelKey(s.Stream.Value) + "}")
			for _, e := range s.Values {
				fmt.Fprintf(&sb, " %d:%q", e.T, e.V)
			}
			parts = append(parts, sb.String())
			if len(s.Stream.Value) >= 2 {
				multi++
			}
		}
	case lokiapi.MatrixResultQueryResponseData:
		for _, s := range data.MatrixResult.Result {
			var sb strings.Builder
			sb.WriteString("series{" + canon.LabelKey(s.Metric.Value) + "}")
			for _, p := range s.Values {
				fmt.Fprintf(&sb, " %v:%s", p.T, p.V)
			}
			parts = append(parts, sb.String())
			if len(s.Metric.Value) >= 2 {
				multi++
			}
		}
	case lokiapi.VectorResultQueryResponseData:
		for _, s := range data.VectorResult.Result {
			parts = append(parts, fmt.Sprintf("sample{%s} %v:%s", canon.LabelKey(s.Metric.Value), s.Value.T, s.Value.V))
			if len(s.Metric.Value) >= 2 {
				multi++
			}
		}
	default:
		parts = append(parts, "type="+string(data.Type))
	}
	n := len(parts)
	sort.Strings(parts)
	return string(data.Type) + "\n" + strings.Join(parts, "\n"), n, multi
}

func c18Check(c C18Case) (r evid.Result) {
	n := len(c.Ctrs)
	orders := permutations(n)
	reps := c.Reps
	if reps < 1 {
		reps = 1
	}
	var first string
	var firstWhat string
	nSeries, nMulti := 0, 0
	for _, order := range orders {
		for rep := 0; rep < reps; rep++ {
			d := &fakedocker.Daemon{}
			for i, lines := range c.Ctrs {
				d.Containers = append(d.Containers, dl.Ctr(fmt.Sprintf("id%d", i), fmt.Sprintf("c%d", i), c.Labels[i], lines))
			}
			for w, size := range c.Waves {
				d.Waves = append(d.Waves, size)
				// Rotate the order for the second wave so that both differ.
				o := append([]int(nil), order...)
				if w == 1 && len(o) > 1 {
					o = append(o[1:], o[0])
				}
				d.Order = append(d.Order, o)
			}
			limit := -1
			if c.Limit > 0 {
				limit = c.Limit
			}
			data, err := dl.Eval(d, c.Query, dl.Params{Start: c.Start, End: c.End, Step: c.Step, Limit: limit})
			rep2 := d.Done()
			r.Evals++
			what := fmt.Sprintf("completion order %v, repetition %d", order, rep)
			if err != nil {
				r.Violation = evid.Viol("C18/eval-error", "query %s (%s) failed: %v", c.Query, what, err)
				return r
			}
			if rep2.ScheduleBroken {
				// Not all opens are issued concurrently (no property demands that): the completion
				// order is not owned, repetitions still have to agree.
				r.Class(true, "completion-order-not-owned")
			}
			txt, ns, nm := canonResult(data)
			nSeries, nMulti = ns, nm
			if first == "" {
				first, firstWhat = txt, what
				continue
			}
			if txt != first {
				r.Violation = evid.Viol("C18/different-answer", "query %s: result with %s differs from result with %s:\n--- first\n%s\n--- now\n%s", c.Query, what, firstWhat, trunc1k(first), trunc1k(txt))
				return r
			}
		}
	}
	r.Class(true, fmt.Sprintf("containers=%d", n))
	r.Class(strings.HasPrefix(c.Query, "{"), "log-query")
	r.Class(len(c.Waves) == 2, "binary-operation")
	r.Class(c.Limit > 0, "limited")
	oddKeys := false
	for _, l := range c.Labels {
		for k := range l {
			oddKeys = oddKeys || strings.HasPrefix(l[k], "odd ")
		}
	}
	r.Class(oddKeys, "odd-docker-label-keys")
	r.Class(nSeries >= 2, "series>=2")
	r.NonTrivial = n >= 3 && nSeries >= 2 && nMulti >= 2
	return r
}

func trunc1k(s string) string {
	if len(s) > 1200 {
		return s[:1200] + "…"
	}
	return s
}

func c18Gen(t *rapid.T) C18Case {
	var c C18Case
	n := rapid.SampledFrom([]int{1, 2, 3, 3, 4, 4, 5}).Draw(t, "containers")
	maxN := envInt("VERIF_C18_MAXCTRS", 5)
	if n > maxN {
		n = maxN
	}
	base := int64(1700000000) * 1e9
	collide := rapid.IntRange(0, 3).Draw(t, "colliding-label-keys") == 0
	odd := rapid.IntRange(0, 3).Draw(t, "odd-label-keys") == 0
	for i := 0; i < n; i++ {
		m := rapid.IntRange(0, 8).Draw(t, "lines")
		var lines []dl.Line
		ts := base
		for j := 0; j < m; j++ {
			ts += rapid.Int64Range(0, 3).Draw(t, "gap") * 250e6
			lines = append(lines, dl.Line{TS: ts, Msg: rapid.SampledFrom([]string{"GET /a 200", "POST /b 500", "err timeout", "ok", "GET /c 0.1", "PUT /d 0.2", "GET /e 0.3", "GET /f 0.7",
				`{"request":{"method":"GET","path":"/a"},"tags":["x","y"],"n":1}`, `{"request":{"method":"POST"},"tags":[],"n":2}`}).Draw(t, "msg")})
		}
		c.Ctrs = append(c.Ctrs, lines)
		labels := map[string]string{"tier": rapid.SampledFrom([]string{"web", "db"}).Draw(t, "tier")}
		if rapid.Bool().Draw(t, "env-label") {
			labels["env"] = rapid.SampledFrom([]string{"prod", "dev"}).Draw(t, "env")
		}
		if collide {
			// Docker label keys that sanitise to the same name, with different values: whichever
			// value the name gets, it has to be the same one on every run.
			for _, k := range rapid.SampledFrom([][]string{{"a.b", "a_b"}, {"a.b", "a-b", "a/b"}, {"x y", "x_y"}, {"1st", "_1st"}}).Draw(t, "colliding-keys") {
				labels[k] = "from " + k
			}
		}
		if odd {
			// Rare but legal keys: names with the prefix of the engine's own labels, names of the
			// container attributes, a lone underscore. Whatever becomes of them has to be the
			// same on every run, and the other labels of the container must not depend on them.
			for _, k := range rapid.SliceOfNDistinct(rapid.SampledFrom([]string{"__meta", "__error__", "__error_details__", "._x", "--foo", "_", "__name__", "container", "container_id", "container_name", "msg", "0", "\u00fcber", "image", "com.docker.compose.service"}), 1, 3, rapid.ID[string]).Draw(t, "odd-keys") {
				labels[k] = "odd " + k
			}
		}
		c.Labels = append(c.Labels, labels)
	}
	web := 0
	for _, l := range c.Labels {
		if l["tier"] == "web" {
			web++
		}
	}
	c.Query = rapid.SampledFrom([]string{
		`{}`,
		`{} |= "GET"`,
		`{tier="web"} | drop msg`,
		`{} | keep tier, env`,
		`{} | keep tier`,
		`{} | drop msg, container, container_id, container_name`,
		// renames that depend on each other: a chain, a swap (applied in the order written, on every run)
		`{} | label_format container=tier, tier=env`,
		`{} | label_format tier=env, env=tier | drop msg`,
		`{} | label_format a=tier, b=a, c=b | keep a, b, c, container`,
		`count_over_time({}[2s])`,
		`count_over_time({} | keep tier, env [2s])`,
		`sum by (tier, env) (count_over_time({}[5s]))`,
		`sum by (tier) (bytes_over_time({}[5s]))`,
		`max by (container, tier) (count_over_time({}[3s]))`,
		`topk(2, sum by (container, tier) (count_over_time({}[5s])))`,
		// range aggregations with their own grouping clause over two labels
		`max_over_time({} | pattern "<method> <path> <code>" | unwrap code [5s]) by (tier, env)`,
		`min_over_time({} | pattern "<method> <path> <code>" | unwrap code [3s]) by (container, tier, env)`,
		`sum by (tier) (max_over_time({} | pattern "<method> <path> <code>" | unwrap code [5s]) without (msg, method, path, code, container_id))`,
		`sum by (tier, env) (count_over_time({}[5s])) / sum by (tier, env) (bytes_over_time({}[5s]))`,
		`count_over_time({}[2s]) + count_over_time({}[2s])`,
		`sum by (tier, env) (count_over_time({}[5s])) or sum by (tier, env) (count_over_time({tier="web"}[5s]))`,
		// several labels taken from one place of a JSON document (an object, an array, a number)
		`{} | json req="request", request="request", n, m="n"`,
		`{} | json tags, t="tags", first="tags[0]" | drop msg`,
		`sum by (req, request) (count_over_time({} | json req="request", request="request" [5s]))`,
		// sums and averages of values that are not integers: the order of the additions must not
		// depend on the run
		`sum(sum_over_time({} | pattern "<method> <path> <code>" | unwrap code [5s]))`,
		`avg by (tier) (sum_over_time({} | pattern "<method> <path> <code>" | unwrap code [5s]))`,
		`stddev(avg_over_time({} | pattern "<method> <path> <code>" | unwrap code [3s]))`,
		// ties at the cut of topk / bottomk (containers that logged equally many lines)
		`topk(1, sum by (container) (count_over_time({}[5s])))`,
		`bottomk(1, count_over_time({} | drop msg [5s]))`,
		`bottomk(2, sum by (container, tier) (count_over_time({}[3s])))`,
		// NaN among the inputs of an aggregation (1/0 for the series that count one line)
		`max by (tier) (count_over_time({}[5s]) / (count_over_time({}[5s]) - 1))`,
		`min (count_over_time({}[3s]) / (count_over_time({}[3s]) - 1))`,
	}).Draw(t, "query")
	// A generated nesting of integer-valued aggregations whose grouping clauses name the same
	// few labels in any order of by / without: the label sets of the answer must not depend on
	// which member of a group the runtime happens to visit first.
	if strings.HasPrefix(c.Query, "{") && rapid.Bool().Draw(t, "keep-log-query") {
		// log queries (limits that cut through ties of several containers) keep their share
	} else if rapid.IntRange(0, 1).Draw(t, "generated-nesting") == 0 {
		pool := []string{"container", "tier", "env", "msg"}
		// Half of the time every level names one common label.
		common := ""
		if rapid.IntRange(0, 2).Draw(t, "gn-common") != 0 {
			common = rapid.SampledFrom(pool).Draw(t, "gn-common-label")
		}
		grouping := func(label string) string {
			// A "without" clause names many labels (so that its groups really merge series of
			// different containers and lines), a "by" clause few.
			without := rapid.Bool().Draw(t, label+"-without")
			var ls []string
			for _, l := range pool {
				p := 2
				if without {
					p = 1
				}
				if l == common || rapid.IntRange(0, p).Draw(t, label+"-"+l) == 0 {
					ls = append(ls, l)
				}
			}
			kw := "by"
			if without {
				kw = "without"
				ls = append(ls, rapid.SampledFrom([]string{"container_id", "container_name", "msg"}).Draw(t, label+"-wo-extra"))
			}
			return kw + " (" + strings.Join(ls, ", ") + ")"
		}
		q := rapid.SampledFrom([]string{`count_over_time({}[5s])`, `bytes_over_time({}[3s])`, `count_over_time({} | drop msg [5s])`,
			`(count_over_time({}[5s]) / (count_over_time({}[5s]) - 1))`, `(count_over_time({} | drop msg [3s]) % (count_over_time({} | drop msg [3s]) - 2))`,
			`max_over_time({} | pattern "<method> <path> <code>" | unwrap code [5s]) ` + grouping("g0")}).Draw(t, "gn-range")
		depth := rapid.IntRange(1, 3).Draw(t, "gn-depth")
		if common != "" {
			depth = rapid.IntRange(2, 3).Draw(t, "gn-depth-common")
		}
		for i := 0; i < depth; i++ {
			op := rapid.SampledFrom([]string{"sum", "max", "min", "count"}).Draw(t, "gn-op")
			q = op + " " + grouping("g"+strconv.Itoa(i+1)) + " (" + q + ")"
		}
		if rapid.IntRange(0, 2).Draw(t, "gn-topk") == 0 {
			q = rapid.SampledFrom([]string{"topk", "bottomk"}).Draw(t, "gn-topk-op") + " " + grouping("gt") + " (" + strconv.Itoa(rapid.IntRange(1, 3).Draw(t, "gn-k")) + ", " + q + ")"
		}
		c.Query = q
	}
	if strings.Contains(c.Query, "| json") {
		// a query over JSON documents gets JSON documents
		for i := range c.Ctrs {
			for j := range c.Ctrs[i] {
				if rapid.IntRange(0, 2).Draw(t, "json-line") != 0 {
					c.Ctrs[i][j].Msg = rapid.SampledFrom([]string{`{"request":{"method":"GET","path":"/a"},"tags":["x","y"],"n":1}`, `{"request":{"method":"POST"},"tags":[],"n":2}`,
						`{"request":{"method":"GET","path":"/a"},"tags":["x","y"],"n":1}`, `{"request":"flat","tags":"none","n":1.5}`}).Draw(t, "json-msg")
				}
			}
		}
	}
	c.Waves = []int{n}
	switch {
	case strings.HasPrefix(c.Query, `{tier="web"}`):
		c.Waves = []int{web}
	case strings.Contains(c.Query, ") or "):
		c.Waves = []int{n, web}
	case strings.Contains(c.Query, ") / ") || strings.Contains(c.Query, ") + ") || strings.Contains(c.Query, ") % ") || strings.Contains(c.Query, "]) / ("):
		c.Waves = []int{n, n}
	}
	c.Start, c.End, c.Step = base, base+6e9, 1e9
	if !strings.HasPrefix(c.Query, "{") && rapid.IntRange(0, 3).Draw(t, "instant") == 0 {
		c.Start, c.End, c.Step = base+3e9, base+3e9, 0
	}
	if strings.HasPrefix(c.Query, "{") && rapid.IntRange(0, 1).Draw(t, "limited") == 0 {
		// A limit that may cut through records with equal timestamps of different containers.
		c.Limit = rapid.IntRange(1, 4).Draw(t, "limit")
	}
	c.Reps = envInt("VERIF_C18_REPS", 5)
	return c
}

// TestC18 decides C18 (engine results; rendering is decided by TestC18Render in package main).
func TestC18(t *testing.T) {
	evid.Run(t, "C18", c18Gen, c18Check)
}

// C18FaultCase: some of the concurrent opens fail. The outcome (an error) has to be the same on
// every run, and - the point of this stage, which is built with the race detector - whatever the
// goroutines of the failed opens do must be free of data races as well.
type C18FaultCase struct {
	N       int    `json:"n"`
	Failing []int  `json:"failing"` // indexes of the containers whose open fails
	ErrKind string `json:"err_kind,omitempty"`
	Query   string `json:"query"`
	Gated   bool   `json:"gated,omitempty"`
	Reps    int    `json:"reps"`
}

func c18FaultCheck(c C18FaultCase) (r evid.Result) {
	r.Class(true, fmt.Sprintf("failing-opens=%d", len(c.Failing)))
	r.Class(c.Gated, "gated")
	r.NonTrivial = len(c.Failing) >= 2
	var first string
	for rep := 0; rep < c.Reps; rep++ {
		d := &fakedocker.Daemon{ErrKind: c.ErrKind}
		for i := 0; i < c.N; i++ {
			ct := dl.Ctr(fmt.Sprintf("id%d", i), fmt.Sprintf("c%d", i), nil, []dl.Line{{TS: 1700000000e9 + int64(i), Msg: fmt.Sprintf("line of c%d", i)}})
			for _, f := range c.Failing {
				if f == i {
					ct.OpenErr = true
				}
			}
			d.Containers = append(d.Containers, ct)
		}
		if c.Gated && c.N > 1 {
			d.Waves = []int{c.N}
			d.Order = [][]int{identity(c.N)}
		}
		data, err := dl.Eval(d, c.Query, dl.Params{Start: 1700000000e9 - 10e9, End: 1700000000e9 + 10e9, Step: 1e9, Limit: -1})
		rep2 := d.Done()
		r.Evals++
		outcome := "error"
		if err == nil {
			outcome, _, _ = canonResult(data)
		}
		if len(c.Failing) > 0 && err == nil {
			r.Violation = evid.Viol("C18/failed-open-swallowed", "query %s over %d containers, opens of %v failing: evaluation succeeded", c.Query, c.N, c.Failing)
			return r
		}
		if rep2.Opened != rep2.Closed {
			r.Violation = evid.Viol("C18/readers-left-open", "query %s over %d containers, opens of %v failing: %d readers opened, %d closed", c.Query, c.N, c.Failing, rep2.Opened, rep2.Closed)
			return r
		}
		if rep == 0 {
			first = outcome
		} else if outcome != first {
			r.Violation = evid.Viol("C18/different-answer", "query %s over %d containers, opens of %v failing: repetition %d ended as\n%s\nrepetition 0 as\n%s", c.Query, c.N, c.Failing, rep, trunc1k(outcome), trunc1k(first))
			return r
		}
	}
	return r
}

func c18FaultGen(t *rapid.T) C18FaultCase {
	c := C18FaultCase{N: rapid.IntRange(2, envInt("VERIF_C18_MAXCTRS", 5)+1).Draw(t, "containers")}
	k := rapid.SampledFrom([]int{0, 1, 2, 2, 3, c.N, c.N}).Draw(t, "failing-opens")
	if k > c.N {
		k = c.N
	}
	c.Failing = append([]int{}, rapid.Permutation(identity(c.N)).Draw(t, "failing-which")[:k]...)
	sort.Ints(c.Failing)
	c.ErrKind = rapid.SampledFrom(fakedocker.ErrKinds).Draw(t, "err-kind")
	c.Query = rapid.SampledFrom([]string{`{}`, `count_over_time({}[5s])`, `sum(count_over_time({}[5s])) / sum(bytes_over_time({}[5s]))`}).Draw(t, "query")
	c.Gated = rapid.Bool().Draw(t, "gated")
	c.Reps = rapid.IntRange(2, 4).Draw(t, "reps")
	return c
}

// TestC18OpenFaults is the last sentence of C18 where it is least exercised: opens that fail.
func TestC18OpenFaults(t *testing.T) {
	evid.Run(t, "C18", c18FaultGen, c18FaultCheck)
}

// C18ScaleCase: the same answer on every run also when a stage has to remember more than a round
// number of things (whatever is evicted, capped or sampled at such a size must not depend on
// map order).
type C18ScaleCase struct {
	N     int    `json:"n"`     // distinct ids, each logged twice ("begin" in container 0, "end" in container 1)
	Query string `json:"query"` // contains "distinct id"
	Reps  int    `json:"reps"`
}

func c18ScaleCheck(c C18ScaleCase) (r evid.Result) {
	const base = int64(1700000000e9)
	var begin, end []dl.Line
	for i := 0; i < c.N; i++ {
		begin = append(begin, dl.Line{TS: base + int64(i)*1e3, Msg: fmt.Sprintf("id=r%d phase=begin", i)})
		end = append(end, dl.Line{TS: base + int64(c.N+i)*1e3, Msg: fmt.Sprintf("id=r%d phase=end", i)})
	}
	r.Class(true, fmt.Sprintf("distinct-values>=%d", c.N/1000*1000))
	r.NonTrivial = c.N > 1000
	var first string
	for rep := 0; rep < c.Reps; rep++ {
		d := &fakedocker.Daemon{}
		d.Containers = append(d.Containers, dl.Ctr("id0", "c0", nil, begin), dl.Ctr("id1", "c1", nil, end))
		data, err := dl.Eval(d, c.Query, dl.Params{Start: base - 1e9, End: base + 3600e9, Step: 3600e9, Limit: -1})
		d.Done()
		r.Evals++
		if err != nil {
			r.Violation = evid.Viol("C18/eval-error", "query %s over %d ids failed: %v", c.Query, c.N, err)
			return r
		}
		txt, n, _ := canonResult(data)
		if data.Type == lokiapi.StreamsResultQueryResponseData {
			entries := 0
			for _, s := range data.StreamsResult.Result {
				entries += len(s.Values)
			}
			if entries != c.N {
				r.Violation = evid.Viol("C18/scale-wrong-count", "query %s over %d ids logged twice each (repetition %d): %d entries, want %d", c.Query, c.N, rep, entries, c.N)
				return r
			}
		}
		_ = n
		if rep == 0 {
			first = txt
		} else if txt != first {
			r.Violation = evid.Viol("C18/different-answer", "query %s over %d ids logged twice each: repetition %d differs from repetition 0 (%d vs %d bytes of canonical text)", c.Query, c.N, rep, len(txt), len(first))
			return r
		}
	}
	return r
}

func c18ScaleGen(t *rapid.T) C18ScaleCase {
	return C18ScaleCase{
		N:     rapid.SampledFrom([]int{300, 1100, 4200, 9000, 9000, 17000}).Draw(t, "ids") + rapid.IntRange(0, 50).Draw(t, "ids-more"),
		Query: rapid.SampledFrom([]string{`{} | logfmt | distinct id`, `{} | logfmt | distinct id | drop msg`, `sum(count_over_time({} | logfmt | distinct id [2h]))`}).Draw(t, "query"),
		Reps:  3,
	}
}

// TestC18Scale decides the first sentence of C18 at sizes beyond the round numbers.
func TestC18Scale(t *testing.T) {
	evid.Run(t, "C18", c18ScaleGen, c18ScaleCheck)
}
