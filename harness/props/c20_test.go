package props

import (
	"encoding/json"
	"fmt"
	"regexp"
	"sort"
	"strconv"
	"strings"
	"testing"
	"unicode/utf8"

	"pgregory.net/rapid"

	"github.com/tdakkota/docker-logql/internal/otelstorage"
	"github.com/tdakkota/docker-logql/verifharness/canon"
	"github.com/tdakkota/docker-logql/verifharness/dl"
	"github.com/tdakkota/docker-logql/verifharness/evid"
	"github.com/tdakkota/docker-logql/verifharness/fakedocker"
	"github.com/tdakkota/docker-logql/verifharness/gen"
)

// C20Case is one case of property C20.
type C20Case struct {
	Mode string `json:"mode"` // key | select | json
	// json mode: Before lines of PerLine other keys each go through the same stage first.
	Before  int                 `json:"before,omitempty"`
	PerLine int                 `json:"per_line,omitempty"`
	Key     gen.BS              `json:"key"`
	Value   string              `json:"value"`
	Other   []map[string]gen.BS `json:"other,omitempty"` // labels of the other containers (select mode)
	// Pipe (select mode): 0 - the bare selector; 1 - the label is renamed and the new name
	// filtered on; 2 - only it is kept and filtered on; 3 - another label is dropped first. The
	// container carrying k=v is selected all the same.
	Pipe int `json:"pipe,omitempty"`
}

var validLabelRe = regexp.MustCompile(`^[A-Za-z_][A-Za-z0-9_]*$`)

// refKeyToLabel is the reference mapping written from the property statement: a leading digit
// gets a "_" prefix, every character (rune; each invalid byte counts as one) outside
// [A-Za-z0-9_] becomes "_".
func refKeyToLabel(k string) string {
	if k == "" {
		return ""
	}
	var sb strings.Builder
	if k[0] >= '0' && k[0] <= '9' {
		sb.WriteByte('_')
	}
	for _, r := range k {
		switch {
		case r >= 'a' && r <= 'z', r >= 'A' && r <= 'Z', r >= '0' && r <= '9', r == '_':
			sb.WriteRune(r)
		default:
			sb.WriteByte('_')
		}
	}
	return sb.String()
}

func c20KeyOracle(k string) *evid.Violation {
	got := otelstorage.KeyToLabel(k)
	if !validLabelRe.MatchString(got) {
		return evid.Viol("C20/invalid-name", "KeyToLabel(%q) = %q is not a valid label name", k, got)
	}
	if validLabelRe.MatchString(k) && got != k {
		return evid.Viol("C20/valid-name-changed", "KeyToLabel(%q) = %q, valid names must be unchanged", k, got)
	}
	if again := otelstorage.KeyToLabel(got); again != got {
		return evid.Viol("C20/not-idempotent", "KeyToLabel(KeyToLabel(%q)) = %q != %q", k, again, got)
	}
	if want := refKeyToLabel(k); got != want {
		return evid.Viol("C20/differs-from-reference", "KeyToLabel(%q) = %q, reference mapping gives %q", k, got, want)
	}
	return nil
}

func c20NonTrivialKey(k string) bool {
	return k != "" && !validLabelRe.MatchString(k)
}

var logqlKeywords = map[string]bool{
	"unwrap": true, "by": true, "without": true, "bool": true, "offset": true, "on": true,
	"ignoring": true, "group_left": true, "group_right": true, "or": true, "and": true,
	"unless": true, "json": true, "regexp": true, "logfmt": true, "unpack": true,
	"pattern": true, "label_format": true, "line_format": true, "decolorize": true,
	"distinct": true, "drop": true, "keep": true,
}

var c20FunctionWords = []string{"rate", "rate_counter", "count_over_time", "bytes_rate", "bytes_over_time", "avg_over_time", "sum_over_time",
	"min_over_time", "max_over_time", "stdvar_over_time", "stddev_over_time", "quantile_over_time", "first_over_time", "last_over_time",
	"absent_over_time", "vector", "sum", "avg", "max", "min", "count", "stddev", "stdvar", "bottomk", "topk", "sort", "sort_desc",
	"label_replace", "bytes", "duration", "duration_seconds", "ip"}

var builtinContainerLabels = map[string]bool{
	"container": true, "container_id": true, "container_name": true, "container_image": true,
	"container_image_id": true, "container_command": true, "container_created": true,
	"container_state": true, "container_status": true, "msg": true,
}

const c20BaseTS = int64(1700000000) * 1e9

func c20Check(c C20Case) (r evid.Result) {
	k := string(c.Key)
	r.Class(true, "mode="+c.Mode)
	switch c.Mode {
	case "key":
		r.NonTrivial = c20NonTrivialKey(k)
		r.Class(len(k) > 5, "len>5")
		r.Class(!utf8.ValidString(k), "invalid-utf8")
		r.Violation = c20KeyOracle(k)
		return r
	case "select":
		name := refKeyToLabel(k)
		r.NonTrivial = c20NonTrivialKey(k)
		d := &fakedocker.Daemon{}
		lineOf := func(id string) []dl.Line { return []dl.Line{{TS: c20BaseTS, Msg: "hello from <" + id + ">"}} }
		d.Containers = append(d.Containers, dl.Ctr("id0", "c0", map[string]string{k: c.Value}, lineOf("id0")))
		want := map[string]bool{"id0": true}
		for i, other := range c.Other {
			labels := map[string]string{}
			san := map[string]string{}
			for ok, ov := range other {
				labels[string(ok)] = string(ov)
				san[refKeyToLabel(string(ok))] = string(ov)
			}
			id := fmt.Sprintf("id%d", i+1)
			d.Containers = append(d.Containers, dl.Ctr(id, fmt.Sprintf("c%d", i+1), labels, lineOf(id)))
			// C20 only states that a container carrying k=v is selected; whether
			// containers without the label are selected is C02's subject.
			if v, ok := san[name]; ok && v == c.Value {
				want[id] = true
			}
		}
		r.Class(len(want) < len(d.Containers), "proper-subset")
		r.Class(c.Value == "", "empty-value")
		query := "{" + name + "=" + strconv.Quote(c.Value) + "}"
		carried := name // the label the entries of id0 carry the value under
		switch c.Pipe {
		case 1:
			query += " | label_format zz_renamed=" + name + " | zz_renamed=" + strconv.Quote(c.Value)
			carried = "zz_renamed"
		case 2:
			query += " | keep " + name + " | " + name + "=" + strconv.Quote(c.Value)
		case 3:
			query += " | drop zz_nosuch | " + name + "=" + strconv.Quote(c.Value)
		}
		r.Class(c.Pipe != 0, "selector-plus-a-filter-behind-a-label-stage")
		data, err := dl.Eval(d, query, dl.Params{Start: c20BaseTS - 3600e9, End: c20BaseTS + 3600e9, Step: 1e9, Limit: -1})
		rep := d.Done()
		if err != nil {
			r.Violation = evid.Viol("C20/select-error", "query %s failed: %v", query, err)
			return r
		}
		got := map[string]bool{}
		for _, call := range rep.Calls {
			got[call.ID] = true
		}
		for id := range want {
			if !got[id] {
				r.Violation = evid.Viol("C20/select-missed-container", "query %s (docker label %q=%q) read containers %v, want at least %v", query, k, c.Value, got, want)
				return r
			}
		}
		streams, err := canon.Streams(data)
		if err != nil {
			r.Violation = evid.Viol("C20/select-result", "%v", err)
			return r
		}
		seen := map[string]bool{}
		for _, e := range canon.Flatten(streams) {
			// The origin is read from the line: a Docker label may legitimately shadow container_id.
			origin := strings.TrimSuffix(e.Line[strings.Index(e.Line, "<")+1:], ">")
			seen[origin] = true
			if origin == "id0" && e.Labels[carried] != c.Value {
				r.Violation = evid.Viol("C20/select-label-missing", "query %s: entry of container id0 carries %s=%q, want %q", query, carried, e.Labels[carried], c.Value)
				return r
			}
		}
		for id := range want {
			if !seen[id] {
				r.Violation = evid.Viol("C20/select-missing-entries", "query %s returned entries of %v, want at least %v", query, seen, want)
			}
		}
		return r
	case "json":
		name := refKeyToLabel(k)
		r.NonTrivial = c20NonTrivialKey(k)
		doc, _ := json.Marshal(map[string]string{k: c.Value})
		d := &fakedocker.Daemon{}
		lines := []dl.Line{{TS: c20BaseTS, Msg: string(doc)}}
		query := "{} | json"
		if c.Before > 0 {
			// The same stage has already seen many lines with many other keys (the mapping of a
			// key must not depend on what was parsed before); they are filtered out afterwards.
			lines = nil
			n := 0
			for i := 0; i < c.Before; i++ {
				obj := map[string]string{"filler": "yes"}
				for j := 0; j < c.PerLine; j++ {
					obj[fmt.Sprintf("k%d", n)] = "x"
					n++
				}
				filler, _ := json.Marshal(obj)
				lines = append(lines, dl.Line{TS: c20BaseTS - int64(c.Before-i)*1e6, Msg: string(filler)})
			}
			lines = append(lines, dl.Line{TS: c20BaseTS, Msg: string(doc)})
			query = `{} | json | filler!="yes"`
			r.Class(n >= 128, "after>=128-other-keys")
		}
		d.Containers = append(d.Containers, dl.Ctr("id0", "c0", nil, lines))
		data, err := dl.Eval(d, query, dl.Params{Start: c20BaseTS - 3600e9, End: c20BaseTS + 3600e9, Step: 1e9, Limit: -1})
		d.Done()
		if err != nil {
			r.Violation = evid.Viol("C20/json-error", "query failed: %v", err)
			return r
		}
		streams, err := canon.Streams(data)
		if err != nil {
			r.Violation = evid.Viol("C20/json-result", "%v", err)
			return r
		}
		entries := canon.Flatten(streams)
		if len(entries) != 1 {
			r.Violation = evid.Viol("C20/json-entries", "line %s: got %d entries, want 1", doc, len(entries))
			return r
		}
		if v, ok := entries[0].Labels[name]; !ok || v != c.Value {
			r.Violation = evid.Viol("C20/json-label", "line %s | json: label %s = %q (present=%v), want %q; labels=%v", doc, name, v, ok, c.Value, entries[0].Labels)
		}
		return r
	default:
		r.Violation = evid.Viol("C20/bad-case", "unknown mode %q", c.Mode)
		return r
	}
}

// The 13 symbols named by the property plus a non-ASCII decimal digit (a multi-byte character
// of another Unicode class than the letters é / 世).
// Letters and digits are the ends of their ranges (a, z, A, Z, 0, 9): a range test that is off by one
// at either end shows.
var c20Alphabet = []string{"a", "z", "A", "Z", "0", "9", "_", ".", "-", "/", " ", "é", "世", "\xff", "\xc3", "٣"}

func c20GenKey(t *rapid.T, maxLen int, validUTF8 bool) string {
	// ... and the ASCII neighbours of those ranges (@ [ ` { / :)
	extra := []string{"b", "q", "7", ":", "=", "\"", "\\", "{", "\x00", "\n", " ", "𝛑", "\xe4\xb8", "\x80", "@", "[", "`", "m", "M", "5"}
	n := rapid.IntRange(1, maxLen).Draw(t, "n")
	var sb strings.Builder
	for i := 0; i < n; i++ {
		var sym string
		if rapid.IntRange(0, 3).Draw(t, "pool") == 0 {
			sym = rapid.SampledFrom(extra).Draw(t, "sym")
		} else {
			sym = rapid.SampledFrom(c20Alphabet).Draw(t, "sym")
		}
		if validUTF8 && !utf8.ValidString(sym) {
			sym = "_"
		}
		sb.WriteString(sym)
	}
	return sb.String()
}

func c20GenValue(t *rapid.T) string {
	// Values are compared as they are: paths, a lone slash, texts that would mean something as a
	// regular expression, surrounding blanks.
	return rapid.SampledFrom([]string{"v", "", "a b", "x.y-z", "say \"hi\"", `back\slash`, "é世", "1",
		"/srv/shop", "/", "//", "/v", "v/", ".*", "a|b", "[x]", "(", "^v$", "{}", " v", "v ", "V", "0x10", "true", "1.0",
		// quote characters at the ends and inside
		"`date`", "echo `date`", "`", "``", "a`b", "\"db\"", "'x'", "\"", "`\""}).Draw(t, "value")
}

func c20Gen(t *rapid.T) C20Case {
	mode := rapid.SampledFrom([]string{"key", "key", "select", "json"}).Draw(t, "mode")
	switch mode {
	case "key":
		if rapid.IntRange(0, 3).Draw(t, "buffer-boundary-key") == 0 {
			// Keys of the lengths at which a fixed-size buffer ends (a power of two, one less, one
			// more), made of one-byte characters except perhaps one, starting with a digit or not.
			n := rapid.SampledFrom([]int{8, 16, 32, 64, 128, 256, 512, 1024, 4096}).Draw(t, "bb-size") + rapid.IntRange(-1, 1).Draw(t, "bb-delta")
			first := rapid.SampledFrom([]string{"9", "0", "a", "_", "-", ".", "é"}).Draw(t, "bb-first")
			fill := rapid.SampledFrom([]string{"f", "-", "0", "_", "."}).Draw(t, "bb-fill")
			key := first + strings.Repeat(fill, n-len(first))
			if rapid.IntRange(0, 3).Draw(t, "bb-one-wide") == 0 {
				at := rapid.IntRange(1, len(key)-2).Draw(t, "bb-wide-at")
				key = key[:at] + rapid.SampledFrom([]string{"é", "世", "\xff"}).Draw(t, "bb-wide") + key[at+1:]
			}
			return C20Case{Mode: mode, Key: gen.BS(key)}
		}
		return C20Case{Mode: mode, Key: gen.BS(c20GenKey(t, 64, false))}
	case "json":
		c := C20Case{Mode: mode, Key: gen.BS(c20GenKey(t, 12, true)), Value: c20GenValue(t)}
		if rapid.IntRange(0, 3).Draw(t, "after-other-lines") == 0 {
			c.Before = rapid.SampledFrom([]int{1, 2, 10, 40, 70}).Draw(t, "lines-before")
			c.PerLine = rapid.SampledFrom([]int{1, 5, 30, 150, 300}).Draw(t, "keys-per-line")
		}
		return c
	default:
		var k string
		for i := 0; ; i++ {
			k = c20GenKey(t, 10, false)
			if rapid.IntRange(0, 7).Draw(t, "builtin-image") == 0 {
				// A Docker label whose sanitised name is one of the labels derived from the
				// container's metadata: the statement makes no exception for it.
				k = rapid.SampledFrom([]string{"container.name", "container-id", "container/image", "container state", "container.image.id", "container_name", "container.status", "container command", "container"}).Draw(t, "builtin-key")
			}
			if rapid.IntRange(0, 7).Draw(t, "function-word-key") == 0 {
				// Every function word of the language is a legal label name (the lexer turns it back
				// into an identifier unless a call follows); a key may spell it with separators.
				w := rapid.SampledFrom(c20FunctionWords).Draw(t, "function-word")
				k = strings.ReplaceAll(w, "_", rapid.SampledFrom([]string{"_", ".", "-", "/", " "}).Draw(t, "function-word-sep"))
			}
			if rapid.IntRange(0, 7).Draw(t, "keyword-case-key") == 0 {
				// Reserved words are reserved in lower case only: By, ON, Json, KEEP are ordinary names.
				var words []string
				for w := range logqlKeywords {
					words = append(words, w)
				}
				sort.Strings(words)
				w := rapid.SampledFrom(words).Draw(t, "keyword")
				switch rapid.IntRange(0, 2).Draw(t, "keyword-casing") {
				case 0:
					w = strings.ToUpper(w)
				case 1:
					w = strings.ToUpper(w[:1]) + w[1:]
				default:
					w = w[:len(w)-1] + strings.ToUpper(w[len(w)-1:])
				}
				k = strings.ReplaceAll(w, "_", rapid.SampledFrom([]string{"_", ".", "-"}).Draw(t, "keyword-sep"))
			}
			if rapid.IntRange(0, 7).Draw(t, "attribute-key") == 0 {
				// Keys spelled like the daemon's own container attributes and list filters.
				k = rapid.SampledFrom([]string{"id", "name", "image", "status", "label", "ancestor", "state", "names"}).Draw(t, "attribute-keyname")
			}
			name := refKeyToLabel(k)
			// Soundness: names that cannot be written in a selector are outside the statement.
			if !logqlKeywords[name] && name != "msg" {
				break
			}
		}
		name := refKeyToLabel(k)
		c := C20Case{Mode: mode, Key: gen.BS(k), Value: c20GenValue(t)}
		if !builtinContainerLabels[name] {
			c.Pipe = rapid.SampledFrom([]int{0, 0, 0, 1, 2, 3}).Draw(t, "pipe")
		}
		n := rapid.IntRange(0, 3).Draw(t, "others")
		for i := 0; i < n; i++ {
			labels := map[string]gen.BS{}
			m := rapid.IntRange(0, 2).Draw(t, "nlabels")
			used := map[string]bool{}
			for j := 0; j < m; j++ {
				var ok string
				switch rapid.IntRange(0, 3).Draw(t, "kind") {
				case 0:
					ok = k // same key, maybe another value
				case 1:
					ok = name // already sanitised form of the key
				default:
					ok = c20GenKey(t, 6, false)
				}
				san := refKeyToLabel(ok)
				// Two keys of one container with the same image: which wins is unspecified.
				// (another container may carry the very key of the case, also when it shadows a
				// built-in label: then both carry k=v and both are selected)
				if used[san] || (builtinContainerLabels[san] && ok != k) {
					continue
				}
				used[san] = true
				labels[ok] = gen.BS(c20GenValue(t))
				if ok == k && rapid.Bool().Draw(t, "same-value-too") {
					labels[ok] = gen.BS(c.Value)
				}
			}
			c.Other = append(c.Other, labels)
		}
		return c
	}
}

// TestC20 decides C20.
func TestC20(t *testing.T) {
	col := evid.NewCollector("C20")
	if !replaying() {
		// Exhaustive part: every string of length 1..maxLen over the alphabet.
		maxLen := envInt("VERIF_C20_MAXLEN", 5)
		var (
			total, nontrivial int
		)
		var rec func(depth int, s string) *evid.Violation
		rec = func(depth int, s string) *evid.Violation {
			if depth > 0 {
				total++
				if c20NonTrivialKey(s) {
					nontrivial++
				}
				if v := c20KeyOracle(s); v != nil {
					c := C20Case{Mode: "key", Key: gen.BS(s)}
					data, _ := json.Marshal(c)
					if fv := col.Record(data, evid.Result{Violation: v, NonTrivial: true}); fv != nil {
						return fv
					}
				}
			}
			if depth == maxLen {
				return nil
			}
			for _, sym := range c20Alphabet {
				if v := rec(depth+1, s+sym); v != nil {
					return v
				}
			}
			return nil
		}
		if v := rec(0, ""); v != nil {
			col.Flush("exhaustive", false)
			t.Fatalf("violation [%s]: %s", v.Sig, v.Msg)
		}
		col.AddBulk(total, nontrivial, "exhaustive-key")
		col.SetExtra("exhaustive_strings", total)
		col.SetExtra("exhaustive_max_len", maxLen)
		col.SetExtra("exhaustive_alphabet", "a z A Z 0 9 _ . - / space é 世 0xFF 0xC3 ٣(U+0663)")
	}
	evid.RunWith(t, col, c20Gen, c20Check)
}
