package props

import (
	"fmt"

	"github.com/tdakkota/docker-logql/verifharness/canon"
	"github.com/tdakkota/docker-logql/verifharness/eng"
	"github.com/tdakkota/docker-logql/verifharness/evid"
	"github.com/tdakkota/docker-logql/verifharness/gen"
	"github.com/tdakkota/docker-logql/verifharness/mockstore"
	"github.com/tdakkota/docker-logql/verifharness/model"
)

// MetricCase is a metric-query case.
type MetricCase struct {
	Recs     []model.Rec    `json:"recs"`
	M        gen.Metric     `json:"m"`
	Text     string         `json:"text"`
	Params   model.Params   `json:"params"`
	Params2  *model.Params  `json:"params2,omitempty"` // a second grid sharing points with the first
	Caps     mockstore.Caps `json:"caps"`
	Superset bool           `json:"superset,omitempty"`
	Repeat   int            `json:"repeat,omitempty"`
	// Identical, when set, is the number of records, all with the same line and labels: whatever
	// the query does with their names and values, they carry equal label sets (C10).
	Identical int `json:"identical,omitempty"`
	// Near, when set, holds the number of records of each of a few lines that differ in one
	// label value only, by as little as a value can differ (C10): one series per value.
	Near     []int    `json:"near,omitempty"`
	NearVals []string `json:"near_vals,omitempty"`
}

func sortedRecs(in []model.Rec) []model.Rec {
	recs := append([]model.Rec(nil), in...)
	model.SortRecs(recs)
	return recs
}

// runMetric evaluates text over recs and returns the canonical point map with error-label
// texts normalised.
func runMetric(recs []model.Rec, caps mockstore.Caps, superset bool, text string, p model.Params) (map[string]map[int64]float64, canon.Metric, *evid.Violation, *mockstore.Store) {
	store := mockstore.New(recs, caps)
	store.Superset = superset
	data, err := eng.Eval(store, text, p)
	if err != nil {
		return nil, canon.Metric{}, evid.Viol("eval-error", "query %s failed: %v", text, err), store
	}
	m, err := canon.MetricOf(data)
	if err != nil {
		return nil, m, evid.Viol("result-type", "query %s: %v", text, err), store
	}
	for i := range m.Series {
		m.Series[i].Labels = model.NormLabels(m.Series[i].Labels)
	}
	wantKind := "matrix"
	if p.Instant() {
		wantKind = "vector"
	}
	if m.Kind != wantKind {
		return nil, m, evid.Viol("result-kind", "query %s: result is a %s, want a %s", text, m.Kind, wantKind), store
	}
	pm, _, dups := canon.PointMap(m)
	if len(dups) > 0 {
		return nil, m, evid.Viol("duplicate-series", "query %s: %v", text, dups), store
	}
	return pm, m, nil, store
}

// compareMetric evaluates the case on grid p and compares with the model.
func compareMetric(prop string, c MetricCase, recs []model.Rec, ev *model.Evaluator, p model.Params, what string) *evid.Violation {
	want, err := ev.Eval(&c.M, p)
	if err != nil {
		return evid.Viol(prop+"/harness-model-error", "model failed on %s: %v", c.Text, err)
	}
	got, _, v, _ := runMetric(recs, c.Caps, c.Superset, c.Text, p)
	if v != nil {
		v.Sig = prop + "/" + v.Sig
		return v
	}
	if d := canon.DiffPointMapsTol(got, want.Points, want.Tolerance()); d != "" {
		return evid.Viol(prop+"/wrong-value", "%s %s (%s): %s", c.Text, what, fmt.Sprintf("start=%d end=%d step=%d", p.Start, p.End, p.Step), d)
	}
	return nil
}
