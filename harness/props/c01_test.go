package props

import (
	"errors"
	"fmt"
	"sort"
	"strings"
	"testing"

	"github.com/docker/docker/api/types"

	"pgregory.net/rapid"

	"github.com/tdakkota/docker-logql/internal/lokiapi"
	"github.com/tdakkota/docker-logql/verifharness/canon"
	"github.com/tdakkota/docker-logql/verifharness/datagen"
	"github.com/tdakkota/docker-logql/verifharness/dl"
	"github.com/tdakkota/docker-logql/verifharness/eng"
	"github.com/tdakkota/docker-logql/verifharness/evid"
	"github.com/tdakkota/docker-logql/verifharness/fakedocker"
	"github.com/tdakkota/docker-logql/verifharness/gen"
	"github.com/tdakkota/docker-logql/verifharness/mockstore"
	"github.com/tdakkota/docker-logql/verifharness/model"
)

// LogCase is a log-query case: data, query (model form and text) and storage capabilities.
type LogCase struct {
	Recs  []model.Rec    `json:"recs"`
	Query gen.LogQuery   `json:"query"`
	Text  string         `json:"text"`
	Caps  mockstore.Caps `json:"caps"`
	Limit int            `json:"limit,omitempty"`
}

func isUnsupported(err error) bool {
	var u *model.Unsupported
	return errors.As(err, &u)
}

func stageClasses(r *evid.Result, q *gen.LogQuery) {
	kinds := map[string]bool{}
	for _, s := range q.Stages {
		kinds[s.Kind] = true
	}
	for k := range kinds {
		r.Class(true, "stage:"+k)
	}
	r.Class(len(q.Stages) == 0, "stages=0")
	r.Class(len(q.Stages) >= 3, "stages>=3")
	r.Class(len(q.Sel) > 0, "selector-matchers")
}

func c01Check(c LogCase) (r evid.Result) {
	recs := append([]model.Rec(nil), c.Recs...)
	model.SortRecs(recs)
	stageClasses(&r, &c.Query)
	want, err := model.EvalLog(&c.Query, recs)
	if err != nil {
		if isUnsupported(err) {
			r.Class(true, "model-unsupported")
			r.Class(true, "model-unsupported: "+trunc(err.Error()))
			return r
		}
		r.Violation = evid.Viol("C01/harness-model-error", "model failed on %s: %v", c.Text, err)
		return r
	}
	params := eng.CoverAll(recs)
	wantSet := canon.Multiset(eng.EntriesOf(want))

	type run struct {
		caps mockstore.Caps
		got  map[string]int
	}
	var runs []run
	offloaded := 0
	for _, caps := range []mockstore.Caps{c.Caps, {}} {
		store := mockstore.New(recs, caps)
		data, err := eng.Eval(store, c.Text, params)
		if err != nil {
			r.Violation = evid.Viol("C01/eval-error", "query %s (caps %+v) failed: %v", c.Text, caps, err)
			return r
		}
		streams, err := canon.Streams(data)
		if err != nil {
			r.Violation = evid.Viol("C01/result-type", "query %s: %v", c.Text, err)
			return r
		}
		got := canon.Multiset(eng.NormEntries(canon.Flatten(streams)))
		if d := canon.DiffMultiset(got, wantSet); d != "" {
			sig := "C01/wrong-result"
			if caps != (mockstore.Caps{}) {
				// Decide whether offloading is to blame: it is if the engine-only run is right.
				sig = "C01/wrong-result-with-offload"
			}
			r.Violation = evid.Viol(sig, "query %s (caps %+v) over %d records: %s", c.Text, caps, len(recs), d)
			return r
		}
		if len(store.Calls) > 0 {
			offloaded += store.Calls[0].Labels + store.Calls[0].Line
		}
		runs = append(runs, run{caps, got})
	}
	if d := canon.DiffMultiset(runs[0].got, runs[1].got); d != "" {
		r.Violation = evid.Viol("C01/offload-dependent", "query %s: caps %+v vs none: %s", c.Text, c.Caps, d)
		return r
	}
	r.Evals = 2
	r.Class(offloaded > 0, "offloaded")
	r.Class(len(recs) == 0, "no-records")
	r.Class(len(recs) >= 10, "records>=10")
	r.Class(len(want) == 0, "empty-result")
	r.Class(len(want) > 0 && len(want) < len(recs), "proper-subset")
	r.Class(len(want) == len(recs) && len(recs) > 0, "all-match")
	r.NonTrivial = (len(want) > 0 && len(want) < len(recs)) || (len(c.Query.Stages) >= 2 && offloaded > 0)
	return r
}

func genLogCase(t *rapid.T, o datagen.QueryOpts, formats []string) LogCase {
	s := datagen.GenSchemaQ(t, formats, o.QuotedValues)
	var c LogCase
	c.Recs = datagen.GenRecs(t, s, 25, false)
	// Prefer queries that keep something: up to three draws, an empty result is accepted
	// only on the last one (or with probability 1/4 before).
	sorted := append([]model.Rec(nil), c.Recs...)
	model.SortRecs(sorted)
	for attempt := 0; attempt < 3; attempt++ {
		c.Query = datagen.GenLogQueryFor(t, s, c.Recs, o)
		want, err := model.EvalLog(&c.Query, sorted)
		if err != nil || len(want) > 0 || len(c.Recs) == 0 || rapid.IntRange(0, 3).Draw(t, "accept-empty") == 0 {
			break
		}
	}
	// A typed comparison over a JSON field that is a boolean, an object or an array: it cannot
	// convert the value, so the record stays and is flagged - it is not "a label that is not there".
	if s.Format == "json" && rapid.IntRange(0, 5).Draw(t, "typed-over-composite") == 0 {
		var comp []datagen.Field
		for _, f := range s.Fields {
			if f.Type == "bool" || f.Type == "obj" {
				comp = append(comp, f)
			}
		}
		if len(comp) > 0 {
			f := comp[rapid.IntRange(0, len(comp)-1).Draw(t, "composite-field")]
			p := &gen.Pred{Kind: "num", Label: f.Name, Op: rapid.SampledFrom([]string{">", ">=", "<", "<=", "==", "!="}).Draw(t, "composite-op"), Text: "0", Num: 0}
			if rapid.IntRange(0, 2).Draw(t, "composite-or") == 0 {
				p = &gen.Pred{Kind: "or", L: p, R: &gen.Pred{Kind: "match", Label: "nosuch", Op: "=", Str: "x"}}
			}
			c.Query.Stages = append([]gen.Stage{{Kind: "json"}, {Kind: "labelfilter", Pred: p}}, c.Query.Stages...)
			datagen.FixAmbiguities(&c.Query)
		}
	}
	// drop / keep with a value matcher over a JSON field that is a number or a boolean: the
	// matcher sees the text of the value, as for a string.
	if s.Format == "json" && o.AllowRewrite && rapid.IntRange(0, 5).Draw(t, "drop-keep-typed-value") == 0 {
		var typed []datagen.Field
		for _, f := range s.Fields {
			if f.Type == "int" || f.Type == "float" || f.Type == "bool" {
				typed = append(typed, f)
			}
		}
		if len(typed) > 0 {
			f := typed[rapid.IntRange(0, len(typed)-1).Draw(t, "typed-field")]
			m := datagen.GenMatcher(t, []datagen.Field{f}, "typed-m")
			m.Label = f.Name
			st := gen.Stage{Kind: rapid.SampledFrom([]string{"drop", "keep"}).Draw(t, "typed-dk"), Matchers: []gen.Matcher{m}}
			if st.Kind == "keep" {
				st.Labels = []string{"msg"}
			}
			c.Query.Stages = append([]gen.Stage{{Kind: "json"}, st}, c.Query.Stages...)
			datagen.FixAmbiguities(&c.Query)
		}
	}
	// A number comparison over a stream label meets the special floats in that label: NaN fails
	// every ordered comparison (and ==), the infinities lie beyond every literal.
	if len(c.Recs) > 0 {
		isLabel := map[string]bool{}
		for _, l := range s.Labels {
			isLabel[l.Name] = true
		}
		var walk func(p *gen.Pred)
		walk = func(p *gen.Pred) {
			if p == nil {
				return
			}
			if p.Kind == "num" && isLabel[p.Label] && rapid.Bool().Draw(t, "special-float-label") {
				i := rapid.IntRange(0, len(c.Recs)-1).Draw(t, "special-float-rec")
				c.Recs[i].Labels[p.Label] = rapid.SampledFrom([]string{"NaN", "nan", "+Inf", "-Inf", "NaN"}).Draw(t, "special-float")
			}
			walk(p.L)
			walk(p.R)
		}
		for _, st := range c.Query.Stages {
			walk(st.Pred)
		}
	}
	c.Text = gen.PrintLog(&c.Query, datagen.RapidLayout{T: t, RawOK: true})
	c.Caps = mockstore.Caps{Label: rapid.IntRange(0, 15).Draw(t, "caps-label"), Line: rapid.IntRange(0, 15).Draw(t, "caps-line")}
	return c
}

func c01Gen(t *rapid.T) LogCase {
	return genLogCase(t, datagen.QueryOpts{MaxStages: 5, AllowDistinct: true, AllowParsers: true, AllowRewrite: true},
		[]string{"plain", "json", "json", "logfmt", "delim", "packed"})
}

// TestC01 decides C01.
func TestC01(t *testing.T) {
	evid.Run(t, "C01", c01Gen, c01Check)
}

// c01BackendCheck is the last sentence of C01 over the storage backend of the product: the same
// query over the same containers, once with the Docker backend evaluating the selector itself
// and once with its capabilities hidden, so that the engine evaluates it.
func c01BackendCheck(c C02Case) (r evid.Result) {
	c.Metric = false
	// A selector names labels of the stream - for this backend, of the container (C02). The labels
	// the engine derives from a record itself (msg = the line, level, trace and span id) exist
	// only on its side: a selector on one of them has no backend-side counterpart to compare
	// with, and C02 says which containers it selects.
	for _, m := range c.Sel {
		switch m.Label {
		case "msg", "level", "trace_id", "span_id", "severity":
			r.Class(true, "selector-on-a-record-derived-label")
			return r
		}
	}
	build := func() *fakedocker.Daemon {
		d := &fakedocker.Daemon{}
		mid := c.Params.Start + (c.Params.End-c.Params.Start)/2
		for _, ct := range c.Ctrs {
			var lines []dl.Line
			for i := 0; i < ct.Lines; i++ {
				text, _ := c02Line(ct.ID, i)
				lines = append(lines, dl.Line{TS: mid + int64(i), Msg: text})
			}
			labels := map[string]string{}
			for k, v := range ct.Labels {
				labels[k] = string(v)
			}
			fc := dl.Ctr(ct.ID, "", labels, lines)
			fc.Summary = types.Container{ID: ct.ID, Names: ct.Names, Image: ct.Image, ImageID: ct.ImageID, Command: ct.Command,
				Created: ct.Created, State: ct.State, Status: ct.Status, Labels: labels}
			d.Containers = append(d.Containers, fc)
		}
		return d
	}
	query := c02Query(c)
	p := dl.Params{Start: c.Params.Start, End: c.Params.End, Step: c.Params.Step, Limit: -1}
	render := func(data lokiapi.QueryResponseData, err error) (string, int) {
		if err != nil {
			return "error", 0
		}
		streams, err := canon.Streams(data)
		if err != nil {
			return "not streams: " + err.Error(), 0
		}
		var out []string
		for _, e := range canon.Flatten(streams) {
			out = append(out, fmt.Sprintf("%d %q {%s}", e.TS, e.Line, canon.LabelKey(e.Labels)))
		}
		sort.Strings(out)
		return strings.Join(out, "\n"), len(out)
	}
	d1 := build()
	data1, err1 := dl.Eval(d1, query, p)
	rep1 := d1.Done()
	d2 := build()
	data2, err2 := dl.EvalEngineSide(d2, query, p)
	d2.Done()
	if (err1 == nil) != (err2 == nil) {
		r.Violation = evid.Viol("C01/backend-differs", "query %s: the backend's own evaluation ended with err=%v, the engine's with err=%v", query, err1, err2)
		return r
	}
	a, n := render(data1, err1)
	b, _ := render(data2, err2)
	r.Class(true, "real-backend")
	r.Class(len(rep1.Calls) < len(c.Ctrs), "backend-skipped-containers")
	_ = n
	r.NonTrivial = len(rep1.Calls) < len(c.Ctrs)
	if a != b {
		r.Violation = evid.Viol("C01/backend-differs", "query %s over %d containers: evaluated by the Docker backend itself:\n%s\n--- evaluated by the engine on its behalf:\n%s", query, len(c.Ctrs), trunc(a), trunc(b))
	}
	return r
}

// TestC01Backend decides the last sentence of C01 over the product's own storage backend.
func TestC01Backend(t *testing.T) {
	evid.Run(t, "C01", c02Gen, c01BackendCheck)
}

var _ = fmt.Sprint
