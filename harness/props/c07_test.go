package props

import (
	"fmt"
	"strings"
	"testing"

	"pgregory.net/rapid"

	"github.com/tdakkota/docker-logql/verifharness/canon"
	"github.com/tdakkota/docker-logql/verifharness/datagen"
	"github.com/tdakkota/docker-logql/verifharness/eng"
	"github.com/tdakkota/docker-logql/verifharness/evid"
	"github.com/tdakkota/docker-logql/verifharness/gen"
	"github.com/tdakkota/docker-logql/verifharness/mockstore"
	"github.com/tdakkota/docker-logql/verifharness/model"
)

// C07Case is one case of property C07: records and one rewriting stage.
type C07Case struct {
	Recs  []model.Rec `json:"recs"`
	Stage gen.Stage   `json:"stage"`
	Text  string      `json:"text"`
	// Plain[i] is the text record i was coloured from (decolorize cases).
	Plain []string `json:"plain,omitempty"`
	// Prefix, when set, is a parser stage in front of Stage: the rewriting stage then works on
	// extracted labels (JSON numbers and booleans among them).
	Prefix *gen.Stage `json:"prefix,omitempty"`
	// Prefix2, with Prefix, is a stage between the two that takes one of the two error labels
	// away again (| drop __error__, | drop __error_details__): a template that fails afterwards
	// still has to flag the record.
	Prefix2 *gen.Stage `json:"prefix2,omitempty"`
}

func (c C07Case) prefixStages() []gen.Stage {
	var out []gen.Stage
	if c.Prefix != nil {
		out = append(out, *c.Prefix)
		if c.Prefix2 != nil {
			out = append(out, *c.Prefix2)
		}
	}
	return out
}

func c07Check(c C07Case) (r evid.Result) {
	recs := c.Recs // already in time order, index-aligned with Plain
	q := gen.LogQuery{Stages: []gen.Stage{c.Stage}}
	if c.Prefix != nil {
		q.Stages = append(c.prefixStages(), c.Stage)
	}
	r.Class(c.Prefix2 != nil, "an-error-label-dropped-before")
	r.Class(true, "stage="+c.Stage.Kind)
	r.Class(c.Prefix != nil && c.Prefix.Kind == "json", "after-json-parser")
	r.Class(c.Prefix != nil && c.Prefix.Kind == "line_format", "two-line_format-stages")
	store := mockstore.New(recs, mockstore.Caps{})
	data, err := eng.Eval(store, c.Text, eng.CoverAll(recs))
	if err != nil {
		r.Violation = evid.Viol("C07/eval-error", "query %s failed: %v", c.Text, err)
		return r
	}
	streams, err := canon.Streams(data)
	if err != nil {
		r.Violation = evid.Viol("C07/result-type", "%v", err)
		return r
	}
	got := canon.Flatten(streams)
	if len(got) != len(recs) {
		r.Violation = evid.Viol("C07/line-dropped", "query %s: %d entries for %d records", c.Text, len(got), len(recs))
		return r
	}
	byTS := map[uint64]canon.Entry{}
	for _, e := range got {
		byTS[e.TS] = e
	}
	nontrivial := false
	for i, rec := range recs {
		e := byTS[uint64(rec.TS)]
		what := fmt.Sprintf("query %s over line %q labels %v", c.Text, trunc(string(rec.Line)), rec.Labels)
		pipe := model.NewPipeline(q.Stages)
		line, labels, keep, merr := pipe.Process(rec, rec.TS, string(rec.Line), rec.BaseLabels())
		if merr != nil || !keep {
			if merr != nil && isUnsupported(merr) {
				r.Class(true, "model-unsupported")
				continue
			}
			r.Violation = evid.Viol("C07/harness-model-error", "%s: %v keep=%v", what, merr, keep)
			return r
		}
		if c.Stage.Kind == "decolorize" && i < len(c.Plain) {
			// By construction: exactly the plain chunks remain.
			line = c.Plain[i]
			if strings.Contains(string(rec.Line), "\x1b[") || strings.Contains(string(rec.Line), "\u009b") {
				nontrivial = true
			}
		}
		if e.Line != line {
			r.Violation = evid.Viol("C07/line", "%s: line %q, want %q", what, trunc(e.Line), trunc(line))
			return r
		}
		want := model.NormLabels(labels)
		have := model.NormLabels(e.Labels)
		if canon.LabelKey(want) != canon.LabelKey(have) {
			r.Violation = evid.Viol("C07/labels", "%s: labels {%s}, want {%s}", what, canon.LabelKey(have), canon.LabelKey(want))
			return r
		}
		base := rec.BaseLabels()
		if c.Prefix != nil {
			if _, pl, _, perr := model.NewPipeline(c.prefixStages()).Process(rec, rec.TS, string(rec.Line), rec.BaseLabels()); perr == nil {
				base = pl
			}
		}
		switch c.Stage.Kind {
		case "label_format":
			for _, rn := range c.Stage.Renames {
				if _, ok := base[rn.Src]; ok && rn.Src != rn.Dst {
					nontrivial = true
				}
			}
			for _, tp := range c.Stage.Templates {
				for _, p := range tp.Tmpl {
					if p.A != "" {
						nontrivial = true
					}
				}
			}
		case "line_format":
			for _, p := range c.Stage.Tmpl {
				if p.A != "" || p.Kind == "line" {
					nontrivial = true
				}
			}
		case "drop", "keep":
			if len(labels) > 0 && len(labels) < len(base) {
				nontrivial = true
			}
		}
		if _, failed := labels[model.ErrorLabel]; failed {
			r.Class(true, "failing-template")
		}
	}
	r.NonTrivial = nontrivial
	return r
}

func c07Gen(t *rapid.T) C07Case {
	var c C07Case
	s := datagen.GenSchema(t, []string{"plain"})
	kind := rapid.SampledFrom([]string{"label_format", "label_format", "line_format", "drop", "keep", "decolorize"}).Draw(t, "stage")
	n := rapid.IntRange(1, 6).Draw(t, "nrecs")
	ts := int64(1700000000) * 1e9
	names := []string{}
	for _, l := range s.Labels {
		names = append(names, l.Name)
	}
	if kind != "decolorize" && rapid.IntRange(0, 3).Draw(t, "after-json") == 0 {
		// JSON documents behind "| json": the stage works on extracted labels, some of which
		// come from JSON numbers and booleans.
		s = datagen.GenSchema(t, []string{"json"})
		c.Recs = datagen.GenRecs(t, s, 6, true)
		model.SortRecs(c.Recs)
		c.Prefix = &gen.Stage{Kind: "json"}
		names = names[:0]
		for _, f := range append(append([]datagen.Field{}, s.Labels...), s.Fields...) {
			if f.Type != "obj" {
				names = append(names, f.Name)
			}
		}
		n = 0
	}
	for i := 0; i < n; i++ {
		ts += 1e6
		rec := model.Rec{TS: ts, Labels: map[string]string{}}
		for _, l := range s.Labels {
			if rapid.IntRange(0, 4).Draw(t, "missing") != 0 {
				rec.Labels[l.Name] = rapid.SampledFrom(append(append([]string{}, l.Pool...), "MiXed Case", " padded ")).Draw(t, "labelval")
			}
		}
		// A label holding a unix timestamp in most records and something else in the others.
		rec.Labels["ts"] = rapid.SampledFrom([]string{"1700000001", "1700000002", "oops", "17", "1700000003",
			"1700000001999", "1700000001999999", "1700000001999999999", "19675", "170000000", "+170000001", "-1700000001"}).Draw(t, "tsval")
		line := rapid.SampledFrom([]string{"GET /a 200", "", "some words here", "  spaced  ", "{{not a template}}", "percent %s %d"}).Draw(t, "line")
		if kind == "decolorize" {
			// A coloured line assembled from plain chunks and SGR sequences.
			var sb, plain strings.Builder
			m := rapid.IntRange(0, 5).Draw(t, "chunks")
			for j := 0; j < m; j++ {
				if rapid.Bool().Draw(t, "sgr") {
					sb.WriteString(rapid.SampledFrom([]string{"\x1b[31m", "\x1b[0m", "\x1b[1;32m", "\x1b[m", "\x1b[38;5;196m", "\x1b[38;2;1;2;3m", "\x1b[4;9m",
						// the single-character C1 CSI introducer U+009B
						"\u009b31m", "\u009b0m", "\u009b1;32m"}).Draw(t, "sgrseq"))
				}
				chunk := rapid.SampledFrom([]string{"text", " ", "[31m", "m", "1;2", "[", "ünï", "0m", "x;y", "%", "e[0m"}).Draw(t, "chunk")
				sb.WriteString(chunk)
				plain.WriteString(chunk)
			}
			line = sb.String()
			c.Plain = append(c.Plain, plain.String())
		}
		rec.Line = gen.BS(line)
		c.Recs = append(c.Recs, rec)
	}
	all := append(append([]string{}, names...), "msg", "nosuch")
	st := gen.Stage{Kind: kind}
	switch kind {
	case "decolorize":
	case "line_format":
		st.Tmpl = genTmplT(t, all, nil)
	case "label_format":
		touched := map[string]bool{}
		m := rapid.IntRange(1, 3).Draw(t, "nops")
		for i := 0; i < m; i++ {
			dst := rapid.SampledFrom(append([]string{"new1", "new2", "out"}, names...)).Draw(t, "dst")
			if touched[dst] {
				continue
			}
			if rapid.Bool().Draw(t, "rename") {
				src := rapid.SampledFrom(all).Draw(t, "src")
				if touched[src] {
					continue
				}
				touched[dst], touched[src] = true, true
				st.Renames = append(st.Renames, gen.Rename{Dst: dst, Src: src})
			} else {
				touched[dst] = true
				st.Templates = append(st.Templates, gen.LabelTmpl{Dst: dst})
			}
		}
		// Renames are written (and applied) before the templates of the same stage: a template may
		// name a renamed label - under its new name it sees the value, under the old one nothing.
		// Templates never depend on one another (their order of evaluation is not specified).
		tmplDst := map[string]bool{}
		for _, tp := range st.Templates {
			tmplDst[tp.Dst] = true
		}
		for i := range st.Templates {
			names := all
			if len(st.Renames) > 0 && rapid.Bool().Draw(t, "tmpl-over-renamed") {
				names = nil
				for _, rn := range st.Renames {
					names = append(names, rn.Dst, rn.Src)
				}
			}
			st.Templates[i].Tmpl = genTmplT(t, names, tmplDst)
		}
		if len(st.Renames)+len(st.Templates) == 0 {
			st.Renames = []gen.Rename{{Dst: "out", Src: all[0]}}
		}
	default: // drop, keep
		picked := dedupT(rapid.SliceOfN(rapid.SampledFrom(all), 1, 3).Draw(t, "names"))
		for _, nme := range picked {
			if rapid.IntRange(0, 2).Draw(t, "matcher") == 0 {
				var pool []string
				for _, r := range c.Recs {
					labels := r.BaseLabels()
					if c.Prefix != nil {
						if _, pl, _, perr := model.NewPipeline(c.prefixStages()).Process(r, r.TS, string(r.Line), r.BaseLabels()); perr == nil {
							labels = pl
						}
					}
					if v, ok := labels[nme]; ok {
						pool = append(pool, v)
					}
				}
				if len(pool) == 0 {
					pool = []string{"x"}
				}
				m := datagen.GenMatcher(t, []datagen.Field{{Name: nme, Type: "str", Pool: pool}}, "m")
				m.Label = nme
				st.Matchers = append(st.Matchers, m)
			} else {
				st.Labels = append(st.Labels, nme)
			}
		}
	}
	c.Stage = st
	if c.Prefix == nil && st.Kind == "line_format" && rapid.IntRange(0, 2).Draw(t, "line-format-twice") == 0 {
		// Two line_format stages in a row: the second one works on what the first one wrote, and
		// when it fails that is the line that stays; when the first one fails, that is flagged.
		first := []gen.TmplPart{{Kind: "lit", Text: "first:"}, {Kind: "label", A: "app"}}
		if rapid.IntRange(0, 3).Draw(t, "first-fails") == 0 {
			first = append(first, gen.TmplPart{Kind: "fail_regex", A: "nosuchlabel"})
		}
		c.Prefix = &gen.Stage{Kind: "line_format", Tmpl: first}
	}
	if c.Prefix != nil && c.Prefix.Kind == "json" && (st.Kind == "line_format" || st.Kind == "label_format") && rapid.IntRange(0, 2).Draw(t, "drop-an-error-label-first") == 0 {
		c.Prefix2 = &gen.Stage{Kind: "drop", Labels: []string{rapid.SampledFrom([]string{"__error__", "__error_details__"}).Draw(t, "dropped-error-label")}}
	}
	stages := append(c.prefixStages(), st)
	c.Text = gen.PrintLog(&gen.LogQuery{Stages: stages}, gen.Plain{})
	return c
}

func genTmplT(t *rapid.T, names []string, forbidden map[string]bool) []gen.TmplPart {
	var ok []string
	for _, n := range names {
		if !forbidden[n] {
			ok = append(ok, n)
		}
	}
	if len(ok) == 0 {
		ok = []string{"nosuch"}
	}
	if rapid.IntRange(0, 7).Draw(t, "tmpl-root-variable-only") == 0 {
		// a template that reaches the labels through the root variable only - not one dot in it
		var parts []gen.TmplPart
		for i, k := 0, rapid.IntRange(1, 3).Draw(t, "tmpl-root-parts"); i < k; i++ {
			if rapid.Bool().Draw(t, "tmpl-root-lit") {
				parts = append(parts, gen.TmplPart{Kind: "lit", Text: rapid.SampledFrom([]string{"r:", " ", "-", "#"}).Draw(t, "tmpl-root-text")})
			}
			parts = append(parts, gen.TmplPart{Kind: "root_index", A: rapid.SampledFrom(ok).Draw(t, "tmpl-root-a")})
		}
		return parts
	}
	n := rapid.IntRange(1, 4).Draw(t, "tmpl-parts")
	var parts []gen.TmplPart
	for i := 0; i < n; i++ {
		a := rapid.SampledFrom(ok).Draw(t, "tmpl-a")
		b := rapid.SampledFrom(ok).Draw(t, "tmpl-b")
		switch rapid.IntRange(0, 14).Draw(t, "tmpl-kind") {
		case 11:
			parts = append(parts, gen.TmplPart{Kind: rapid.SampledFrom([]string{"alignLeft", "alignRight"}).Draw(t, "tmpl-align"), A: a,
				N: rapid.SampledFrom([]int{-1, 0, 1, 2, 3, 5, 8, 20}).Draw(t, "tmpl-width")})
		case 12:
			switch rapid.IntRange(0, 2).Draw(t, "tmpl-edit") {
			case 0:
				parts = append(parts, gen.TmplPart{Kind: "replace", A: a, Text: rapid.SampledFrom([]string{"a", "e", "/", " ", "10", "ab"}).Draw(t, "tmpl-old"),
					Text2: rapid.SampledFrom([]string{"", "_", "aa", "é"}).Draw(t, "tmpl-new")})
			case 1:
				parts = append(parts, gen.TmplPart{Kind: rapid.SampledFrom([]string{"trimPrefix", "trimSuffix"}).Draw(t, "tmpl-trimfn"), A: a,
					Text: rapid.SampledFrom([]string{"a", "/", "w", "1", "GET", "d"}).Draw(t, "tmpl-affix")})
			default:
				parts = append(parts, gen.TmplPart{Kind: "if_contains", A: a, Text: rapid.SampledFrom([]string{"a", "e", "/", "0", ""}).Draw(t, "tmpl-needle")})
			}
		case 13:
			parts = append(parts, gen.TmplPart{Kind: rapid.SampledFrom([]string{"b64enc", "regex_wrap", "ts_millis", "regex_wrap_literal", "regex_count"}).Draw(t, "tmpl-misc"), A: a})
		case 0:
			parts = append(parts, gen.TmplPart{Kind: "lit", Text: rapid.SampledFrom([]string{"x", "-", " => ", "[", "lit", "\"q\"", "ünï"}).Draw(t, "tmpl-lit")})
		case 1:
			parts = append(parts, gen.TmplPart{Kind: "line"})
		case 2:
			parts = append(parts, gen.TmplPart{Kind: "ts_nanos"})
		case 3:
			parts = append(parts, gen.TmplPart{Kind: rapid.SampledFrom([]string{"upper", "lower", "ToUpper", "ToLower", "trim"}).Draw(t, "tmpl-fn"), A: a})
		case 4:
			parts = append(parts, gen.TmplPart{Kind: "printf2", A: a, B: b})
		case 5:
			parts = append(parts, gen.TmplPart{Kind: "default", A: a, Text: "dflt"})
		case 6:
			parts = append(parts, gen.TmplPart{Kind: "ts_unix"})
		default:
			parts = append(parts, gen.TmplPart{Kind: "label", A: a})
		}
	}
	if rapid.IntRange(0, 6).Draw(t, "tmpl-fail") == 0 {
		parts = append(parts, gen.TmplPart{Kind: rapid.SampledFrom([]string{"fail_unixToTime", "fail_regex", "fail_field", "fail_argtype", "fail_argcount", "fail_index"}).Draw(t, "tmpl-failkind"), A: "nosuchlabel"})
	}
	if !forbidden["ts"] && rapid.IntRange(0, 3).Draw(t, "tmpl-maybe-fail") == 0 {
		parts = append(parts, gen.TmplPart{Kind: "unix_of_label", A: "ts"})
	}
	return parts
}

// TestC07 decides C07.
func TestC07(t *testing.T) {
	evid.Run(t, "C07", c07Gen, c07Check)
}
