package props

import (
	"encoding/json"
	"testing"

	"pgregory.net/rapid"

	"github.com/tdakkota/docker-logql/verifharness/gen"
)

// FuzzC05 drives the C05 property with coverage guidance: the fuzzer's bytes are rapid's
// bit stream, so every input is a structured (grammar-derived or forbidden) query.
func FuzzC05(f *testing.F) {
	f.Fuzz(rapid.MakeFuzz(func(t *rapid.T) {
		c := c05Gen(t)
		if r := c05Check(c); r.Violation != nil {
			data, _ := json.Marshal(c)
			path := saveFuzzReplay("C05", json.RawMessage(data))
			t.Fatalf("VERIF-REPLAY %s\nviolation [%s]: %s", path, r.Violation.Sig, r.Violation.Msg)
		}
	}))
}

// FuzzC20 fuzzes KeyToLabel against the reference mapping.
func FuzzC20(f *testing.F) {
	for _, s := range []string{"a", "9", "a.b", "com.docker.compose.service", "é", "\xff", "a\xc3", "_", "-", "世界", "a b/c-d.e"} {
		f.Add(s)
	}
	f.Fuzz(func(t *testing.T, key string) {
		if key == "" {
			return
		}
		if v := c20KeyOracle(key); v != nil {
			path := saveFuzzReplay("C20", C20Case{Mode: "key", Key: gen.BS(key)})
			t.Fatalf("VERIF-REPLAY %s\nviolation [%s]: %s", path, v.Sig, v.Msg)
		}
	})
}
