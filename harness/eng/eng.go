// Package eng runs the real engine over the mock storage.
package eng

import (
	"context"
	"fmt"
	"time"

	"go.opentelemetry.io/collector/pdata/pcommon"

	"github.com/tdakkota/docker-logql/internal/logql/logqlengine"
	"github.com/tdakkota/docker-logql/internal/lokiapi"
	"github.com/tdakkota/docker-logql/verifharness/canon"
	"github.com/tdakkota/docker-logql/verifharness/mockstore"
	"github.com/tdakkota/docker-logql/verifharness/model"
)

// Eval evaluates text with a fresh engine over store.
func Eval(store *mockstore.Store, text string, p model.Params) (lokiapi.QueryResponseData, error) {
	e := logqlengine.NewEngine(store, logqlengine.Options{})
	data, err := e.Eval(context.Background(), text, logqlengine.EvalParams{
		Start: pcommon.Timestamp(p.Start),
		End:   pcommon.Timestamp(p.End),
		Step:  time.Duration(p.Step),
		Limit: p.Limit,
	})
	if err == nil {
		// The attributes of a record belong to the storage and are shared between records.
		if what := store.Mutated(); what != "" {
			return data, fmt.Errorf("evaluation wrote into the attributes handed out by the storage: %s", what)
		}
	}
	return data, err
}

// CoverAll returns range-query parameters whose window covers every record.
func CoverAll(recs []model.Rec) model.Params {
	p := model.Params{Start: 1700000000e9 - 10e9, End: 1700000000e9 + 10e9, Step: 1e9, Limit: -1}
	for _, r := range recs {
		if r.TS-1e9 < p.Start {
			p.Start = r.TS - 1e9
		}
		if r.TS+1e9 > p.End {
			p.End = r.TS + 1e9
		}
	}
	return p
}

// EntriesOf converts model entries into canonical entries (error label texts normalised).
func EntriesOf(entries []model.Entry) []canon.Entry {
	out := make([]canon.Entry, len(entries))
	for i, e := range entries {
		out[i] = canon.Entry{TS: uint64(e.TS), Line: e.Line, Labels: model.NormLabels(e.Labels)}
	}
	return out
}

// NormEntries normalises the error label texts of result entries.
func NormEntries(entries []canon.Entry) []canon.Entry {
	out := make([]canon.Entry, len(entries))
	for i, e := range entries {
		out[i] = canon.Entry{TS: e.TS, Line: e.Line, Labels: model.NormLabels(e.Labels)}
	}
	return out
}
